#!/usr/bin/env python3
"""Regenerate DESIGN_TABLES.md from contracts/*.json, evidence/*.json and seeded/RESULTS.json."""
import glob, json, os
V = os.path.dirname(os.path.abspath(__file__))
out = ['# Generated tables (python3 gen_design_tables.py) — do not edit', '']
units = [json.load(open(f)) for f in sorted(glob.glob(V + '/contracts/*.json'))]
out += ['## Units', '', '| unit | TU | properties | functions extracted each run | proofs |', '|---|---|---|---|---|']
for u in units:
    fns = ', '.join('`%s`%s' % (f['qname'].replace('Oomd::', ''), ' (lambdas only)' if f.get('lambdas_only') else '') for f in u['functions'])
    out.append('| %s | %s | %s | %s | %d |' % (u['name'], u['tu'].replace('src/oomd/', ''), ' '.join(u['properties']), fns, len(u['proofs'])))
out += ['', '## Per property (from the last evidence files)', '',
        '| property | level | units | functions under contract | proofs | obligations | discharged | bounded obligations | loop contracts | solver s |', '|---|---|---|---|---|---|---|---|---|---|']
for f in sorted(glob.glob(V + '/evidence/C*.json')):
    e = json.load(open(f)); c = e['coverage']
    us = sorted({p['unit'] for p in c.get('proofs', [])})
    nb = sum(b['obligations'] for b in c.get('bounded_obligations', []))
    out.append('| %s | %s | %s | %d | %d | %d | %d | %d | %s | %.0f |' % (
        e['property_id'], e['level'], ' '.join(us), len(c.get('functions_under_contract', [])), len(c.get('proofs', [])),
        c['obligations'], c['discharged'], nb, c.get('loop_contracts', ''), c.get('solver_secs_total', 0)))
rp = V + '/seeded/RESULTS.json'
if os.path.exists(rp):
    res = json.load(open(rp))
    out += ['', '## Seeded changes and the obligations that report them', '',
            '| seed | title | verdict | first failing obligations |', '|---|---|---|---|']
    for k in sorted(res):
        p, m = k.split('/')
        try:
            meta = json.load(open('%s/seeded/%s/%s/meta.json' % (V, p, m)))
        except OSError:
            meta = {}
        obs = '; '.join('`%s`' % o for o in res[k].get('obligations', [])[:3])
        if res[k].get('undecided'):
            obs += (' ' if obs else '') + '(undecided: %s)' % res[k]['undecided'][0][:90]
        out.append('| %s | %s | %s | %s |' % (k, meta.get('title', '')[:110].replace('|', '/'), res[k]['verdict'], obs))
    n = len(res); c = sum(1 for v in res.values() if v['verdict'] == 'caught')
    out += ['', '%d of %d kept seeds are reported as a violation of their property by a named obligation.' % (c, n)]
open(V + '/DESIGN_TABLES.md', 'w').write('\n'.join(out) + '\n')
print('DESIGN_TABLES.md written')
