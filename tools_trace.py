#!/usr/bin/env python3
"""print a compact counterexample trace for a failed obligation from a *.cbmc.json log"""
import json, sys, re
log, prop = sys.argv[1], sys.argv[2]
txt = open(log).read()
js = json.loads(txt[txt.index('\n')+1:])
for item in js:
    if isinstance(item, dict) and 'result' in item:
        for r in item['result']:
            if r.get('property') == prop or prop in r.get('description',''):
                if r.get('status') == 'SUCCESS': continue
                print('==', r['property'], r['description'])
                last = None
                for st in r.get('trace', []):
                    loc = st.get('sourceLocation', {})
                    f = loc.get('file', '')
                    if st.get('hidden') or 'builtin' in f: continue
                    if st.get('stepType') == 'assignment':
                        lhs = st.get('lhs', '')
                        if lhs.startswith('__') or 'dfcc' in lhs or '__write_set' in lhs or 'car' in lhs and '__' in lhs: continue
                        if '$pad' in lhs or 'return_value' in lhs or lhs.startswith(('o.', 'set', 'ptr', 'size')): continue
                        if len(sys.argv) > 3 and not re.search(sys.argv[3], lhs): continue
                        v = st.get('value', {})
                        val = v.get('data', v.get('name'))
                        if val is None and 'members' in v: continue
                        s = '%s:%s %s  %s = %s' % (f.split('/')[-1], loc.get('line'), loc.get('function',''), lhs, val)
                        if s != last: print(s)
                        last = s
                    elif st.get('stepType') in ('function-call', 'function-return'):
                        fn = st.get('function', {}).get('displayName', '')
                        if fn.startswith('__CPROVER'): continue
                        print('   %s %s' % ('>>' if st['stepType']=='function-call' else '<<', fn))
