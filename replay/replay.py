"""Native replay of a failed obligation against the real code.

A CBMC counterexample of a modular proof is a state of the abstract C (ghost handles, uninterpreted statistics, a loop
iteration that need not be reachable); it cannot be turned into an execution of the C++ mechanically.  What CAN be done
mechanically is this: for the obligation patterns listed in native.json there is a hand-written demonstration program
(defects/*.cpp) that drives the REAL function with the input class the obligation is about.  try_replay builds /repo's
working tree (ninja), builds the demonstration against it and runs it:
  exit 1 + "VIOLATION"   -> status confirmed  (the VIOLATION line of the check then carries no no-failing-input-found)
  anything else          -> status not-reproduced (the suffix stays; the obligation is still reported)
Obligations without a pattern get status no-replay."""
import json, os, re, subprocess, tempfile
HERE = os.path.dirname(os.path.abspath(__file__))


def _sh(cmd, timeout, cwd=None):
    try:
        r = subprocess.run(cmd, shell=True, text=True, stdout=subprocess.PIPE, stderr=subprocess.STDOUT, timeout=timeout, cwd=cwd)
        return r.returncode, r.stdout
    except subprocess.TimeoutExpired as e:
        return 'timeout', (e.stdout or '') if isinstance(e.stdout, str) else ''


def _match(rec, e):
    f = rec['failed_obligation']
    if e.get('unit') and e['unit'] != f.get('unit'):
        return False
    hay = '%s %s %s' % (f.get('obligation', ''), f.get('function', ''), f.get('harness', ''))
    if e.get('function_re') and not re.search(e['function_re'], hay):
        return False
    if e.get('description_re') and not re.search(e['description_re'], f.get('description', '')):
        return False
    return True


_built = {}


def _ensure_lib(repo):
    if repo in _built:
        return _built[repo]
    bdir = os.path.join(repo, '_build')
    if not os.path.isdir(bdir):
        rc, out = _sh('meson setup _build', 600, cwd=repo)
        if rc != 0:
            _built[repo] = 'meson setup failed'
            return _built[repo]
    rc, out = _sh('ninja -C %s liboomd.a liboomd_fixture.a' % bdir, 1800)
    _built[repo] = None if rc == 0 else 'ninja failed: %s' % out[-400:]
    return _built[repo]


def try_replay(rec, repo, verif):
    cfg = json.load(open(os.path.join(HERE, 'native.json')))
    for e in cfg['entries']:
        if not _match(rec, e):
            continue
        err = _ensure_lib(repo)
        if err:
            return {'status': 'no-replay', 'why': err}
        ndir = os.path.join(verif, 'build', 'native')
        os.makedirs(ndir, exist_ok=True)
        tmp = tempfile.mkdtemp(prefix='demo_', dir=ndir)
        exe = os.path.join(tmp, 'demo')
        demo = os.path.join(verif, 'defects', e['demo'])
        fixture = os.path.join(repo, '_build', 'liboomd_fixture.a') if e.get('fixture') else ''
        cmd = (e.get('build') or cfg['build']).format(repo=repo, tmp=tmp, demo=demo, exe=exe, fixture=fixture)
        rc, out = _sh(cmd, 600)
        if rc != 0:
            return {'status': 'no-replay', 'why': 'demo does not build against this tree: %s' % out[-400:], 'demo': e['demo']}
        run = exe
        if e.get('wrap') == 'vmstat_no_pswpout':
            fake = os.path.join(tmp, 'vmstat')
            open(fake, 'w').write(''.join(l for l in open('/proc/vmstat') if not l.startswith('pswp')))
            run = "unshare -m sh -c 'mount --bind %s /proc/vmstat && %s'" % (fake, exe)
        rc, out = _sh(run + (' 2>&1' if e.get('confirm_re') else ' 2>/dev/null'), 120)
        lines = [l for l in out.split('\n') if l.strip()][-6:]
        ok = (rc == 1 and 'VIOLATION' in out) or bool(e.get('confirm_re') and re.search(e['confirm_re'], out))
        return {'status': 'confirmed' if ok else 'not-reproduced', 'demo': 'defects/' + e['demo'], 'command': cmd + ' && ' + run,
                'exit': rc, 'output': lines}
    return {'status': 'no-replay', 'why': 'no native demonstration is registered for this obligation'}


def replay_file(path, repo, verif):
    rec = json.load(open(path))
    f = rec['failed_obligation']
    print('obligation : %s  (%s, harness %s)' % (f.get('obligation'), f.get('unit'), f.get('harness')))
    print('description: %s' % f.get('description'))
    print('contract   : %s:%s %s' % (f.get('file'), f.get('line'), (f.get('line_text') or '')[:200]))
    ins = rec.get('counterexample_inputs') or []
    print('verifier counterexample (%d assignments of the abstract C; first 25):' % len(ins))
    for a in ins[:25]:
        print('   ', a)
    v = try_replay(rec, repo, verif)
    print('native replay against %s: %s' % (repo, json.dumps(v, indent=1)))
    if v.get('status') == 'confirmed':
        print('VIOLATION property=%s replay=%s' % (rec.get('property'), path))
        return 1
    return 0
