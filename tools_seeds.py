#!/usr/bin/env python3
"""Run the registered checks against every kept seeded change and record what catches it.

  python3 tools_seeds.py [Cxx ...]      (default: all)

For each /verif/seeded/<id>/<mut>/patch.diff: git -C /repo apply, ./check <id> (quick), git -C /repo checkout -- .
Writes seeded/RESULTS.json and prints a table.  /repo must be clean before and is clean afterwards."""
import json, os, re, subprocess, sys
os.environ['VERIF_EVIDENCE_DIR'] = os.path.join(os.path.dirname(os.path.abspath(__file__)), 'build', 'evidence_scratch')   # never overwrite committed evidence with runs on a patched tree
V = os.path.dirname(os.path.abspath(__file__))
claimed = {c['property_id'] for c in json.load(open(V + '/MANIFEST.json'))['checks']}


def sh(cmd, **kw):
    return subprocess.run(cmd, shell=True, text=True, stdout=subprocess.PIPE, stderr=subprocess.STDOUT, **kw)


def main():
    want = sys.argv[1:]
    if sh('git -C /repo status --porcelain --untracked-files=no').stdout.strip():
        sys.exit('/repo is not clean')
    res_path = V + '/seeded/RESULTS.json'
    res = json.load(open(res_path)) if os.path.exists(res_path) else {}
    for p in sorted(os.listdir(V + '/seeded')):
        if not re.fullmatch(r'C\d\d', p) or (want and p not in want):
            continue
        for m in sorted(os.listdir(V + '/seeded/' + p)):
            d = '%s/seeded/%s/%s' % (V, p, m)
            if os.environ.get('SEED_ONLY') and m != os.environ['SEED_ONLY']:
                continue
            key = '%s/%s' % (p, m)
            if p not in claimed:
                res[key] = {'verdict': 'not checked: property not claimed', 'obligations': []}
                continue
            r = sh('git -C /repo apply %s/patch.diff' % d)
            if r.returncode != 0:
                res[key] = {'verdict': 'patch does not apply', 'obligations': []}
                continue
            try:
                out = sh('./check %s' % p, cwd=V)
            finally:
                sh('git -C /repo checkout -- .')
            obs = sorted(set(re.findall(r'failed obligation \(([^)]*)\): (\S+)', out.stdout)))
            undec = re.findall(r'UNDECIDED: (.*)', out.stdout)
            verdict = 'caught' if out.returncode == 1 and 'VIOLATION property=%s' % p in out.stdout else (
                'undecided' if out.returncode == 2 else 'missed')
            res[key] = {'verdict': verdict, 'exit': out.returncode, 'obligations': ['%s: %s' % o for o in obs][:12],
                        'undecided': [u[:160] for u in undec][:4], 'summary': out.stdout.strip().split('\n')[-1]}
            print('%-10s %-9s %s' % (key, verdict, '; '.join(o[1] for o in obs[:3])), flush=True)
            json.dump(res, open(res_path, 'w'), indent=1, sort_keys=True)
    json.dump(res, open(res_path, 'w'), indent=1, sort_keys=True)


if __name__ == '__main__':
    main()
