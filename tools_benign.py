#!/usr/bin/env python3
"""False-alarm test: apply each behaviour-preserving refactoring in /verif/benign/ to /repo, run the checks of the
properties whose units extract the touched file, undo.  A VIOLATION (exit 1) on such a patch is a false alarm;
exit 2 (UNDECIDED: e.g. a renamed local that a loop contract names) is tolerated but listed."""
import glob, json, os, re, subprocess, sys
os.environ['VERIF_EVIDENCE_DIR'] = os.path.join(os.path.dirname(os.path.abspath(__file__)), 'build', 'evidence_scratch')   # never overwrite committed evidence with runs on a patched tree
V = os.path.dirname(os.path.abspath(__file__))


def sh(c, **k):
    return subprocess.run(c, shell=True, text=True, stdout=subprocess.PIPE, stderr=subprocess.STDOUT, **k)


units = [json.load(open(f)) for f in glob.glob(V + '/contracts/*.json')]
claimed = {c['property_id'] for c in json.load(open(V + '/MANIFEST.json'))['checks']}
if sh('git -C /repo status --porcelain --untracked-files=no').stdout.strip():
    sys.exit('/repo is not clean')
res = {}
for d in sorted(glob.glob(V + '/benign/benign_*.diff')):
    files = re.findall(r'^\+\+\+ b/(\S+)', open(d).read(), re.M)
    props = set()
    for u in units:
        tu = u['tu']
        for f in files:
            # a header (-inl.h, .h) is seen through every TU of the same stem
            stem = os.path.basename(f).replace('-inl.h', '').replace('.h', '').replace('.cpp', '')
            if f == tu or os.path.basename(tu).startswith(stem + '.'):
                props |= set(u['properties'])
    props = sorted(props & claimed)
    if sh('git -C /repo apply %s' % d).returncode != 0:
        res[os.path.basename(d)] = {'verdict': 'patch does not apply'}
        continue
    out = {}
    try:
        for p in props:
            r = sh('./check %s' % p, cwd=V)
            out[p] = {'exit': r.returncode, 'last': r.stdout.strip().split('\n')[-1],
                      'failed': sorted(set(re.findall(r'failed obligation \(([^)]*)\): (\S+)', r.stdout)))[:4],
                      'undecided': re.findall(r'UNDECIDED: (.*)', r.stdout)[:2]}
    finally:
        sh('git -C /repo checkout -- .')
    worst = max([o['exit'] for o in out.values()] or [0])
    res[os.path.basename(d)] = {'files': files, 'properties': props, 'verdict': {0: 'quiet', 1: 'FALSE ALARM', 2: 'undecided'}[worst], 'runs': out}
    print('%-16s %-12s %s' % (os.path.basename(d), res[os.path.basename(d)]['verdict'],
                              '; '.join('%s:%s' % (p, o['exit']) for p, o in out.items())), flush=True)
    json.dump(res, open(V + '/benign/RESULTS.json', 'w'), indent=1, sort_keys=True)
