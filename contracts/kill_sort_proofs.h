/* The sortDescWithKillPrefs instantiation of this TU: comparator contract, std::sort model, function contract,
 * harnesses.  Included after kill_sort.h by each plugin unit. */
/* the comparator handed to std::sort */
_Bool OomdContext__sortDescWithKillPrefs__lambda_sort(lambda_t get_key, CgroupContext a, CgroupContext b)
  __CPROVER_requires(KEY_OK(KEYF(get_key, a)) && KEY_OK(KEYF(get_key, b)) && ghost_exc == 0)
  __CPROVER_assigns()
  __CPROVER_ensures(__CPROVER_return_value == 0 || __CPROVER_return_value == 1)
  __CPROVER_ensures((__CPROVER_return_value != 0) == BETTER(get_key, a, b)) /*@C09*/
  __CPROVER_ensures(ghost_exc == 0);
void ghost_sort(vecit_CgroupContext b, vecit_CgroupContext e, lambda_t get_key)
{
  __CPROVER_assert(g_copied && b.vid == g_copy_vid && e.vid == g_copy_vid && b.i == 0 && e.i == e.n, "the whole private copy is sorted");
  uint64_t n = e.n;
  g_sorted = 1;
  if (n > 0) {
    __CPROVER_assume(g_s0 < n && __CPROVER_uninterpreted_elem_sorted(0) == ELEM(g_copy_src, g_s0));
    if (g_w < n) {
      __CPROVER_assume(g_pw < n && __CPROVER_uninterpreted_elem_sorted(g_pw) == ELEM(g_copy_src, g_w));
      if (g_pw != 0)
        __CPROVER_assume(!OomdContext__sortDescWithKillPrefs__lambda_sort(get_key, __CPROVER_uninterpreted_elem_sorted(g_pw), __CPROVER_uninterpreted_elem_sorted(0)));
    }
  }
}
/* the comparator closure handed to std::sort carries its capture (the key functor): units use lambda_bind */
#define lambda_bind__OomdContext__sortDescWithKillPrefs__lambda_sort(k) (k)
#define ext__sort__vecit_CgroupContext_vecit_CgroupContext_lambda_t(b, e, cmp) ghost_sort(b, e, cmp)
vec_CgroupContext OomdContext__sortDescWithKillPrefs(vec_CgroupContext cgroups, lambda_t get_key) SORT_CONTRACT(get_key);

void h_cmp(void) { lambda_t k; CgroupContext a, b; HAVOC_SORT(); OomdContext__sortDescWithKillPrefs__lambda_sort(k, a, b); CANARY; }
void h_sort(void) { lambda_t k; vec_CgroupContext v; HAVOC_SORT(); OomdContext__sortDescWithKillPrefs(v, k); CANARY; }
