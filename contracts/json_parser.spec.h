/* JsonConfigParser helpers (C12: a configuration is either rejected or honoured EXACTLY - "plugins are instantiated ...
 * with precisely the given arguments"; C04: a `dry` flag that is given must not get lost on the way).
 *   parsePlugin<T>: {"name": <string>, "args": {k: scalar, ...}}  ->  Plugin{name, args} carrying EVERY member of args
 *       (string / number / bool, as text).  Anything else must come out as a plugin the compiler rejects
 *       (empty name -> "Plugin is missing name"), never as a plugin with some of its arguments silently dropped.
 *   parseDetectorGroup: [<name string>, plugin, plugin, ...]: only a LEADING string is the name; every other entry is a
 *       detector (a stray string is an unnamed plugin, which the compiler rejects).
 * Json::Value is a handle; its type predicates and children are uninterpreted functions of it. */
#include "common.h"
_Bool nondet_bool(void);
json_t g_keys_of; uint64_t g_wk; _Bool g_w_stored; str_t g_w_stored_val; uint64_t g_cur_key_i; uint64_t g_stores;
json_t g_plugin; _Bool g_has_bad; uint64_t g_bad_i;     /* prophecy: if some argument value is not a scalar, g_bad_i is the FIRST such member index */
/* constants of the document, computed by the harness (loop invariants may not call uninterpreted functions) */
json_t g_args; uint64_t g_nargs; str_t g_name_text, g_w_text; uint64_t g_gsize; _Bool g_named; str_t g_gname_text;
json_t g_group; uint64_t g_dets; uint64_t g_wd; _Bool g_wd_parsed; json_t g_last_parsed; uint64_t g_cur_elem; _Bool g_index_mode;
_Bool __CPROVER_uninterpreted_jis_object(json_t); _Bool __CPROVER_uninterpreted_jis_array(json_t); _Bool __CPROVER_uninterpreted_jis_string(json_t);
_Bool __CPROVER_uninterpreted_jis_numeric(json_t); _Bool __CPROVER_uninterpreted_jis_bool(json_t);
json_t __CPROVER_uninterpreted_jchild(json_t, str_t); json_t __CPROVER_uninterpreted_jelem(json_t, uint32_t);
str_t __CPROVER_uninterpreted_jtext(json_t); uint64_t __CPROVER_uninterpreted_jsize(json_t); str_t __CPROVER_uninterpreted_jkey(json_t, uint64_t);
#define JCHILD(v, k) __CPROVER_uninterpreted_jchild((v), (k))
#define JELEM(v, i) __CPROVER_uninterpreted_jelem((v), (i))
#define JTEXT(v) __CPROVER_uninterpreted_jtext(v)
#define JSIZE(v) __CPROVER_uninterpreted_jsize(v)
#define JKEY(v, i) __CPROVER_uninterpreted_jkey((v), (i))
#define JSCALAR(v) (__CPROVER_uninterpreted_jis_string(v) || __CPROVER_uninterpreted_jis_numeric(v) || __CPROVER_uninterpreted_jis_bool(v))
_Bool json_t__isObject(json_t v) { return __CPROVER_uninterpreted_jis_object(v); }
_Bool json_t__isArray(json_t v) { return __CPROVER_uninterpreted_jis_array(v); }
_Bool json_t__isString(json_t v) { return __CPROVER_uninterpreted_jis_string(v); }
_Bool json_t__isNumeric(json_t v) { return __CPROVER_uninterpreted_jis_numeric(v); }
_Bool json_t__isBool(json_t v) { return __CPROVER_uninterpreted_jis_bool(v); }
str_t json_t__asString(json_t v) { __CPROVER_assert(JSCALAR(v), "asString() of a value that is not convertible throws Json::LogicError"); return JTEXT(v); }
json_t g_jslot;
/* operator[]: by member name in parsePlugin, by array index in parseDetectorGroup (one C name for both: the harness says which) */
json_t *json_t__at_ref(json_t v, int k) { if (g_index_mode) { g_cur_elem = (uint32_t)k; g_jslot = JELEM(v, (uint32_t)k); } else g_jslot = JCHILD(v, (str_t)k); return &g_jslot; }
/* iteration over an array value (not used at the pinned commit): position i denotes element i */
jsonit_t json_t__begin(json_t v) { jsonit_t it; it.doc = v; it.i = 0; it.n = JSIZE(v); __CPROVER_assume(it.n <= VEC_MAX); return it; }
jsonit_t json_t__end(json_t v) { jsonit_t it; it.doc = v; it.n = JSIZE(v); __CPROVER_assume(it.n <= VEC_MAX); it.i = it.n; return it; }
_Bool jsonit_t__op_ne(jsonit_t a, jsonit_t b) { return a.i != b.i; }
_Bool jsonit_t__op_eq(jsonit_t a, jsonit_t b) { return a.i == b.i; }
jsonit_t jsonit_t__op_inc(jsonit_t *a) { __CPROVER_assert(a->i < a->n, "UB: increment of end()"); a->i = a->i + 1; return *a; }
json_t jsonit_t__op_deref(jsonit_t a) { __CPROVER_assert(a.i < a.n, "UB: dereference of end()"); g_cur_elem = a.i; return JELEM(a.doc, (uint32_t)a.i); }
uint32_t json_t__size(json_t v) { uint64_t n = JSIZE(v); __CPROVER_assume(n <= VEC_MAX); return (uint32_t)n; }
#define KEYS_VID 77
vec_str_t json_t__getMemberNames(json_t v) { vec_str_t r; r.vid = KEYS_VID; r.n = JSIZE(v); __CPROVER_assume(r.n <= VEC_MAX); g_keys_of = v; return r; }
str_t vec_str_t__elem(uint64_t vid, uint64_t i)
{ g_cur_key_i = i; str_t k = JKEY(g_keys_of, i);
  if (!g_has_bad || i < g_bad_i) __CPROVER_assume(JSCALAR(JCHILD(g_keys_of, k)));     /* prophecy instantiated where the code looks: members before the first bad one are scalars */
  return k; }
str_t g_store_slot;
str_t *umap_str_t_str_t__at_ref(umap_str_t_str_t m, str_t k)
{ g_stores = g_stores + 1; __CPROVER_assert(k == JKEY(g_keys_of, g_cur_key_i), "an argument is stored under its own member name");
  if (g_cur_key_i == g_wk) { g_w_stored = 1; return &g_w_stored_val; } return &g_store_slot; }

/* ---- parsePlugin ---- */
#define PP_ARGS JCHILD(g_plugin, STR_args)
#define PP_WELLFORMED (__CPROVER_uninterpreted_jis_object(g_plugin) && __CPROVER_uninterpreted_jis_string(JCHILD(g_plugin, STR_name)))
#define PP_ALL_SCALAR_UP_TO(n) (!g_has_bad || g_bad_i >= (n))
Config2_IR_Detector parsePlugin__Detector(json_t plugin)
  __CPROVER_requires(plugin == g_plugin && ghost_exc == 0 && g_stores == 0 && !g_w_stored && JSIZE(PP_ARGS) <= VEC_MAX)
  __CPROVER_requires(g_args == PP_ARGS && g_nargs == JSIZE(PP_ARGS) && g_name_text == JTEXT(JCHILD(g_plugin, STR_name)) && g_w_text == JTEXT(JCHILD(PP_ARGS, JKEY(PP_ARGS, g_wk))))
  /* prophecy well-formedness: g_bad_i is the FIRST argument whose value is not a scalar, if there is one */
  __CPROVER_requires(!g_has_bad || (g_bad_i < JSIZE(PP_ARGS) && !JSCALAR(JCHILD(PP_ARGS, JKEY(PP_ARGS, g_bad_i)))))
  __CPROVER_assigns(g_jslot, g_keys_of, g_cur_key_i, g_w_stored, g_w_stored_val, g_stores, g_store_slot)
  /* not a plugin object: unusable (empty name) */
  __CPROVER_ensures(!PP_WELLFORMED ? __CPROVER_return_value.name == STR_EMPTY : 1)
  /* a plugin object whose args are all scalars (or that has no args object): named, and EVERY argument carried over as text */ /*@C12,C04*/
  __CPROVER_ensures((PP_WELLFORMED && !(__CPROVER_uninterpreted_jis_object(PP_ARGS) && g_has_bad))
      ? (__CPROVER_return_value.name == JTEXT(JCHILD(g_plugin, STR_name)) &&
         ((__CPROVER_uninterpreted_jis_object(PP_ARGS) && g_wk < JSIZE(PP_ARGS)) ? (g_w_stored && g_w_stored_val == JTEXT(JCHILD(PP_ARGS, JKEY(PP_ARGS, g_wk)))) : !g_w_stored))
      : 1)
  /* an argument value that is an array / object / null: the plugin must NOT come out usable with that argument (and the ones
     after it) silently dropped - it comes out unusable, so that the compiler rejects the configuration */ /*@C12,C04*/
  __CPROVER_ensures((PP_WELLFORMED && __CPROVER_uninterpreted_jis_object(PP_ARGS) && g_has_bad) ? __CPROVER_return_value.name == STR_EMPTY : 1)
  __CPROVER_ensures(ghost_exc == 0);
#define LOOPC_parsePlugin__Detector_1 \
  __CPROVER_assigns(__begin2, g_jslot, g_cur_key_i, g_w_stored, g_w_stored_val, g_stores, g_store_slot, ret) \
  __CPROVER_loop_invariant(__begin2.i <= __begin2.n && __end2.i == __begin2.n && __begin2.vid == KEYS_VID && __begin2.n == g_nargs && g_keys_of == g_args) \
  __CPROVER_loop_invariant(PP_ALL_SCALAR_UP_TO(__begin2.i) && ret.name == g_name_text) \
  __CPROVER_loop_invariant((__begin2.i > g_wk) ? (g_w_stored && g_w_stored_val == g_w_text) : !g_w_stored) \
  __CPROVER_decreases(__begin2.n - __begin2.i)

/* ---- parseDetectorGroup ---- */
Config2_IR_Detector ext__parsePlugin(json_t v) { Config2_IR_Detector d; d.name = __CPROVER_uninterpreted_jtext(v); g_last_parsed = v; return d; }
void vec_Config2_IR_Detector__emplace_back(vec_Config2_IR_Detector *v, Config2_IR_Detector d)
{ __CPROVER_assert(g_last_parsed == JELEM(g_group, (uint32_t)g_cur_elem), "the detector appended is the parse of the entry being visited");
  if (g_cur_elem == g_wd) { g_wd_parsed = 1; } g_dets = g_dets + 1; __CPROVER_assume(v->n < VEC_MAX); v->n = v->n + 1; }
#define DG_NAMED (JSIZE(g_group) > 0 && __CPROVER_uninterpreted_jis_string(JELEM(g_group, 0)))
Config2_IR_DetectorGroup parseDetectorGroup(json_t detector_group)
  __CPROVER_requires(detector_group == g_group && ghost_exc == 0 && g_dets == 0 && !g_wd_parsed && JSIZE(g_group) <= VEC_MAX)
  __CPROVER_requires(g_gsize == JSIZE(g_group) && (g_named != 0) == (DG_NAMED != 0) && g_gname_text == JTEXT(JELEM(g_group, 0)))
  __CPROVER_assigns(g_jslot, g_dets, g_wd_parsed, g_last_parsed, g_cur_elem)
  __CPROVER_ensures(!__CPROVER_uninterpreted_jis_array(g_group) ? (__CPROVER_return_value.name == STR_EMPTY && __CPROVER_return_value.detectors.n == 0) : 1)
  /* only a LEADING string names the group; every other entry - whatever its JSON type - is parsed as a detector */ /*@C12*/
  __CPROVER_ensures(__CPROVER_uninterpreted_jis_array(g_group)
      ? (__CPROVER_return_value.name == (DG_NAMED ? JTEXT(JELEM(g_group, 0)) : STR_EMPTY) &&
         __CPROVER_return_value.detectors.n == JSIZE(g_group) - (DG_NAMED ? 1 : 0) &&
         ((g_wd < JSIZE(g_group) && !(g_wd == 0 && DG_NAMED)) ? g_wd_parsed : !g_wd_parsed))
      : 1)
  __CPROVER_ensures(ghost_exc == 0);
#define LOOPC_parseDetectorGroup_1 \
  __CPROVER_assigns(i, g_jslot, g_dets, g_wd_parsed, g_last_parsed, g_cur_elem, ir_detectorgroup) \
  __CPROVER_loop_invariant(i <= g_gsize && g_gsize <= VEC_MAX) \
  __CPROVER_loop_invariant(ir_detectorgroup.detectors.n == g_dets && g_dets == i - ((i > 0 && g_named) ? 1 : 0)) \
  __CPROVER_loop_invariant(ir_detectorgroup.name == ((i > 0 && g_named) ? g_gname_text : STR_EMPTY)) \
  __CPROVER_loop_invariant((i > g_wd && !(g_wd == 0 && g_named)) ? g_wd_parsed : !g_wd_parsed) \
  __CPROVER_decreases(g_gsize - i)

#define CANARY __CPROVER_assert(0, "canary: contract precondition satisfiable and function exit reachable")
void h_parsePlugin(void) { g_index_mode = 0; HAVOC(g_plugin); HAVOC(g_wk); HAVOC(g_has_bad); HAVOC(g_bad_i); HAVOC(ghost_exc); g_stores = 0; g_w_stored = 0;
  g_args = PP_ARGS; g_nargs = JSIZE(PP_ARGS); g_name_text = JTEXT(JCHILD(g_plugin, STR_name)); g_w_text = JTEXT(JCHILD(PP_ARGS, JKEY(PP_ARGS, g_wk))); parsePlugin__Detector(g_plugin); CANARY; }
void h_parseDetectorGroup(void) { g_index_mode = 1; HAVOC(g_group); HAVOC(g_wd); HAVOC(ghost_exc); g_dets = 0; g_wd_parsed = 0;
  g_gsize = JSIZE(g_group); g_named = DG_NAMED; g_gname_text = JTEXT(JELEM(g_group, 0)); parseDetectorGroup(g_group); CANARY; }
