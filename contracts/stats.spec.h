/* Contracts for the stats service (C19) — sequential and monitor obligations only:
 *   increment / set / reset / getAll touch the counter map only while stats_mutex_ is held, in ONE critical
 *   section each; the effect on an arbitrary watched key K is the sequential one (no lost update, reset
 *   zeroes but keeps the key);
 *   processMsg: for every byte string a client may send (or none) at most one reply, built from the first
 *   byte only (g / r / 0 -> error 0, anything else -> error 1), the fd is closed exactly once and the
 *   handler count is decremented on EVERY path (the destructor waits for it).
 * Interleavings are not explored: atomicity rests on mutex correctness (trusted). */
#include "common.h"
_Bool nondet_bool(void); int nondet_int(void); str_t nondet_str(void);
_Bool g_held_stats, g_held_thread; uint64_t g_stats_locks, g_thread_locks;
Stats *g_self;
_Bool g_snapshot;   /* iterating a private copy returned by getAll() */
void mutex_lock(mutex_t m)
{
  if (m == g_self->stats_mutex_) { __CPROVER_assert(!g_held_stats, "stats_mutex_ is not re-acquired while held (self-deadlock)"); g_held_stats = 1; g_stats_locks = g_stats_locks + 1; }
  else { __CPROVER_assert(m == g_self->thread_mutex_ && !g_held_thread, "only the two stats mutexes are used"); g_held_thread = 1; g_thread_locks = g_thread_locks + 1; }
}
void mutex_unlock(mutex_t m)
{
  if (m == g_self->stats_mutex_) { __CPROVER_assert(g_held_stats, "unlock of a held mutex"); g_held_stats = 0; }
  else { __CPROVER_assert(g_held_thread, "unlock of a held mutex"); g_held_thread = 0; }
}
/* the counter map seen through one arbitrary key K */
str_t g_K; _Bool g_k_in; int g_k_val; int g_other_slot; uint64_t g_map_n, g_kpos;
int *umap_str_t_int__at_ref(umap_str_t_int m, str_t k)
{
  __CPROVER_assert(g_held_stats, "the counter map is only accessed while stats_mutex_ is held"); /*@C19*/
  if (k == g_K) { if (!g_k_in) { g_k_in = 1; g_k_val = 0; g_kpos = g_map_n; g_map_n = g_map_n + 1; } return &g_k_val; }
  g_other_slot = nondet_int();
  __CPROVER_assume(g_other_slot >= -(1 << 29) && g_other_slot <= (1 << 29));   /* counters stay far from INT_MAX (ASSUMED) */
  return &g_other_slot;
}
mapit_pair_str_t_int umap_str_t_int__begin(umap_str_t_int m)
{ __CPROVER_assert(g_held_stats || g_snapshot, "the counter map is only accessed while stats_mutex_ is held"); mapit_pair_str_t_int it; it.map = m; it.pos = 0; it.n = g_map_n; it.valid = 1; return it; }
mapit_pair_str_t_int umap_str_t_int__end(umap_str_t_int m)
{ mapit_pair_str_t_int it; it.map = m; it.pos = g_map_n; it.n = g_map_n; it.valid = 1; return it; }
pair_str_t_int mapit_pair_str_t_int__elem(hnd_t m, uint64_t pos)
{
  pair_str_t_int p;
  if (g_k_in && pos == g_kpos) { p.first = g_K; p.second = g_k_val; }
  else { p.first = nondet_str(); __CPROVER_assume(p.first != g_K); p.second = nondet_int(); }
  return p;
}
#define MAP_WF (g_map_n <= VEC_MAX && (!g_k_in || g_kpos < g_map_n))
#define LOCKS_WF (!g_held_stats && !g_held_thread)

int Stats__increment(Stats *self, str_t key, int val)
  __CPROVER_requires(__CPROVER_is_fresh(self, sizeof(*self)) && self == g_self && self->stats_mutex_ != self->thread_mutex_ && LOCKS_WF && MAP_WF && ghost_exc == 0)
  __CPROVER_requires(val >= -(1 << 29) && val <= (1 << 29) && (!g_k_in || (g_k_val >= -(1 << 29) && g_k_val <= (1 << 29))))     /* int counters do not overflow (ASSUMED) */
  __CPROVER_assigns(g_held_stats, g_stats_locks, g_k_in, g_k_val, g_kpos, g_map_n, g_other_slot)
  __CPROVER_ensures(key == g_K ? (g_k_in && g_k_val == (__CPROVER_old(g_k_in) ? __CPROVER_old(g_k_val) : 0) + val)
                               : ((g_k_in != 0) == (__CPROVER_old(g_k_in) != 0) && g_k_val == __CPROVER_old(g_k_val))) /*@C19*/
  __CPROVER_ensures(g_stats_locks == __CPROVER_old(g_stats_locks) + 1 && LOCKS_WF && __CPROVER_return_value == 0 && ghost_exc == 0);
int Stats__set(Stats *self, str_t key, int val)
  __CPROVER_requires(__CPROVER_is_fresh(self, sizeof(*self)) && self == g_self && self->stats_mutex_ != self->thread_mutex_ && LOCKS_WF && MAP_WF && ghost_exc == 0)
  __CPROVER_assigns(g_held_stats, g_stats_locks, g_k_in, g_k_val, g_kpos, g_map_n, g_other_slot)
  __CPROVER_ensures(key == g_K ? (g_k_in && g_k_val == val) : ((g_k_in != 0) == (__CPROVER_old(g_k_in) != 0) && g_k_val == __CPROVER_old(g_k_val)))
  __CPROVER_ensures(g_stats_locks == __CPROVER_old(g_stats_locks) + 1 && LOCKS_WF && __CPROVER_return_value == 0 && ghost_exc == 0);
/* reset: every key zeroed and kept, inside ONE critical section (a reader never sees a half-reset map) */
#define CONTRACT_reset \
  __CPROVER_requires(self == g_self && self->stats_mutex_ != self->thread_mutex_ && !g_held_stats && MAP_WF && ghost_exc == 0) \
  __CPROVER_assigns(g_held_stats, g_stats_locks, g_k_in, g_k_val, g_kpos, g_map_n, g_other_slot) \
  __CPROVER_ensures((g_k_in != 0) == (__CPROVER_old(g_k_in) != 0) && (g_k_in ? g_k_val == 0 : 1) && g_map_n == __CPROVER_old(g_map_n)) /*@C19*/ \
  __CPROVER_ensures(g_stats_locks == __CPROVER_old(g_stats_locks) + 1 && !g_held_stats && __CPROVER_return_value == 0 && ghost_exc == 0)
int Stats__reset(Stats *self) __CPROVER_requires(__CPROVER_is_fresh(self, sizeof(*self)) && !g_held_thread) CONTRACT_reset;
#define LOOPC_Stats__reset_1 \
  __CPROVER_assigns(__begin1, g_k_val, g_other_slot) \
  __CPROVER_loop_invariant(__begin1.valid && __begin1.pos <= __begin1.n && __begin1.n == g_map_n && __end1.pos == g_map_n && g_held_stats && MAP_WF) \
  __CPROVER_loop_invariant((g_k_in && __begin1.pos > g_kpos) ? g_k_val == 0 : 1) \
  __CPROVER_decreases(__begin1.n - __begin1.pos)
#define CONTRACT_getAll \
  __CPROVER_requires(self == g_self && self->stats_mutex_ != self->thread_mutex_ && !g_held_stats && ghost_exc == 0) \
  __CPROVER_assigns(g_held_stats, g_stats_locks) \
  __CPROVER_ensures(g_stats_locks == __CPROVER_old(g_stats_locks) + 1 && !g_held_stats && ghost_exc == 0)
umap_str_t_int Stats__getAll(Stats *self) __CPROVER_requires(__CPROVER_is_fresh(self, sizeof(*self))) CONTRACT_getAll;

/* ---- processMsg ---- */
uint64_t g_reads, g_replies, g_closes; char g_byte0; _Bool g_byte0_valid;   /* first byte received, and whether it is a request byte (not a terminator) */ int g_json_error; _Bool g_reset_called, g_getall_called; int g_thread_count_entry;
#define int__objectValue 7
json_t g_json_slot_error, g_json_slot_body, g_json_slot_other;
static inline json_t json_t__from__int(int v) { return (json_t)v; }
json_t *json_t__at_ref(json_t j, str_t key)
{ if (j == (json_t)1001 && key == STR_error) return &g_json_slot_error; if (j == (json_t)1001 && key == STR_body) return &g_json_slot_body; return &g_json_slot_other; }
#define ROOT_JSON ((json_t)1001)
json_t json_t__ctor0(void) { return ROOT_JSON; }      /* the reply object */
str_t json_t__toStyledString(json_t j) { return nondet_str(); }
str_t str_t__c_str(str_t s) { return s; }
uint64_t ext__strlen(str_t s) { return 1; }
/* ghost wall clock: every blocking call on the client socket may take up to the 2 s SO_RCVTIMEO / SO_SNDTIMEO that
 * runSocket() sets on it (ASSUMED: the reply is written within one send-timeout window) */
tp_t g_now; uint64_t nondet_u64(void);
static inline void io_may_block(void)
{ uint64_t d = nondet_u64(); __CPROVER_assume(d <= 2000000000UL);
  uint64_t ns = (uint64_t)g_now.nsec + d;                    /* < 3e9 */
  if (ns >= 2000000000UL) { g_now.sec = g_now.sec + 2; ns = ns - 2000000000UL; } else if (ns >= 1000000000UL) { g_now.sec = g_now.sec + 1; ns = ns - 1000000000UL; }
  g_now.nsec = (int32_t)ns; }
tp_t ext__now(void) { return g_now; }
int64_t ext__read(int fd, void *buf, uint64_t n)
{
  io_may_block();
  int r = nondet_int(); __CPROVER_assume(r >= -1 && r <= 1);
  if (r == 1) { int ci = nondet_int(); __CPROVER_assume(ci >= -128 && ci <= 127); char c = (char)ci; *(char *)buf = c;
    if (g_reads == 0) { g_byte0 = c; g_byte0_valid = (c != '\n' && c != '\0'); } }
  g_reads = g_reads + 1;
  return r;
}
int ext__close(int fd) { g_closes = g_closes + 1; return nondet_bool() ? 0 : -1; }
int64_t Util__writeFull(int fd, str_t buf, uint64_t n) { io_may_block(); g_replies = g_replies + 1; return nondet_bool() ? (int64_t)n : -1; }
void condvar_t__notify_one(condvar_t c) { }
uint64_t g_first_read_result_ok;   /* the first read() delivered a byte that is not a terminator */
void Stats__processMsg(Stats *self, int sockfd)
  __CPROVER_requires(__CPROVER_is_fresh(self, sizeof(*self)) && self == g_self && self->stats_mutex_ != self->thread_mutex_ && LOCKS_WF && MAP_WF && ghost_exc == 0)
  __CPROVER_requires(TP_VALID(g_now) && g_reads == 0 && g_replies == 0 && g_closes == 0 && self->thread_count_ >= 1 && self->thread_count_ <= 1000000 && !g_byte0_valid)
  __CPROVER_assigns(self->thread_count_, g_held_stats, g_held_thread, g_stats_locks, g_thread_locks, g_k_in, g_k_val, g_kpos, g_map_n, g_other_slot, g_reads, g_replies,
                    g_closes, g_byte0, g_byte0_valid, g_json_slot_error, g_json_slot_body, g_json_slot_other, g_now)
  /* the connection is always closed exactly once, at most one reply is written, and the handler is always accounted for */ /*@C19*/
  __CPROVER_ensures(g_closes == 1 && g_replies <= 1 && self->thread_count_ == __CPROVER_old(self->thread_count_) - 1)
  __CPROVER_ensures(LOCKS_WF && ghost_exc == 0)
  /* whatever the client sends and however slowly, the handler is gone before the 5 s that ~Stats is prepared to wait (else it aborts the daemon) */
  __CPROVER_ensures(g_now.sec - __CPROVER_old(g_now.sec) <= 4) /*@C19*/
  /* the reply's error field depends on the FIRST byte only: g / r / 0 -> 0, anything else (or nothing) -> 1 */ /*@C19*/
#define EXPECTED_ERR ((g_byte0_valid && (g_byte0 == 'g' || g_byte0 == 'r' || g_byte0 == '0')) ? 0 : 1)
  __CPROVER_ensures(g_replies == 1 ? (g_json_slot_error == (json_t)EXPECTED_ERR) : 1);
#define LOOPC_Stats__processMsg_1 \
  __CPROVER_assigns(num_read, mode, byte_buf, g_reads, g_byte0, g_byte0_valid, g_now) \
  __CPROVER_loop_invariant(0 <= num_read && num_read <= 32 && g_reads == (uint64_t)num_read && g_closes == 0 && g_replies == 0) \
  __CPROVER_loop_invariant(num_read >= 1 ? (mode == g_byte0 && g_byte0_valid) : (mode == 'a' && !g_byte0_valid)) \
  __CPROVER_loop_invariant(g_now.nsec >= 0 && g_now.nsec < 1000000000 && g_now.sec >= 0 && g_now.sec <= deadline.sec + 2) \
  __CPROVER_decreases(32 - num_read)
#define LOOPC_Stats__processMsg_2 \
  __CPROVER_assigns(__begin2, g_json_slot_other) \
  __CPROVER_loop_invariant(__begin2.valid && __begin2.pos <= __begin2.n && __begin2.n == g_map_n && __end2.pos == g_map_n) \
  __CPROVER_decreases(__begin2.n - __begin2.pos)
#define CANARY __CPROVER_assert(0, "canary: contract precondition satisfiable and function exit reachable")
#define HAVOC_ST() do { HAVOC(g_held_stats); HAVOC(g_held_thread); HAVOC(g_stats_locks); HAVOC(g_K); HAVOC(g_k_in); HAVOC(g_k_val); HAVOC(g_map_n); HAVOC(g_kpos); \
  HAVOC(g_reads); HAVOC(g_replies); HAVOC(g_closes); HAVOC(g_now); HAVOC(ghost_exc); } while (0)
/* ---- startSocket: an unusable or over-long socket path is an initialisation failure, never memory corruption ---- */
uint64_t __CPROVER_uninterpreted_strlen(str_t);
uint64_t str_t__size(str_t s) { return __CPROVER_uninterpreted_strlen(s); }
#define SIZEOF__sockaddr_un_t ((uint64_t)110)
#define int__SOCK_STREAM 1
_Bool g_sock_ok, g_bound, g_listening, g_thread_started, g_path_copied, g_sys_fail, g_unlink_enoent;
int ext__socket(int d, int t, int p) { if (nondet_bool()) { g_sock_ok = 1; int fd = nondet_int(); __CPROVER_assume(fd >= 0); return fd; } g_sys_fail = 1; return -1; }
void ext__memset(void *p, int c, uint64_t n) { }
#define str_t__c_str(s) (s)
/* strcpy(dst, src): dst is serv_addr_.sun_path, SUN_PATH_SIZE bytes (libc contract: the copy incl. terminator must fit) */
void ext__strcpy(str_t dst, str_t src) { __CPROVER_assert(__CPROVER_uninterpreted_strlen(src) < SUN_PATH_SIZE, "UB: strcpy overflows sockaddr_un.sun_path (path of SUN_PATH_SIZE bytes or more)"); /*@C19*/ g_path_copied = 1; }
/* unlink: success, ENOENT (nothing to remove: fine), or another error */
int ext__unlink(str_t p) { if (nondet_bool()) return 0; if (nondet_bool()) { ghost_errno = 2; return -1; } ghost_errno = 13; g_sys_fail = 1; return -1; }
int ext__bind(int fd, sockaddr_t *a, uint32_t len) { if (nondet_bool()) { g_bound = 1; return 0; } g_sys_fail = 1; return -1; }
int ext__chmod(str_t p, uint32_t m) { if (nondet_bool()) return 0; g_sys_fail = 1; return -1; }
int ext__listen(int fd, int n) { if (nondet_bool()) { g_listening = 1; return 0; } g_sys_fail = 1; return -1; }
void Stats__runSocket(Stats *self);
thread_t thread_t__from__lambda_t(void (*f)(Stats *)) { g_thread_started = 1; return (thread_t)1; }
_Bool Stats__startSocket(Stats *self)
  __CPROVER_requires(__CPROVER_is_fresh(self, sizeof(*self)) && ghost_exc == 0 && !g_sock_ok && !g_bound && !g_listening && !g_thread_started && !g_path_copied && !g_sys_fail)
  __CPROVER_assigns(self->sockfd_, self->serv_addr_, self->stats_thread_, g_sock_ok, g_bound, g_listening, g_thread_started, g_path_copied, g_sys_fail, ghost_errno)
  __CPROVER_ensures(__CPROVER_return_value == 0 || __CPROVER_return_value == 1)
  /* a path that does not fit sun_path is reported as a failure and never copied */
  __CPROVER_ensures(__CPROVER_uninterpreted_strlen(self->stats_socket_path_) < SUN_PATH_SIZE || (__CPROVER_return_value == 0 && !g_path_copied)) /*@C19*/
  /* success means: socket created, bound, listening, acceptor thread started */
  __CPROVER_ensures(__CPROVER_return_value == 0 || (g_sock_ok && g_bound && g_listening && g_thread_started)) /*@C19*/
  /* and conversely: a path that fits and system calls that all succeed (a missing old socket file is fine) give a running service */
  __CPROVER_ensures(g_sys_fail || !(__CPROVER_uninterpreted_strlen(self->stats_socket_path_) < SUN_PATH_SIZE) || __CPROVER_return_value == 1) /*@C19*/
  __CPROVER_ensures((g_thread_started != 0) == (__CPROVER_return_value != 0) && ghost_exc == 0);
void h_startSocket(void) { Stats *s; HAVOC_ST(); HAVOC(g_sock_ok); HAVOC(g_bound); HAVOC(g_listening); HAVOC(g_thread_started); HAVOC(g_path_copied); HAVOC(g_sys_fail); g_self = s; Stats__startSocket(s); CANARY; }
void h_increment(void) { Stats *s; str_t k; int v; HAVOC_ST(); g_self = s; Stats__increment(s, k, v); CANARY; }
void h_set(void) { Stats *s; str_t k; int v; HAVOC_ST(); g_self = s; Stats__set(s, k, v); CANARY; }
void h_reset(void) { Stats *s; HAVOC_ST(); g_self = s; Stats__reset(s); CANARY; }
void h_getAll(void) { Stats *s; HAVOC_ST(); g_self = s; Stats__getAll(s); CANARY; }
void h_processMsg(void) { Stats *s; int fd; HAVOC_ST(); g_self = s; g_snapshot = 1; HAVOC(g_byte0_valid); Stats__processMsg(s, fd); CANARY; }
