/* Contracts for Senpai's limit formulas (C18, C10): getReclaimableBytes, getLimitMinBytes, getLimitMaxBytes.
 *
 *   floor   = max(limit_min_bytes + usage - reclaimable, memory.min)
 *   reclaimable = active_file + inactive_file
 *                 + (swap exists AND swappiness > 0 AND effective swap free > 0 ? min(swap free, active_anon + inactive_anon) : 0)
 *   ceiling = min(MemTotal, usage + limit_max_bytes, memory.high (only with memory.high.tmp), memory.max)
 *   any statistic unavailable (file missing / empty / key absent)  =>  "unavailable", never an exception (C10).
 *
 * memory.stat is seen through the four keys Senpai reads: key k is present iff g_has[k], its value g_val[k]
 * (ASSUMED: kernel byte counts in [0, 2^56]).  find() returns position k (0..3) or end() (= 4). */
#include "common.h"
_Bool nondet_bool(void);
#define NKEYS 4
_Bool g_ms_ok; _Bool g_has_af, g_has_if, g_has_aa, g_has_ia; int64_t g_af, g_if, g_aa, g_ia;
opt_int64_t g_usage, g_swap_free, g_mem_min, g_mem_high, g_mem_max; opt__Bool g_has_tmp; SystemContext g_sys;
#define MEMSTAT ((umap_str_t_int64_t)77)
opt_umap_str_t_int64_t CgroupContext__memory_stat(CgroupContext c) { opt_umap_str_t_int64_t o; o.has = g_ms_ok; o.val = MEMSTAT; return o; }
mapit_pair_str_t_int64_t umap_str_t_int64_t__end(umap_str_t_int64_t m)
{ mapit_pair_str_t_int64_t it; it.map = m; it.n = NKEYS; it.valid = 1; it.pos = NKEYS; return it; }
mapit_pair_str_t_int64_t umap_str_t_int64_t__find(umap_str_t_int64_t m, str_t k)
{
  mapit_pair_str_t_int64_t it; it.map = m; it.n = NKEYS; it.valid = 1; it.pos = NKEYS;
  if (k == STR_active_file && g_has_af) it.pos = 0;
  if (k == STR_inactive_file && g_has_if) it.pos = 1;
  if (k == STR_active_anon && g_has_aa) it.pos = 2;
  if (k == STR_inactive_anon && g_has_ia) it.pos = 3;
  return it;
}
pair_str_t_int64_t mapit_pair_str_t_int64_t__elem(hnd_t m, uint64_t pos)
{
  pair_str_t_int64_t p;
  p.first = pos == 0 ? STR_active_file : pos == 1 ? STR_inactive_file : pos == 2 ? STR_active_anon : STR_inactive_anon;
  p.second = pos == 0 ? g_af : pos == 1 ? g_if : pos == 2 ? g_aa : g_ia;
  return p;
}
OomdContext CgroupContext__oomd_ctx(CgroupContext c) { return (OomdContext)0; }
SystemContext *OomdContext__getSystemContext(OomdContext c) { return &g_sys; }
opt_int64_t CgroupContext__effective_swap_free(CgroupContext c) { return g_swap_free; }
opt_int64_t CgroupContext__current_usage(CgroupContext c) { return g_usage; }
opt_int64_t CgroupContext__memory_min(CgroupContext c) { return g_mem_min; }
opt_int64_t CgroupContext__memory_high(CgroupContext c) { return g_mem_high; }
opt_int64_t CgroupContext__memory_max(CgroupContext c) { return g_mem_max; }
opt__Bool Senpai__hasMemoryHighTmp(Senpai *s, CgroupContext c) { return g_has_tmp; }

#define B56 (1L << 56)
#define IN56(x) ((x) >= 0 && (x) <= B56)
#define OPT56(o) (!(o).has || IN56((o).val))
#define KERNEL_OK (IN56(g_af) && IN56(g_if) && IN56(g_aa) && IN56(g_ia) && OPT56(g_usage) && OPT56(g_swap_free) && OPT56(g_mem_min) && \
                   (!g_mem_high.has || g_mem_high.val >= 0) && (!g_mem_max.has || g_mem_max.val >= 0))
#define MIN2(a, b) ((b) < (a) ? (b) : (a))
#define MAX2(a, b) ((a) < (b) ? (b) : (a))
#define SWAP_COUNTS (g_sys.swaptotal > 0 && g_sys.swappiness > 0)
#define ANON_COUNTS (SWAP_COUNTS && g_swap_free.has && g_swap_free.val > 0)
#define RECLAIMABLE (g_af + g_if + (ANON_COUNTS ? MIN2(g_swap_free.val, g_aa + g_ia) : 0))
/* the value exists iff every input it is made of exists */
#define RECL_AVAILABLE (g_ms_ok && g_has_af && g_has_if && (!SWAP_COUNTS || (g_swap_free.has && (g_swap_free.val <= 0 || (g_has_aa && g_has_ia)))))

maybe_int64_t Senpai__getReclaimableBytes(Senpai *self, CgroupContext cgroup_ctx)
  __CPROVER_requires(ghost_exc == 0 && KERNEL_OK)
  __CPROVER_assigns(ghost_exc)
  /* a memory.stat that is missing, empty or lacks a key makes the value unavailable; nothing is thrown */ /*@C10*/
  __CPROVER_ensures(ghost_exc == 0)
  __CPROVER_ensures((__CPROVER_return_value.ok != 0) == RECL_AVAILABLE) /*@C18,C10*/
  /* file cache, plus anon only as far as it can actually be swapped out (swap present, swappiness > 0, swap space left) */ /*@C18*/
  __CPROVER_ensures(__CPROVER_return_value.ok ? __CPROVER_return_value.val == RECLAIMABLE : 1);

opt_int64_t Senpai__getLimitMinBytes(Senpai *self, CgroupContext cgroup_ctx)
  __CPROVER_requires(__CPROVER_is_fresh(self, sizeof(*self)) && ghost_exc == 0 && KERNEL_OK && IN56(self->limit_min_bytes_))
  __CPROVER_assigns(ghost_exc)
  __CPROVER_ensures((__CPROVER_return_value.has != 0) == (g_usage.has && RECL_AVAILABLE && g_mem_min.has)) /*@C18,C10*/
  /* floor = unreclaimable usage + limit_min_bytes, at least memory.min */ /*@C18*/
  __CPROVER_ensures(__CPROVER_return_value.has ? __CPROVER_return_value.val == MAX2(self->limit_min_bytes_ + (g_usage.val - RECLAIMABLE), g_mem_min.val) : 1)
  __CPROVER_ensures(ghost_exc == 0);

opt_int64_t Senpai__getLimitMaxBytes(Senpai *self, CgroupContext cgroup_ctx)
  __CPROVER_requires(__CPROVER_is_fresh(self, sizeof(*self)) && ghost_exc == 0 && KERNEL_OK && IN56(self->limit_max_bytes_) && self->host_mem_total_ >= 0)
  __CPROVER_assigns()
  __CPROVER_ensures((__CPROVER_return_value.has != 0) == (g_usage.has && g_has_tmp.has && (!g_has_tmp.val || g_mem_high.has) && g_mem_max.has)) /*@C18,C10*/
  /* ceiling = least of MemTotal, usage + limit_max_bytes, memory.high (only when memory.high.tmp is what gets written) and memory.max */ /*@C18*/
  __CPROVER_ensures(__CPROVER_return_value.has
      ? __CPROVER_return_value.val == MIN2(MIN2(MIN2(self->host_mem_total_, self->limit_max_bytes_ + g_usage.val),
                                                 (g_has_tmp.val ? g_mem_high.val : INT64_MAX)), g_mem_max.val)
      : 1)
  __CPROVER_ensures(ghost_exc == 0);

#define HAVOC_SL() do { HAVOC(g_ms_ok); HAVOC(g_has_af); HAVOC(g_has_if); HAVOC(g_has_aa); HAVOC(g_has_ia); HAVOC(g_af); HAVOC(g_if); HAVOC(g_aa); HAVOC(g_ia); \
  HAVOC(g_usage); HAVOC(g_swap_free); HAVOC(g_mem_min); HAVOC(g_mem_high); HAVOC(g_mem_max); HAVOC(g_has_tmp); HAVOC(g_sys); HAVOC(ghost_exc); } while (0)
#define CANARY __CPROVER_assert(0, "canary: contract precondition satisfiable and function exit reachable")
void h_getReclaimableBytes(void) { Senpai *s; CgroupContext c; HAVOC_SL(); Senpai__getReclaimableBytes(s, c); CANARY; }
void h_getLimitMinBytes(void) { Senpai *s; CgroupContext c; HAVOC_SL(); Senpai__getLimitMinBytes(s, c); CANARY; }
void h_getLimitMaxBytes(void) { Senpai *s; CgroupContext c; HAVOC_SL(); Senpai__getLimitMaxBytes(s, c); CANARY; }
