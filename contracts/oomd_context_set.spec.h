/* OomdContext (C01, C15): which cgroups a plugin gets to see.
 *   addToCacheAndGet(set of patterns): exactly one context for every existing cgroup that matches at least one of the
 *       configured patterns and whose context can be made - and for no other cgroup;
 *   addChildrenToCacheAndGet(parent): contexts of children of that parent only, one per listed child that can be made;
 *   addChildToCacheAndGet(parent, name): the context cached under the child's path (the cached one wins, so statistics
 *       already sampled this tick are kept), else nothing.
 * "for every cgroup" is proved for ONE arbitrary watched path g_K / watched child index g_wk.
 * MATCHES(pattern, path): uninterpreted - CgroupPath::resolveWildcard(pattern) lists exactly the existing paths that match
 * (its own contract is in unit cgroup_path).  PATH(ctx) / CHILD(path, name): uninterpreted, injective where stated. */
#include "common.h"
_Bool nondet_bool(void); uint64_t nondet_u64(void); int nondet_int(void);
_Bool __CPROVER_uninterpreted_matches(CgroupPath, CgroupPath);
CgroupPath __CPROVER_uninterpreted_pat(uint64_t);
CgroupPath __CPROVER_uninterpreted_path(CgroupContext);
CgroupPath __CPROVER_uninterpreted_child(CgroupPath, str_t);
str_t __CPROVER_uninterpreted_name(uint64_t, uint64_t);
#define MATCHES(p, x) __CPROVER_uninterpreted_matches((p), (x))
#define PATH(c) __CPROVER_uninterpreted_path(c)
#define CHILD(p, n) __CPROVER_uninterpreted_child((p), (n))
#define CONFIGURED ((uset_CgroupPath)4241)
#define ALLRES ((uset_CgroupPath)4242)

CgroupPath g_K;                         /* the watched cgroup */
uint64_t g_npat, g_pat_seen;            /* configured patterns, and how many the first loop has looked at */
_Bool g_match_seen;                     /* some pattern seen so far matches K */
CgroupPath g_cur_pat; uint64_t g_res_vid, g_res_n; _Bool g_res_has_k;   /* the list resolveWildcard just returned */
_Bool g_k_in_all; uint64_t g_all_n, g_kpos2; _Bool g_all_fixed;          /* the union set: size and K's position are fixed when iteration starts */
_Bool g_k_ctx_ok; CgroupContext g_k_ctx;                                 /* whether K's context can be made, and which it is */
uint64_t g_pushes, g_k_pushes, g_lookups;
/* children mode (addChildrenToCacheAndGet): the parent, the child name being processed, the watched child index */
_Bool g_mode_children; CgroupContext g_parent; _Bool g_parent_ok; str_t g_cur_name; uint64_t g_cur_idx, g_wk; _Bool g_children_ok; vec_str_t g_children;
_Bool g_wk_ok;     /* whether the watched child's context can be made (set by the harness from MAKE_OK) */

/* ---- the two sets ---- */
uset_CgroupPath uset_CgroupPath__ctor0(void) { return ALLRES; }
_Bool uset_CgroupPath__empty(uset_CgroupPath s) { __CPROVER_assert(s == CONFIGURED, "emptiness is asked of the configured set"); return g_npat == 0; }
mapit_CgroupPath uset_CgroupPath__begin(uset_CgroupPath s)
{
  mapit_CgroupPath it; it.map = s; it.pos = 0; it.valid = 1;
  if (s == ALLRES && !g_all_fixed) { g_all_fixed = 1; g_kpos2 = nondet_u64(); __CPROVER_assume(!g_k_in_all || g_kpos2 < g_all_n); }
  it.n = (s == CONFIGURED) ? g_npat : g_all_n;
  return it;
}
mapit_CgroupPath uset_CgroupPath__end(uset_CgroupPath s)
{ mapit_CgroupPath it; it.map = s; it.valid = 1; it.n = (s == CONFIGURED) ? g_npat : g_all_n; it.pos = it.n; return it; }
_Bool mapit_CgroupPath__op_eq(mapit_CgroupPath a, mapit_CgroupPath b) { return a.pos == b.pos; }
mapit_CgroupPath mapit_CgroupPath__op_inc(mapit_CgroupPath *a) { __CPROVER_assert(a->valid && a->pos < a->n, "UB: increment of end()"); a->pos = a->pos + 1; return *a; }
CgroupPath mapit_CgroupPath__op_deref(mapit_CgroupPath it)
{
  __CPROVER_assert(it.valid && it.pos < it.n, "UB: dereference of end()");
  if (it.map == CONFIGURED)
  {
    CgroupPath p = __CPROVER_uninterpreted_pat(it.pos);
    if (it.pos == g_pat_seen) { g_pat_seen = g_pat_seen + 1; if (MATCHES(p, g_K)) g_match_seen = 1; }
    return p;
  }
  /* the union: distinct paths, each one put there by insert(); K is among them iff it was inserted */
  if (g_k_in_all && it.pos == g_kpos2) return g_K;
  CgroupPath p = (CgroupPath)nondet_int();
  __CPROVER_assume(p != g_K && __CPROVER_uninterpreted_matches((CgroupPath)0, p));   /* MATCHES(0, p): "matches some configured pattern" */
  return p;
}
#define ALLOWED_PATH(p) ((p) == g_K ? (g_match_seen != 0) : __CPROVER_uninterpreted_matches((CgroupPath)0, (p)))
vec_CgroupPath CgroupPath__resolveWildcard(CgroupPath pattern)
{
  vec_CgroupPath v; v.vid = nondet_u64(); v.n = nondet_u64(); __CPROVER_assume(v.n <= VEC_MAX);
  g_cur_pat = pattern; g_res_vid = v.vid; g_res_n = v.n; g_res_has_k = MATCHES(pattern, g_K);   /* K exists: listed iff it matches */
  return v;
}
void uset_CgroupPath__insert(uset_CgroupPath s, vecit_CgroupPath first, vecit_CgroupPath last)
{
  __CPROVER_assert(s == ALLRES, "resolved paths are collected in the local union set");
  __CPROVER_assert(first.vid == g_res_vid && last.vid == g_res_vid && first.i == 0 && last.i == g_res_n, "the WHOLE list just resolved is inserted"); /*@C01*/
  __CPROVER_assert(!g_all_fixed, "UB-prone: insertion while iterating the set");
  if (g_res_has_k) g_k_in_all = 1;
  uint64_t added = nondet_u64(); __CPROVER_assume(added <= g_res_n && (!g_res_has_k || g_all_n + added >= 1));
  g_all_n = g_all_n + added;
}
/* the single-path overload (own contract in unit oomd_context): the context at that path, if it can be made */
opt_CgroupContext OomdContext__addToCacheAndGet__CgroupPath(OomdContext *self, CgroupPath p)
{
  g_lookups = g_lookups + 1;
  opt_CgroupContext o;
  if (p == g_K) { o.has = g_k_ctx_ok; o.val = g_k_ctx; return o; }
  o.has = nondet_bool(); o.val = (CgroupContext)nondet_int();
  __CPROVER_assume(PATH(o.val) == p);
  return o;
}
void vec_CgroupContext__push_back(vec_CgroupContext *v, CgroupContext c)
{
  if (g_mode_children)
    __CPROVER_assert(g_parent_ok && PATH(c) == CHILD(PATH(g_parent), g_cur_name), "only children of the given cgroup are returned"); /*@C01*/
  else
    __CPROVER_assert(ALLOWED_PATH(PATH(c)), "only cgroups matching a configured pattern are handed to the plugin"); /*@C01*/
  if (g_mode_children ? (g_cur_idx == g_wk) : (PATH(c) == g_K)) g_k_pushes = g_k_pushes + 1;
  __CPROVER_assume(v->n < VEC_MAX); v->n = v->n + 1; g_pushes = g_pushes + 1;
}

vec_CgroupContext OomdContext__addToCacheAndGet(OomdContext *self, uset_CgroupPath cgroups)
  __CPROVER_requires(__CPROVER_is_fresh(self, sizeof(*self)) && ghost_exc == 0 && cgroups == CONFIGURED && g_npat <= VEC_MAX && !g_mode_children)
  __CPROVER_requires(g_pat_seen == 0 && !g_match_seen && !g_k_in_all && g_all_n == 0 && !g_all_fixed && g_pushes == 0 && g_k_pushes == 0 && g_lookups == 0 &&
                     (!g_k_ctx_ok || PATH(g_k_ctx) == g_K))
  __CPROVER_assigns(g_pat_seen, g_match_seen, g_cur_pat, g_res_vid, g_res_n, g_res_has_k, g_k_in_all, g_all_n, g_kpos2, g_all_fixed, g_pushes, g_k_pushes, g_lookups)
  /* every configured pattern is resolved */
  __CPROVER_ensures(g_pat_seen == g_npat)
  /* K is handed over exactly once iff some configured pattern matches it and its context can be made; never otherwise */ /*@C01,C15*/
  __CPROVER_ensures(g_k_pushes == ((g_match_seen && g_k_ctx_ok) ? 1 : 0))
  __CPROVER_ensures(__CPROVER_return_value.n == g_pushes && g_pushes <= g_lookups && g_lookups == g_all_n)
  __CPROVER_ensures(g_npat == 0 ? (g_pushes == 0 && g_lookups == 0) : 1)
  __CPROVER_ensures(ghost_exc == 0);
#define LOOPC_OomdContext__addToCacheAndGet_1 \
  __CPROVER_assigns(__begin1, g_pat_seen, g_match_seen, g_cur_pat, g_res_vid, g_res_n, g_res_has_k, g_k_in_all, g_all_n) \
  __CPROVER_loop_invariant(__begin1.map == CONFIGURED && __begin1.valid && __begin1.pos <= __begin1.n && __begin1.n == g_npat && __end1.pos == g_npat && g_pat_seen == __begin1.pos) \
  __CPROVER_loop_invariant((g_k_in_all != 0) == (g_match_seen != 0) && !g_all_fixed && g_all_n <= __begin1.pos * VEC_MAX && (!g_k_in_all || g_all_n >= 1)) \
  __CPROVER_decreases(__begin1.n - __begin1.pos)
#define LOOPC_OomdContext__addToCacheAndGet_2 \
  __CPROVER_assigns(__begin1, ret, g_pushes, g_k_pushes, g_lookups) \
  __CPROVER_loop_invariant(__begin1.map == ALLRES && __begin1.valid && __begin1.pos <= __begin1.n && __begin1.n == g_all_n && __end1.pos == g_all_n && g_all_fixed) \
  __CPROVER_loop_invariant(g_lookups == __begin1.pos && g_pushes <= g_lookups && ret.n == g_pushes && (!g_k_in_all || g_kpos2 < g_all_n)) \
  __CPROVER_loop_invariant(g_k_pushes == ((g_k_in_all && __begin1.pos > g_kpos2 && g_k_ctx_ok) ? 1 : 0)) \
  __CPROVER_decreases(__begin1.n - __begin1.pos)

/* ---- children ---- */
opt_vec_str_t CgroupContext__children(CgroupContext c, CgroupContext_Error *err)
{ __CPROVER_assert(c == g_parent, "children of the given cgroup"); opt_vec_str_t o; o.has = g_children_ok; o.val = g_children; return o; }
str_t vec_str_t__elem(uint64_t vid, uint64_t i) { g_cur_idx = i; g_cur_name = __CPROVER_uninterpreted_name(vid, i); return g_cur_name; }
CgroupPath CgroupContext__cgroup(CgroupContext c) { return PATH(c); }

/* createChildCgroupCtx (CgroupContext.cpp: make(ctx, cgroup_.getChild(name))): a context for the child path, if the directory opens.
   What can be made / what is cached are uninterpreted functions of (parent, name) / of the path: any cache content, any outcome. */
_Bool __CPROVER_uninterpreted_make_ok(CgroupContext, str_t); CgroupContext __CPROVER_uninterpreted_made(CgroupContext, str_t);
_Bool __CPROVER_uninterpreted_is_cached(CgroupPath); CgroupContext __CPROVER_uninterpreted_cached_at(CgroupPath);
#define MAKE_OK(p, n) __CPROVER_uninterpreted_make_ok((p), (n))
#define MADE(p, n) __CPROVER_uninterpreted_made((p), (n))
#define IS_CACHED(k) __CPROVER_uninterpreted_is_cached(k)
#define CACHED_AT(k) __CPROVER_uninterpreted_cached_at(k)
uint64_t g_emplaces;
opt_CgroupContext CgroupContext__createChildCgroupCtx(CgroupContext parent, str_t name)
{ opt_CgroupContext o; o.has = MAKE_OK(parent, name); o.val = MADE(parent, name); if (o.has) __CPROVER_assume(PATH(o.val) == CHILD(PATH(parent), name)); return o; }
typedef mapit_pair_CgroupPath_CgroupContext it_t;
CgroupPath g_emp_key; CgroupContext g_emp_val;
pair_mapit_pair_CgroupPath_CgroupContext__Bool umap_CgroupPath_CgroupContext__emplace(umap_CgroupPath_CgroupContext m, CgroupPath k, CgroupContext v)
{ g_emplaces = g_emplaces + 1; g_emp_key = k; g_emp_val = v;
  if (IS_CACHED(k)) __CPROVER_assume(PATH(CACHED_AT(k)) == k);          /* map invariant: a context is cached under its own path */
  pair_mapit_pair_CgroupPath_CgroupContext__Bool r; r.first.map = m; r.first.pos = 1; r.first.n = 2; r.first.valid = 1; r.second = !IS_CACHED(k); return r; }   /* an existing entry wins */
pair_CgroupPath_CgroupContext mapit_pair_CgroupPath_CgroupContext__op_arrow(it_t it)
{ __CPROVER_assert(it.valid && it.pos > 0 && it.n == 2, "dereference of the iterator emplace() returned");
  pair_CgroupPath_CgroupContext p; p.first = g_emp_key; p.second = IS_CACHED(g_emp_key) ? CACHED_AT(g_emp_key) : g_emp_val; return p; }
static inline opt_CgroupContext ext__make_optional__opt_CgroupContext__CgroupContext(CgroupContext c) { opt_CgroupContext o; o.has = 1; o.val = c; return o; }

#define CHILD_PATH CHILD(PATH(cgroup_ctx), child)
opt_CgroupContext OomdContext__addChildToCacheAndGet(OomdContext *self, CgroupContext cgroup_ctx, str_t child)
  __CPROVER_requires(__CPROVER_is_fresh(self, sizeof(*self)) && ghost_exc == 0 && g_emplaces < (1UL << 40))
  __CPROVER_assigns(g_emplaces, g_emp_key, g_emp_val)
  __CPROVER_ensures((__CPROVER_return_value.has != 0) == (MAKE_OK(cgroup_ctx, child) != 0))
  /* the context returned is the one cached under the child's own path; an already cached one is kept */ /*@C01,C15*/
  __CPROVER_ensures(__CPROVER_return_value.has ? (PATH(__CPROVER_return_value.val) == CHILD_PATH && g_emplaces == __CPROVER_old(g_emplaces) + 1 && g_emp_key == CHILD_PATH &&
                                                  __CPROVER_return_value.val == (IS_CACHED(CHILD_PATH) ? CACHED_AT(CHILD_PATH) : MADE(cgroup_ctx, child)))
                                               : g_emplaces == __CPROVER_old(g_emplaces))
  __CPROVER_ensures(ghost_exc == 0);

vec_CgroupContext OomdContext__addChildrenToCacheAndGet(OomdContext *self, CgroupContext cgroup_ctx)
  __CPROVER_requires(__CPROVER_is_fresh(self, sizeof(*self)) && ghost_exc == 0 && cgroup_ctx == g_parent && g_mode_children && g_parent_ok && g_pushes == 0 && g_k_pushes == 0 && g_emplaces == 0 &&
                     (!g_children_ok || g_children.n <= VEC_MAX))
  __CPROVER_assigns(g_pushes, g_k_pushes, g_cur_idx, g_cur_name, g_emplaces, g_emp_key, g_emp_val)
  __CPROVER_ensures(__CPROVER_return_value.n == g_pushes)
  /* an unreadable child list gives no candidates (not an error); else the watched child is returned once iff it can be made
 */ /*@C01,C10*/
  __CPROVER_ensures(!g_children_ok ? g_pushes == 0 : ((g_wk < g_children.n) ? g_k_pushes == (g_wk_ok ? 1 : 0) : g_k_pushes == 0))
  __CPROVER_ensures(ghost_exc == 0);
#define LOOPC_OomdContext__addChildrenToCacheAndGet_1 \
  __CPROVER_assigns(__begin2, ret, g_pushes, g_k_pushes, g_cur_idx, g_cur_name, g_emplaces, g_emp_key, g_emp_val) \
  __CPROVER_loop_invariant(__begin2.i <= __begin2.n && __end2.i == __begin2.n && __begin2.n == g_children.n && __begin2.vid == g_children.vid && ret.n == g_pushes && g_pushes <= __begin2.i && g_emplaces <= __begin2.i) \
  __CPROVER_loop_invariant(g_k_pushes == ((__begin2.i > g_wk && g_wk_ok) ? 1 : 0)) \
  __CPROVER_decreases(__begin2.n - __begin2.i)

#define HAVOC_OCS() do { HAVOC(g_K); HAVOC(g_npat); HAVOC(g_k_ctx_ok); HAVOC(g_k_ctx); HAVOC(ghost_exc); HAVOC(g_parent); HAVOC(g_children_ok); HAVOC(g_children); HAVOC(g_wk); \
  HAVOC(g_cur_name); HAVOC(g_cur_idx); HAVOC(g_wk_ok); \
  g_pat_seen = 0; g_match_seen = 0; g_k_in_all = 0; g_all_n = 0; g_all_fixed = 0; g_pushes = 0; g_k_pushes = 0; g_lookups = 0; g_emplaces = 0; \
  g_mode_children = 0; g_parent_ok = 0; } while (0)
#define CANARY __CPROVER_assert(0, "canary: contract precondition satisfiable and function exit reachable")
void h_addToCacheAndGet_set(void) { OomdContext *s; HAVOC_OCS(); OomdContext__addToCacheAndGet(s, CONFIGURED); CANARY; }
void h_addChildToCacheAndGet(void) { OomdContext *s; CgroupContext c; str_t n; HAVOC_OCS(); OomdContext__addChildToCacheAndGet(s, c, n); CANARY; }
void h_addChildrenToCacheAndGet(void) { OomdContext *s; HAVOC_OCS(); g_mode_children = 1; g_parent_ok = 1; g_wk_ok = MAKE_OK(g_parent, __CPROVER_uninterpreted_name(g_children.vid, g_wk)); OomdContext__addChildrenToCacheAndGet(s, g_parent); CANARY; }
