/* BaseKillPlugin::init (C12): the arguments every kill plugin declares - docs/core_plugins.md "kill_by_*": cgroup,
 * recursive, post_action_delay, dry, always_continue, debug (+ kernelkill, reap_memory) - all optional, and
 * post_action_delay read as a non-negative integer (PluginArgParser::parseUnsignedInt). */
#include "common.h"
#include "init_common.h"
DEF_PARSE(PluginArgParser)
uset_CgroupPath PluginArgParser__parseCgroup(PluginConstructionContext c, str_t s);
int64_t PluginArgParser__parseUnsignedInt(str_t s);
#define lambda_bind__BaseKillPlugin__init__lambda_addArgumentCustom(ctx) ((lambda_t)7)
void PluginArgParser__addArgumentCustom__str_t_uset_CgroupPath_function_t__Bool(PluginArgParser p, str_t name, uset_CgroupPath dest, function_t fn, _Bool required)
{ __CPROVER_assert(fn == (function_t)7, "the cgroup argument is parsed by PluginArgParser::parseCgroup with this plugin's construction context"); REG(name, (const void *)(long)dest, required, 1); }
void PluginArgParser__addArgumentCustom__str_t_opt_int_function_t__Bool(PluginArgParser p, str_t name, opt_int *dest, function_t fn, _Bool required)
{ __CPROVER_assert(fn == (function_t)PluginArgParser__parseUnsignedInt, "post_action_delay is read by parseUnsignedInt (non-negative integers only)"); REG(name, dest, required, 1); }
void PluginArgParser__addArgument__str_t__Bool__Bool(PluginArgParser p, str_t name, _Bool *dest, _Bool required) { REG(name, dest, required, 0); }
int BaseKillPlugin__init(BaseKillPlugin *self, umap_str_t_str_t args, PluginConstructionContext context)
  __CPROVER_requires(__CPROVER_is_fresh(self, sizeof(*self)) && ghost_exc == 0 && g_reg_n == 0 && g_parse_calls == 0)
  __CPROVER_assigns(REG_ASSIGNS)
  __CPROVER_ensures(INIT_CORE(8)) /*@C12*/
  __CPROVER_ensures(HASREG(STR_cgroup, (long)self->cgroups_, 0) && HASREG(STR_recursive, &self->recursive_, 0) && HASREG(STR_post_action_delay, &self->postActionDelay_, 0) &&
                    HASREG(STR_dry, &self->dry_, 0) && HASREG(STR_always_continue, &self->alwaysContinue_, 0) && HASREG(STR_debug, &self->debug_, 0) &&
                    HASREG(STR_kernelkill, &self->kernelKill_, 0) && HASREG(STR_reap_memory, &self->reapMemory_, 0)) /*@C12*/
  __CPROVER_ensures(ghost_exc == 0);
void h_BaseKillPlugin__init(void) { BaseKillPlugin *self; umap_str_t_str_t a; PluginConstructionContext c; HAVOC_REG(); HAVOC(ghost_exc); BaseKillPlugin__init(self, a, c); __CPROVER_assert(0, "canary: contract precondition satisfiable and function exit reachable"); }
