/* Contracts for Oomd::Engine::Ruleset (properties C02, C05, C06).
 *
 * Model of the ruleset's plugin lists: element i of action_group_ is the plugin with handle
 * ACTION_BASE+i, element i of detector_groups_ the group DG_BASE+i (distinct objects at distinct
 * positions).  The OomdContext's mutable state that the engine writes (action context, invoking
 * ruleset, ruleset cgroup) is ghost state updated by the set* stubs.
 * Plugin calls are ghost code: they check the order / context they are called in, and return
 * any PluginRet; a STOPping action may call pause_actions() on the invoking ruleset (this is what
 * BaseKillPlugin::run does when it has its own post_action_delay).
 */
#include "common.h"
#define ACTION_BASE 100000
#define DG_BASE 300000
#define DGNAME_BASE 500000
#define ACTX_EQ(a, b) ((a).ruleset_name == (b).ruleset_name && (a).detectorgroup == (b).detectorgroup && \
  (a).action_group_run_uuid == (b).action_group_run_uuid && \
  (a).prekill_hook_timeout_ts.has == (b).prekill_hook_timeout_ts.has && \
  (!(a).prekill_hook_timeout_ts.has || TP_EQ((a).prekill_hook_timeout_ts.val, (b).prekill_hook_timeout_ts.val)) && \
  (a).target_cgroup.has == (b).target_cgroup.has && (!(a).target_cgroup.has || (a).target_cgroup.val == (b).target_cgroup.val))
#define ACTX_CLEAR(a) ((a).ruleset_name == STR_EMPTY && (a).detectorgroup == STR_EMPTY && \
  (a).action_group_run_uuid == STR_EMPTY && !(a).prekill_hook_timeout_ts.has && !(a).target_cgroup.has)

/* the saved context, whether the field holds a copy (as at the pinned commit) or a reference */
#define ACTX_OF(x) (*_Generic((x), ActionContext *: (x), const ActionContext *: (x), default: &(x)))

/* ---- ghost: OomdContext state ---- */
ActionContext g_ctx_action;
opt_Ruleset__ g_ctx_invoking;
opt_CgroupPath g_ctx_rscg;
/* ---- ghost: call log accumulators ---- */
Ruleset *g_self;
uint64_t g_dg_next;        /* detector groups checked so far (each asserts it is the next one) */
int64_t g_first_fired;     /* index of the first group that fired this tick, -1 if none */
uint64_t g_first_action;   /* index at which the running chain pass started (set by the harness) */
uint64_t g_chain_first;    /* index of the first action that actually ran in this chain pass */
uint64_t g_action_runs;    /* number of action run() calls */
PluginRet g_last_ret;
ActionContext g_expect_ctx;/* context every action of the running chain must see */
_Bool g_plugin_paused;     /* the stopping action called pause_actions() itself */
tp_t g_plugin_until;
tp_t g_stop_now;           /* clock reading taken by the engine when it handled STOP */
uint64_t g_now_calls;
tp_t g_now_hist0, g_now_hist1;
uint64_t g_uuid_calls; str_t g_last_uuid;
ActionContext g_chain_ctx;
uint64_t g_prerun_dg, g_prerun_act;

_Bool nondet_bool(void); int nondet_int(void); str_t nondet_str(void); tp_t nondet_tp(void);

/* ---- clock (ASSUMED: monotone, never the epoch) ---- */
tp_t ext__now(void)
{
  tp_t t = nondet_tp();
  __CPROVER_assume(TP_VALID(t) && !TP_IS_EPOCH(t) && TP_LE(g_last_now, t));
  g_last_now = t;
  if (g_now_calls == 0) g_now_hist0 = t;
  if (g_now_calls == 1) g_now_hist1 = t;
  if (g_now_calls < 2) g_now_calls = g_now_calls + 1;   /* saturating: only the first two readings are recorded */
  return t;
}

/* ---- OomdContext accessors (ghost code) ---- */
void OomdContext__setActionContext(OomdContext c, ActionContext a) { g_ctx_action = a; }
ActionContext *OomdContext__getActionContext(OomdContext c) { return &g_ctx_action; }   /* returns a reference into the context */
void OomdContext__setInvokingRuleset(OomdContext c, opt_Ruleset__ r) { g_ctx_invoking = r; }
void OomdContext__setRulesetCgroup(OomdContext c, opt_CgroupPath p) { g_ctx_rscg = p; }
opt_CgroupPath OomdContext__getRulesetCgroup(OomdContext c) { return g_ctx_rscg; }

str_t Util__generateUuid(void) { str_t u = nondet_str(); g_uuid_calls = g_uuid_calls + 1; g_last_uuid = u; return u; }
str_t CgroupPath__absolutePath(CgroupPath p) { return nondet_str(); }

/* ---- plugin lists ---- */
uptr_BasePlugin vec_uptr_BasePlugin__elem(uint64_t vid, uint64_t i) { return (uptr_BasePlugin)(ACTION_BASE + i); }
uptr_DetectorGroup vec_uptr_DetectorGroup__elem(uint64_t vid, uint64_t i) { return (uptr_DetectorGroup)(DG_BASE + i); }

/* ---- DetectorGroup (interface contract; DetectorGroup::check is proved in unit detector_group) ---- */
_Bool DetectorGroup__check(DetectorGroup dg, OomdContext c, uint32_t silenced)
{
  __CPROVER_assert(dg == (DetectorGroup)(DG_BASE + g_dg_next), "every detector group is checked exactly once per tick, in configured order"); /*@C02*/
  __CPROVER_assert(silenced == g_self->silenced_logs_, "detector group gets the ruleset's silence mask");
  _Bool fired = nondet_bool();
  if (fired && g_first_fired < 0) g_first_fired = (int64_t)g_dg_next;
  g_dg_next = g_dg_next + 1;
  return fired;
}
str_t DetectorGroup__name(DetectorGroup dg) { return (str_t)(DGNAME_BASE + (dg - DG_BASE)); }
void DetectorGroup__prerun(DetectorGroup dg, OomdContext c)
{
  __CPROVER_assert(dg == (DetectorGroup)(DG_BASE + g_prerun_dg), "prerun reaches every detector group once, in order"); /*@C02*/
  g_prerun_dg = g_prerun_dg + 1;
}
void BasePlugin__prerun(BasePlugin p, OomdContext c)
{
  __CPROVER_assert(p == (BasePlugin)(ACTION_BASE + g_prerun_act), "prerun reaches every action once, in order"); /*@C02*/
  g_prerun_act = g_prerun_act + 1;
}

uint64_t g_prerun_inst;   /* per-cgroup instances reached by prerun (cgroup-scoped rulesets; see unit ruleset_cgroup) */
void Ruleset__prerun__h(uptr_Ruleset r, OomdContext c) { g_prerun_inst = g_prerun_inst + 1; }
void Ruleset__pause_actions(Ruleset *self, dur_s_t duration);

/* ---- an action plugin's run() (interface: any return value; may override the delay on STOP) ---- */
PluginRet BasePlugin__run(BasePlugin p, OomdContext c)
{
  __CPROVER_assert(p == (BasePlugin)(ACTION_BASE + g_first_action + g_action_runs), "actions run in configured order starting at the expected one"); /*@C02,C06*/
  if (g_action_runs == 0) { g_chain_first = (uint64_t)(p - ACTION_BASE); g_chain_ctx = g_ctx_action; }
  __CPROVER_assert(ACTX_EQ(g_ctx_action, g_expect_ctx), "every action sees the action context its chain was fired with"); /*@C02,C06*/
  __CPROVER_assert(g_ctx_invoking.has && g_ctx_invoking.val == g_self, "the invoking ruleset is available to every action of the chain (post_action_delay override)"); /*@C05*/
  __CPROVER_assert(ghost_log_enabled == ((g_self->silenced_logs_ & LogSources__PLUGINS) ? 0 : 1), "an action's own log lines are silenced exactly when the ruleset's silence-logs lists plugins"); /*@C02,C20*/
  g_action_runs = g_action_runs + 1;
  int r = nondet_int();
  __CPROVER_assume(r == PluginRet__CONTINUE || r == PluginRet__STOP || r == PluginRet__ASYNC_PAUSED);
  g_plugin_paused = 0;
  if (r == PluginRet__STOP && g_ctx_invoking.has && nondet_bool())
  {
    dur_s_t d; d.s = nondet_int();
    __CPROVER_assume(d.s >= 0);
    Ruleset__pause_actions(g_ctx_invoking.val, d);
    g_plugin_paused = 1;
    g_plugin_until = g_ctx_invoking.val->pause_actions_until_;
  }
  g_last_ret = r;
  return r;
}

/* ============================ contracts under proof ============================ */
#define RS_WF(s) (TP_VALID((s)->pause_actions_until_) && (s)->action_group_.n <= VEC_MAX && (s)->detector_groups_.n <= VEC_MAX && \
  (s)->post_action_delay_ >= 0 && (s)->prekill_hook_timeout_ >= 0 && (!(s)->cgroup_.has || (s)->cgroup_.val != 0))
#define RS_STATE_WF(s) (!(s)->active_action_chain_state_.has || \
  ((s)->active_action_chain_state_.val.active_plugin >= ACTION_BASE && \
   (uint64_t)((s)->active_action_chain_state_.val.active_plugin - ACTION_BASE) < (s)->action_group_.n))

/* pause_actions: the pause ends `duration` after now; the override flag is raised */
void Ruleset__pause_actions(Ruleset *self, dur_s_t duration)
  __CPROVER_requires(__CPROVER_is_fresh(self, sizeof(*self)) && duration.s >= 0 && duration.s <= (1L << 32) && TP_VALID(g_last_now) && g_now_calls <= 2)
  __CPROVER_assigns(self->pause_actions_until_, self->plugin_overrode_post_action_delay_, g_last_now, g_now_calls, g_now_hist0, g_now_hist1)
  __CPROVER_ensures(g_now_calls >= __CPROVER_old(g_now_calls) && g_now_calls <= 2 &&
                    (__CPROVER_old(g_now_calls) >= 1 ? TP_EQ(g_now_hist0, __CPROVER_old(g_now_hist0)) : 1) &&
                    (__CPROVER_old(g_now_calls) >= 2 ? TP_EQ(g_now_hist1, __CPROVER_old(g_now_hist1)) : 1))
  __CPROVER_ensures(TP_LE(__CPROVER_old(g_last_now), g_last_now) && TP_VALID(g_last_now))
  __CPROVER_ensures(self->pause_actions_until_.sec == g_last_now.sec + duration.s && self->pause_actions_until_.nsec == g_last_now.nsec) /*@C05*/
  __CPROVER_ensures(self->plugin_overrode_post_action_delay_ == 1) /*@C05*/;

/* run_action_chain: runs actions start.. in order until STOP / ASYNC / end */
uint32_t Ruleset__run_action_chain(Ruleset *self, vecit_uptr_BasePlugin action_chain_start, vecit_uptr_BasePlugin action_chain_end, OomdContext context)
  __CPROVER_requires(__CPROVER_is_fresh(self, sizeof(*self)) && self == g_self && RS_WF(self) && TP_VALID(g_last_now))
  __CPROVER_requires(action_chain_start.n == self->action_group_.n &&
                     action_chain_end.i == self->action_group_.n && action_chain_start.i <= action_chain_end.i)
  __CPROVER_requires(!self->plugin_overrode_post_action_delay_ && ghost_exc == 0 && g_action_runs == 0 && g_now_calls <= 2 && ghost_log_enabled == 1)
  __CPROVER_requires(!self->active_action_chain_state_.has)  /* a suspended chain is consumed before it is resumed */ /*@C06*/
  __CPROVER_requires(g_ctx_invoking.has && g_ctx_invoking.val == self) /* the chain runs with the invoking ruleset set */ /*@C05*/
  __CPROVER_assigns(self->pause_actions_until_, self->plugin_overrode_post_action_delay_, self->active_action_chain_state_,
                    g_last_now, g_now_calls, g_now_hist0, g_now_hist1, g_action_runs, g_last_ret,
                    g_plugin_paused, g_plugin_until, ghost_log_enabled, g_chain_first, g_chain_ctx)
  __CPROVER_ensures(g_now_calls >= __CPROVER_old(g_now_calls) && g_now_calls <= 2 &&
                    (__CPROVER_old(g_now_calls) >= 1 ? TP_EQ(g_now_hist0, __CPROVER_old(g_now_hist0)) : 1) &&
                    (__CPROVER_old(g_now_calls) >= 2 ? TP_EQ(g_now_hist1, __CPROVER_old(g_now_hist1)) : 1))
  __CPROVER_ensures(TP_LE(__CPROVER_old(g_last_now), g_last_now) && TP_VALID(g_last_now))
  /* at least one action ran unless the range was empty; they ran consecutively from start */
  __CPROVER_ensures(action_chain_start.i + g_action_runs <= action_chain_end.i)
  __CPROVER_ensures(g_action_runs == 0 ? action_chain_start.i == action_chain_end.i
                                       : (g_chain_first == action_chain_start.i && ACTX_EQ(g_chain_ctx, __CPROVER_old(g_ctx_action))))
  /* the chain stops exactly at the first STOP / ASYNC_PAUSED, else runs to the end */ /*@C02*/
  __CPROVER_ensures(g_action_runs > 0 && g_last_ret == PluginRet__CONTINUE ? action_chain_start.i + g_action_runs == action_chain_end.i : 1)
  /* ASYNC_PAUSED: chain suspended on that very plugin with the context of this chain */ /*@C06,C07*/
  __CPROVER_ensures((g_action_runs > 0 && g_last_ret == PluginRet__ASYNC_PAUSED)
      ? (__CPROVER_return_value == 0 && self->active_action_chain_state_.has &&
         self->active_action_chain_state_.val.active_plugin >= ACTION_BASE &&
         (uint64_t)(self->active_action_chain_state_.val.active_plugin - ACTION_BASE) + 1 == action_chain_start.i + g_action_runs &&
         ACTX_EQ(ACTX_OF(self->active_action_chain_state_.val.action_context), __CPROVER_old(g_ctx_action)))
      : (__CPROVER_return_value == 1 && !self->active_action_chain_state_.has))
  /* STOP: pause until (time of STOP) + delay, delay = the action's own if it set one, else the ruleset's */ /*@C05*/
  __CPROVER_ensures((g_action_runs > 0 && g_last_ret == PluginRet__STOP)
      ? (g_plugin_paused ? TP_EQ(self->pause_actions_until_, g_plugin_until)
                         : (self->pause_actions_until_.sec == g_last_now.sec + self->post_action_delay_ &&
                            self->pause_actions_until_.nsec == g_last_now.nsec))
      : TP_EQ(self->pause_actions_until_, __CPROVER_old(self->pause_actions_until_)))
  __CPROVER_ensures(!self->plugin_overrode_post_action_delay_) /*@C05,C02*/
  __CPROVER_ensures(ghost_log_enabled == 1)      /* silencing never outlives the action it was switched on for */ /*@C02,C20*/
  __CPROVER_ensures(TP_VALID(self->pause_actions_until_) || self->pause_actions_until_.sec >= (1L << 40))
  __CPROVER_ensures(ghost_exc == 0);

#define LOOPC_Ruleset__run_action_chain_1 \
  __CPROVER_assigns(action_chain_start, self->pause_actions_until_, self->plugin_overrode_post_action_delay_, \
                    g_last_now, g_now_calls, g_now_hist0, g_now_hist1, g_action_runs, g_last_ret, \
                    g_plugin_paused, g_plugin_until, ghost_log_enabled, g_chain_first, g_chain_ctx) \
  __CPROVER_loop_invariant(action_chain_start.i <= action_chain_end.i && action_chain_end.i == self->action_group_.n && \
                           action_chain_start.n == self->action_group_.n) \
  __CPROVER_loop_invariant(g_first_action <= VEC_MAX && g_action_runs <= VEC_MAX && action_chain_start.i == g_first_action + g_action_runs) \
  __CPROVER_loop_invariant(g_action_runs == 0 || (g_chain_first == g_first_action && ACTX_EQ(g_chain_ctx, g_expect_ctx))) \
  __CPROVER_loop_invariant(g_action_runs == 0 || g_last_ret == PluginRet__CONTINUE) \
  __CPROVER_loop_invariant(!self->plugin_overrode_post_action_delay_ && !self->active_action_chain_state_.has) \
  __CPROVER_loop_invariant(TP_EQ(self->pause_actions_until_, __CPROVER_loop_entry(self->pause_actions_until_))) \
  __CPROVER_loop_invariant(TP_VALID(g_last_now) && TP_LE(__CPROVER_loop_entry(g_last_now), g_last_now)) \
  __CPROVER_loop_invariant(g_now_calls >= __CPROVER_loop_entry(g_now_calls) && g_now_calls <= 2 && \
     (__CPROVER_loop_entry(g_now_calls) >= 1 ? TP_EQ(g_now_hist0, __CPROVER_loop_entry(g_now_hist0)) : 1) && \
     (__CPROVER_loop_entry(g_now_calls) >= 2 ? TP_EQ(g_now_hist1, __CPROVER_loop_entry(g_now_hist1)) : 1)) \
  __CPROVER_loop_invariant(ACTX_EQ(g_ctx_action, g_expect_ctx) && g_ctx_invoking.has && g_ctx_invoking.val == self && ghost_log_enabled == 1) \
  __CPROVER_decreases(action_chain_end.i - action_chain_start.i)

/* runOnceImpl: one tick of one ruleset (instance) */
#define RS_FIRED (g_first_fired >= 0)
#define RS_TPAUSE (RS_FIRED ? g_now_hist1 : g_now_hist0)
#define RS_CHAIN_RET(r) ((r) == ((g_action_runs > 0 && g_last_ret == PluginRet__ASYNC_PAUSED) ? 0u : 1u))
#define RS_FRESH_CTX(a, s, rscg) ((a).ruleset_name == (s)->name_ && (a).detectorgroup == (str_t)(DGNAME_BASE + g_first_fired) && \
  (a).action_group_run_uuid == g_last_uuid && (a).prekill_hook_timeout_ts.has && \
  (a).prekill_hook_timeout_ts.val.sec == g_now_hist0.sec + (s)->prekill_hook_timeout_ && \
  (a).prekill_hook_timeout_ts.val.nsec == g_now_hist0.nsec && \
  (a).target_cgroup.has == (rscg).has && (!(rscg).has || (a).target_cgroup.val == (rscg).val))

uint32_t Ruleset__runOnceImpl(Ruleset *self, OomdContext context)
  __CPROVER_requires(__CPROVER_is_fresh(self, sizeof(*self)) && self == g_self && RS_WF(self) && RS_STATE_WF(self))
  __CPROVER_requires(TP_VALID(g_last_now) && !self->plugin_overrode_post_action_delay_ && ghost_exc == 0)
  __CPROVER_requires(g_dg_next == 0 && g_first_fired == -1 && g_now_calls == 0 && g_uuid_calls == 0 && g_action_runs == 0 && ghost_log_enabled == 1)
  __CPROVER_assigns(self->pause_actions_until_, self->plugin_overrode_post_action_delay_, self->active_action_chain_state_,
                    g_ctx_action, g_ctx_invoking, g_ctx_rscg, g_dg_next, g_first_fired, g_uuid_calls, g_last_uuid,
                    g_last_now, g_now_calls, g_now_hist0, g_now_hist1, g_action_runs, g_last_ret,
                    g_plugin_paused, g_plugin_until, ghost_log_enabled, g_chain_first, g_chain_ctx)
  /* every detector group checked exactly once, whether or not anything fires, paused or not */ /*@C02,C05,C06*/
  __CPROVER_ensures(g_dg_next == self->detector_groups_.n)
  /* a fresh run uuid is drawn exactly when a group fires */ /*@C06*/
  __CPROVER_ensures(g_uuid_calls == (RS_FIRED ? 1 : 0))
  /* inside the post-action pause no action runs and nothing changes */ /*@C05*/
  __CPROVER_ensures(TP_LT(RS_TPAUSE, __CPROVER_old(self->pause_actions_until_))
      ? (g_action_runs == 0 && __CPROVER_return_value == 0 &&
         self->active_action_chain_state_.has == __CPROVER_old(self->active_action_chain_state_.has) &&
         TP_EQ(self->pause_actions_until_, __CPROVER_old(self->pause_actions_until_)))
      : 1)
  /* not paused, suspended chain: that same action is resumed with its saved context (uuid, hook deadline, target); no chain start */ /*@C06,C07*/
  __CPROVER_ensures((!TP_LT(RS_TPAUSE, __CPROVER_old(self->pause_actions_until_)) && __CPROVER_old(self->active_action_chain_state_.has))
      ? (g_action_runs >= 1 && RS_CHAIN_RET(__CPROVER_return_value) &&
         g_chain_first == (uint64_t)(__CPROVER_old(self->active_action_chain_state_.val.active_plugin) - ACTION_BASE) &&
         ACTX_EQ(g_chain_ctx, __CPROVER_old(ACTX_OF(self->active_action_chain_state_.val.action_context))))
      : 1)
  /* not paused, no suspended chain: the chain starts at the first action iff a group fired, with the context
     naming this ruleset and the FIRST group that fired, hook deadline = time of firing + prekill_hook_timeout */ /*@C02,C07*/
  __CPROVER_ensures((!TP_LT(RS_TPAUSE, __CPROVER_old(self->pause_actions_until_)) && !__CPROVER_old(self->active_action_chain_state_.has))
      ? (RS_FIRED ? (RS_CHAIN_RET(__CPROVER_return_value) &&
                     (self->action_group_.n > 0
                        ? (g_action_runs >= 1 && g_chain_first == 0 && RS_FRESH_CTX(g_chain_ctx, self, __CPROVER_old(g_ctx_rscg)))
                        : g_action_runs == 0))
                  : (g_action_runs == 0 && __CPROVER_return_value == 0))
      : 1)
  /* a chain left suspended by this tick keeps ITS OWN copy of the context it ran with (ruleset, detector group, run uuid, hook
     deadline, target) - it must survive the clean-up below, or the resumed kill reports and times out against nothing */ /*@C06,C07,C17*/
  __CPROVER_ensures((self->active_action_chain_state_.has && g_action_runs > 0) ? ACTX_EQ(ACTX_OF(self->active_action_chain_state_.val.action_context), g_chain_ctx) : 1)
  /* the context is left clean on every path */ /*@C02,C05,C06*/
  __CPROVER_ensures(ACTX_CLEAR(g_ctx_action) && !g_ctx_invoking.has && !g_ctx_rscg.has)
  __CPROVER_ensures(RS_STATE_WF(self) && !self->plugin_overrode_post_action_delay_ && ghost_log_enabled == 1)
  __CPROVER_ensures(ghost_exc == 0);

#define LOOPC_Ruleset__runOnceImpl_1 \
  __CPROVER_assigns(__begin2, run_actions, g_dg_next, g_first_fired, g_ctx_action, g_ctx_invoking, g_uuid_calls, g_last_uuid, \
                    g_last_now, g_now_calls, g_now_hist0, g_now_hist1) \
  __CPROVER_loop_invariant(__begin2.i <= __begin2.n && __begin2.n == self->detector_groups_.n && __end2.i == __begin2.n) \
  __CPROVER_loop_invariant(g_dg_next == __begin2.i && g_first_fired >= -1 && g_first_fired < (int64_t)__begin2.i) \
  __CPROVER_loop_invariant(run_actions == (g_first_fired >= 0)) \
  __CPROVER_loop_invariant(g_now_calls == (RS_FIRED ? 1 : 0) && g_uuid_calls == (RS_FIRED ? 1 : 0)) \
  __CPROVER_loop_invariant(TP_VALID(g_last_now) && (RS_FIRED ? TP_VALID(g_now_hist0) : 1)) \
  __CPROVER_loop_invariant(RS_FIRED ? (RS_FRESH_CTX(g_ctx_action, self, g_ctx_rscg) && g_ctx_invoking.has && g_ctx_invoking.val == self) : 1) \
  __CPROVER_decreases(__begin2.n - __begin2.i)

#define LOOPC_Ruleset__runOnceImpl_2 \
  __CPROVER_assigns(it) \
  __CPROVER_loop_invariant(it.n == self->action_group_.n && it.i <= (uint64_t)(target - ACTION_BASE) && \
                           (uint64_t)(target - ACTION_BASE) < self->action_group_.n) \
  __CPROVER_decreases(it.n - it.i)

/* prerun: every group and every action of an enabled ruleset exactly once, none when disabled */
void Ruleset__prerun(Ruleset *self, OomdContext context)
  __CPROVER_requires(__CPROVER_is_fresh(self, sizeof(*self)) && RS_WF(self) && g_prerun_dg == 0 && g_prerun_act == 0 && g_prerun_inst == 0 && ghost_exc == 0)
  __CPROVER_assigns(g_prerun_dg, g_prerun_act, g_prerun_inst)
  __CPROVER_ensures(self->enabled_ ? (g_prerun_dg == self->detector_groups_.n && g_prerun_act == self->action_group_.n)
                                   : (g_prerun_dg == 0 && g_prerun_act == 0)) /*@C02*/
  __CPROVER_ensures(ghost_exc == 0);
#define LOOPC_Ruleset__prerun_1 \
  __CPROVER_assigns(__begin2, g_prerun_dg) \
  __CPROVER_loop_invariant(__begin2.i <= __begin2.n && __begin2.n == self->detector_groups_.n && __end2.i == __begin2.n && g_prerun_dg == __begin2.i) \
  __CPROVER_decreases(__begin2.n - __begin2.i)
#define LOOPC_Ruleset__prerun_2 \
  __CPROVER_assigns(__begin2, g_prerun_act) \
  __CPROVER_loop_invariant(__begin2.i <= __begin2.n && __begin2.n == self->action_group_.n && __end2.i == __begin2.n && g_prerun_act == __begin2.i) \
  __CPROVER_decreases(__begin2.n - __begin2.i)

#define LOOPC_Ruleset__prerun_3 \
  __CPROVER_assigns(__begin2, g_prerun_inst) \
  __CPROVER_loop_invariant(__begin2.valid && __begin2.pos <= __begin2.n && __end2.pos == __begin2.n && g_prerun_inst == __begin2.pos) \
  __CPROVER_decreases(__begin2.n - __begin2.pos)

/* ---- C13: drop-in targeting count and enablement ----
 * Inv13: numTargeted_ == number of drop-ins currently targeting this ruleset (>= 0), and
 *        enabled_ == !(disable_on_drop_in_ && numTargeted_ > 0)                                  */
#define INV13(s) ((s)->numTargeted_ >= 0 && ((s)->enabled_ != 0) == !((s)->disable_on_drop_in_ && (s)->numTargeted_ > 0))
void Ruleset__markDropInTargeted(Ruleset *self)
  __CPROVER_requires(__CPROVER_is_fresh(self, sizeof(*self)) && INV13(self) && self->numTargeted_ < 2147483647)
  __CPROVER_assigns(self->numTargeted_, self->enabled_)
  __CPROVER_ensures(self->numTargeted_ == __CPROVER_old(self->numTargeted_) + 1 && INV13(self)); /*@C13*/
void Ruleset__markDropInUntargeted(Ruleset *self)
  __CPROVER_requires(__CPROVER_is_fresh(self, sizeof(*self)) && INV13(self) && self->numTargeted_ >= 1)
  __CPROVER_assigns(self->numTargeted_, self->enabled_)
  __CPROVER_ensures(self->numTargeted_ == __CPROVER_old(self->numTargeted_) - 1 && INV13(self)); /*@C13*/
/* ---- mergeWithDropIn (C13): a drop-in replaces exactly the parts it supplies, and only parts the base opened up ---- */
Ruleset g_dropin_rs;
Ruleset *uptr_Ruleset__resolve(uptr_Ruleset p) { return &g_dropin_rs; }
#define VEQ(a, b) ((a).vid == (b).vid && (a).n == (b).n)
_Bool Ruleset__mergeWithDropIn(Ruleset *self, uptr_Ruleset ruleset)
  __CPROVER_requires(__CPROVER_is_fresh(self, sizeof(*self)) && ghost_exc == 0)
  __CPROVER_assigns(self->detector_groups_, self->action_group_)
  __CPROVER_ensures(__CPROVER_return_value == 0 || __CPROVER_return_value == 1)
  /* refused: no drop-in, or it overrides a part the base did not open up */
  __CPROVER_ensures((__CPROVER_return_value != 0) == (ruleset != 0 && (g_dropin_rs.detector_groups_.n == 0 || self->detectorgroups_dropin_enabled_ != 0) &&
                                                     (g_dropin_rs.action_group_.n == 0 || self->actiongroup_dropin_enabled_ != 0))) /*@C13*/
  /* accepted: supplied parts replaced, the others untouched */
  __CPROVER_ensures(!__CPROVER_return_value || (
      (g_dropin_rs.detector_groups_.n != 0 ? VEQ(self->detector_groups_, g_dropin_rs.detector_groups_) : VEQ(self->detector_groups_, __CPROVER_old(self->detector_groups_))) &&
      (g_dropin_rs.action_group_.n != 0 ? VEQ(self->action_group_, g_dropin_rs.action_group_) : VEQ(self->action_group_, __CPROVER_old(self->action_group_))))) /*@C13*/
  __CPROVER_ensures(ghost_exc == 0);
void h_Ruleset__mergeWithDropIn(void) { Ruleset *self; uptr_Ruleset d; HAVOC(g_dropin_rs); HAVOC(ghost_exc); Ruleset__mergeWithDropIn(self, d); __CPROVER_assert(0, "canary: contract precondition satisfiable and function exit reachable"); }
void h_Ruleset__markDropInTargeted(void) { Ruleset *self; Ruleset__markDropInTargeted(self); __CPROVER_assert(0, "canary: contract precondition satisfiable and function exit reachable"); }
void h_Ruleset__markDropInUntargeted(void) { Ruleset *self; Ruleset__markDropInUntargeted(self); __CPROVER_assert(0, "canary: contract precondition satisfiable and function exit reachable"); }

#define HAVOC_GHOST() do { HAVOC(g_ctx_action); HAVOC(g_ctx_invoking); HAVOC(g_ctx_rscg); HAVOC(g_dg_next); HAVOC(g_first_fired); \
  HAVOC(g_first_action); HAVOC(g_chain_first); HAVOC(g_action_runs); HAVOC(g_last_ret); HAVOC(g_plugin_paused); HAVOC(g_plugin_until); HAVOC(g_now_calls); \
  HAVOC(g_now_hist0); HAVOC(g_now_hist1); HAVOC(g_uuid_calls); HAVOC(g_last_uuid); \
  HAVOC(g_chain_ctx); HAVOC(g_prerun_dg); HAVOC(g_prerun_act); HAVOC(g_prerun_inst); HAVOC(g_last_now); HAVOC(ghost_exc); \
  HAVOC(ghost_log_enabled); } while (0)

void h_Ruleset__pause_actions(void)
{
  Ruleset *self; dur_s_t d;
  HAVOC_GHOST();
  Ruleset__pause_actions(self, d);
  __CPROVER_assert(0, "canary: contract precondition satisfiable and function exit reachable");
}
void h_Ruleset__run_action_chain(void)
{
  Ruleset *self; vecit_uptr_BasePlugin a, b; OomdContext c;
  HAVOC_GHOST();
  g_self = self;
  g_expect_ctx = g_ctx_action;   /* the context at chain entry is what every action must see */
  g_first_action = a.i; g_action_runs = 0;
  Ruleset__run_action_chain(self, a, b, c);
  __CPROVER_assert(0, "canary: contract precondition satisfiable and function exit reachable");
}
void h_Ruleset__runOnceImpl(void)
{
  Ruleset *self; OomdContext c;
  HAVOC_GHOST();
  g_self = self;
  Ruleset__runOnceImpl(self, c);
  __CPROVER_assert(0, "canary: contract precondition satisfiable and function exit reachable");
}
void h_Ruleset__prerun(void)
{
  Ruleset *self; OomdContext c;
  HAVOC_GHOST();
  g_self = self;
  Ruleset__prerun(self, c);
  __CPROVER_assert(0, "canary: contract precondition satisfiable and function exit reachable");
}
