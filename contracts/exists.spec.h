/* Contracts for Exists::run (C08: exists)
 *   CONTINUE <=> (some configured cgroup pattern resolves to at least one existing cgroup) != negate
 */
#include "common.h"
_Bool g_any; uint64_t g_resolved, g_set_n;
uint64_t __CPROVER_uninterpreted_size_uset_CgroupPath(uset_CgroupPath);
uint64_t uset_CgroupPath__size(uset_CgroupPath c)
{
  uint64_t k = __CPROVER_uninterpreted_size_uset_CgroupPath(c);
  __CPROVER_assume(k <= VEC_MAX);
  g_set_n = k;
  return k;
}
vec_CgroupPath nondet_vec_CgroupPath(void);
vec_CgroupPath CgroupPath__resolveWildcard(CgroupPath p)
{
  vec_CgroupPath v = nondet_vec_CgroupPath();
  __CPROVER_assume(v.n <= VEC_MAX);
  if (v.n > 0) g_any = 1;
  g_resolved = g_resolved + 1;
  return v;
}
PluginRet Exists__run(Exists *self, OomdContext ctx)
  __CPROVER_requires(__CPROVER_is_fresh(self, sizeof(*self)) && ghost_exc == 0 && !g_any && g_resolved == 0)
  __CPROVER_assigns(g_any, g_resolved, g_set_n)
  __CPROVER_ensures((__CPROVER_return_value == PluginRet__CONTINUE) == ((g_any != 0) != (self->negate_ != 0)))
  __CPROVER_ensures(__CPROVER_return_value == PluginRet__CONTINUE || __CPROVER_return_value == PluginRet__STOP)
  /* a negative answer is only given after every pattern was tried */
  __CPROVER_ensures(g_any || g_resolved == g_set_n)
  __CPROVER_ensures(ghost_exc == 0);
#define LOOPC_Exists__run_1 \
  __CPROVER_assigns(__begin1, exists, g_any, g_resolved) \
  __CPROVER_loop_invariant(__begin1.pos <= __begin1.n && __begin1.n == __end1.pos && __begin1.valid && \
                           __begin1.n == g_set_n && __begin1.n <= VEC_MAX) \
  __CPROVER_loop_invariant(!exists && !g_any && g_resolved == __begin1.pos) \
  __CPROVER_decreases(__begin1.n - __begin1.pos)
void h_Exists__run(void)
{
  Exists *self; OomdContext ctx;
  HAVOC(g_any); HAVOC(g_resolved); HAVOC(ghost_exc);
  Exists__run(self, ctx);
  __CPROVER_assert(0, "canary: contract precondition satisfiable and function exit reachable");
}
