/* Contracts for Exists::run (C08: exists)
 *   CONTINUE <=> (some configured cgroup pattern resolves to at least one existing cgroup) != negate
 */
#include "common.h"
_Bool g_any; uint64_t g_resolved, g_set_n;
uint64_t __CPROVER_uninterpreted_size_uset_CgroupPath(uset_CgroupPath);
uint64_t uset_CgroupPath__size(uset_CgroupPath c)
{
  uint64_t k = __CPROVER_uninterpreted_size_uset_CgroupPath(c);
  __CPROVER_assume(k <= VEC_MAX);
  g_set_n = k;
  return k;
}
vec_CgroupPath nondet_vec_CgroupPath(void);
vec_CgroupPath CgroupPath__resolveWildcard(CgroupPath p)
{
  vec_CgroupPath v = nondet_vec_CgroupPath();
  __CPROVER_assume(v.n <= VEC_MAX);
  if (v.n > 0) g_any = 1;
  g_resolved = g_resolved + 1;
  return v;
}
PluginRet Exists__run(Exists *self, OomdContext ctx)
  __CPROVER_requires(__CPROVER_is_fresh(self, sizeof(*self)) && ghost_exc == 0 && !g_any && g_resolved == 0)
  __CPROVER_assigns(g_any, g_resolved, g_set_n)
  __CPROVER_ensures((__CPROVER_return_value == PluginRet__CONTINUE) == ((g_any != 0) != (self->negate_ != 0)))
  __CPROVER_ensures(__CPROVER_return_value == PluginRet__CONTINUE || __CPROVER_return_value == PluginRet__STOP)
  /* a negative answer is only given after every pattern was tried */
  __CPROVER_ensures(g_any || g_resolved == g_set_n)
  __CPROVER_ensures(ghost_exc == 0);
#define LOOPC_Exists__run_1 \
  __CPROVER_assigns(__begin1, exists, g_any, g_resolved) \
  __CPROVER_loop_invariant(__begin1.pos <= __begin1.n && __begin1.n == __end1.pos && __begin1.valid && \
                           __begin1.n == g_set_n && __begin1.n <= VEC_MAX) \
  __CPROVER_loop_invariant(!exists && !g_any && g_resolved == __begin1.pos) \
  __CPROVER_decreases(__begin1.n - __begin1.pos)
void h_Exists__run(void)
{
  Exists *self; OomdContext ctx;
  HAVOC(g_any); HAVOC(g_resolved); HAVOC(ghost_exc);
  Exists__run(self, ctx);
  __CPROVER_assert(0, "canary: contract precondition satisfiable and function exit reachable");
}

/* ================= init(): the arguments this plugin declares (C12) =================
 * Names and required flags as documented in docs/core_plugins.md, with one deliberate difference: `cgroup` is declared
 * optional by every plugin except senpai, because a ruleset-level `cgroup` supplies it per instance
 * (Ruleset::registerRunnableRulesetForCgroupPath, unit ruleset_cgroup). */
#include "init_common.h"
DEF_PARSE(PluginArgParser)
uset_CgroupPath PluginArgParser__parseCgroup(PluginConstructionContext c, str_t s);
void PluginArgParser__addArgumentCustom__str_t_uset_CgroupPath_function_t__Bool(PluginArgParser p, str_t name, uset_CgroupPath dest, function_t fn, _Bool required)
{ __CPROVER_assert(fn == (function_t)7, "the cgroup argument is parsed by PluginArgParser::parseCgroup with this plugin's construction context"); REG(name, (const void *)(long)dest, required, 1); }
#define lambda_bind__Exists__init__lambda_addArgumentCustom(ctx) ((lambda_t)7)
void PluginArgParser__addArgument__str_t__Bool__Bool(PluginArgParser p, str_t name, _Bool *dest, _Bool required) { REG(name, dest, required, 0); }
int Exists__init(Exists *self, umap_str_t_str_t args, PluginConstructionContext context)
  __CPROVER_requires(__CPROVER_is_fresh(self, sizeof(*self)) && ghost_exc == 0 && g_reg_n == 0 && g_parse_calls == 0)
  __CPROVER_assigns(REG_ASSIGNS)
  __CPROVER_ensures(INIT_CORE(3)) /*@C12*/
  __CPROVER_ensures(HASREG(STR_cgroup, (long)self->cgroups_, 0) && HASREG(STR_negate, &self->negate_, 0) && HASREG(STR_debug, &self->debug_, 0)) /*@C12,C08*/
  __CPROVER_ensures(ghost_exc == 0);
void h_Exists__init(void) { Exists *self; umap_str_t_str_t a; PluginConstructionContext c; HAVOC_REG(); HAVOC(ghost_exc); Exists__init(self, a, c); __CPROVER_assert(0, "canary: contract precondition satisfiable and function exit reachable"); }
