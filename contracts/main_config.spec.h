/* Main.cpp parseConfig (C12): loading the main configuration file either yields an IR or is REJECTED WITH AN ERROR RESULT
 * (nullptr: --check-config exits 1, the daemon exits EXIT_CANT_RECOVER) - never an uncaught exception.
 * JsonConfigParser::parse throws std::runtime_error for malformed JSON text and jsoncpp's Json::LogicError for a value of
 * the wrong JSON type ("rulesets": [5], "name": ["x"]); both are ordinary ways for a configuration text to be wrong. */
#include "common.h"
_Bool nondet_bool(void);
#define in 8      /* std::ios::in */
_Bool g_open_ok, g_parse_throws, g_parse_null; uint64_t g_parses;
ifstream_t ifstream_t__from__str_t_int(str_t path, int mode) { return (ifstream_t)1; }
_Bool ifstream_t__is_open(ifstream_t f) { return g_open_ok; }
Config2_JsonConfigParser Config2_JsonConfigParser__ctor0(void) { return (Config2_JsonConfigParser)1; }
uptr_Config2_IR_Root Config2_JsonConfigParser__parse(Config2_JsonConfigParser p, log_t text)
{ g_parses = g_parses + 1; if (g_parse_throws) { ghost_exc = nondet_bool() ? EXC_runtime_error : EXC_Json__Exception; return 0; } return g_parse_null ? 0 : (uptr_Config2_IR_Root)5; }

uptr_Config2_IR_Root parseConfig(str_t flag_conf_file)
  __CPROVER_requires(ghost_exc == 0 && (g_open_ok == 0 || g_open_ok == 1) && (g_parse_throws == 0 || g_parse_throws == 1) && (g_parse_null == 0 || g_parse_null == 1) && g_parses == 0)
  __CPROVER_assigns(ghost_exc, ghost_exc_caught, g_parses)
  /* a configuration text the parser cannot digest is an error RESULT, not an exception */ /*@C12*/
  __CPROVER_ensures(ghost_exc == 0)
  __CPROVER_ensures((__CPROVER_return_value != 0) == (g_open_ok && !g_parse_throws && !g_parse_null))
  __CPROVER_ensures(__CPROVER_return_value != 0 ? __CPROVER_return_value == (uptr_Config2_IR_Root)5 : 1)
  __CPROVER_ensures(g_parses == (g_open_ok ? 1 : 0));
#define CANARY __CPROVER_assert(0, "canary: contract precondition satisfiable and function exit reachable")
void h_parseConfig(void) { str_t f; HAVOC(g_open_ok); HAVOC(g_parse_throws); HAVOC(g_parse_null); HAVOC(ghost_exc); g_parses = 0; parseConfig(f); CANARY; }
