/* FsDropInService (the sequential part of drop-in handling; C12 "rejected cleanly", C13 "refused as a whole"):
 *   processDropInAdd    dot-files and empty names are ignored; an unreadable, unparsable (parser throws or returns null)
 *                       file schedules nothing and raises nothing; a parsed file is handed to scheduleDropInAdd once
 *   processDropInRemove dot-files/empty ignored; otherwise exactly one scheduleDropInRemove of that name
 *   prepDropInWatcher   the files present at start-up are processed once each, in sorted name order, under the
 *                       event-loop lock, which is released on every path
 * The watcher thread, inotify decoding and the interleaving with the main loop (property C14) are NOT modelled. */
#include "common.h"
_Bool nondet_bool(void); int nondet_int(void); str_t nondet_str(void);
#define in 8      /* std::ios::in */
uint64_t __CPROVER_uninterpreted_strlen(str_t); char __CPROVER_uninterpreted_char0(str_t);
uint64_t str_t__size(str_t s) { return __CPROVER_uninterpreted_strlen(s); }
_Bool str_t__empty(str_t s) { return __CPROVER_uninterpreted_strlen(s) == 0; }
char str_t__at(str_t s, uint64_t i) { if (!(i < __CPROVER_uninterpreted_strlen(s))) ghost_exc = EXC_out_of_range; return __CPROVER_uninterpreted_char0(s); }
#define IGNORED(f) (__CPROVER_uninterpreted_strlen(f) == 0 || __CPROVER_uninterpreted_char0(f) == '.')
str_t str_t__op_add__char(str_t a, char c) { return nondet_str(); }
str_t str_t__op_add(str_t a, str_t b) { return nondet_str(); }
_Bool g_open_ok, g_parse_throws, g_parse_null; uint64_t g_adds, g_removes, g_parses; str_t g_added_name, g_removed_name; uptr_Config2_IR_Root g_added_root;
ifstream_t ifstream_t__from__str_t_int(str_t path, int mode) { return (ifstream_t)1; }
_Bool ifstream_t__is_open(ifstream_t f) { return g_open_ok; }
Config2_JsonConfigParser Config2_JsonConfigParser__ctor0(void) { return (Config2_JsonConfigParser)1; }
uptr_Config2_IR_Root Config2_JsonConfigParser__parse(Config2_JsonConfigParser p, log_t text)
{ g_parses = g_parses + 1; if (g_parse_throws) { ghost_exc = nondet_bool() ? EXC_runtime_error : EXC_Json__Exception; return 0; } return g_parse_null ? 0 : (uptr_Config2_IR_Root)5; }
Config2_IR_Root uptr_Config2_IR_Root__op_deref(uptr_Config2_IR_Root p) { __CPROVER_assert(p != 0, "UB: null unique_ptr dereferenced"); return (Config2_IR_Root)p; }
/* DropInServiceAdaptor::scheduleDropInAdd compiles and queues; it reports failure by its result (contracts in units
 * dropin_adaptor / config_compiler: no exception) */
_Bool DropInServiceAdaptor__scheduleDropInAdd(FsDropInService *self, str_t tag, Config2_IR_Root root) { g_adds = g_adds + 1; g_added_name = tag; g_added_root = (uptr_Config2_IR_Root)root; return nondet_bool(); }
void DropInServiceAdaptor__scheduleDropInRemove(FsDropInService *self, str_t tag) { g_removes = g_removes + 1; g_removed_name = tag; }
#define CONTRACT_processDropInAdd \
  __CPROVER_requires(__CPROVER_is_fresh(self, sizeof(*self)) && ghost_exc == 0 && (g_open_ok == 0 || g_open_ok == 1) && (g_parse_throws == 0 || g_parse_throws == 1) && (g_parse_null == 0 || g_parse_null == 1)) \
  __CPROVER_assigns(ghost_exc, ghost_exc_caught, g_adds, g_parses, g_added_name, g_added_root) \
  __CPROVER_ensures(ghost_exc == 0) /*@C12*/ \
  __CPROVER_ensures((!IGNORED(file) && g_open_ok && !g_parse_throws && !g_parse_null) \
      ? (g_adds == __CPROVER_old(g_adds) + 1 && g_added_name == file && g_added_root == (uptr_Config2_IR_Root)5) : g_adds == __CPROVER_old(g_adds)) /*@C12,C13*/
void FsDropInService__processDropInAdd(FsDropInService *self, str_t file) CONTRACT_processDropInAdd;
void FsDropInService__processDropInRemove(FsDropInService *self, str_t file)
  __CPROVER_requires(ghost_exc == 0) __CPROVER_assigns(ghost_exc, g_removes, g_removed_name)
  __CPROVER_ensures(ghost_exc == 0 && (IGNORED(file) ? g_removes == __CPROVER_old(g_removes) : (g_removes == __CPROVER_old(g_removes) + 1 && g_removed_name == file))) /*@C13*/;
/* start-up */
_Bool g_is_dir, g_loop_ok, g_readdir_ok, g_sorted, g_held; uint64_t g_nfiles, g_visits;
_Bool Fs__isDir(str_t d) { return g_is_dir; }
void mutex_lock(mutex_t m) { __CPROVER_assert(!g_held, "no double lock"); g_held = 1; }
void mutex_unlock(mutex_t m) { __CPROVER_assert(g_held, "unlock of a held lock"); g_held = 0; }
int FsDropInService__prepDropInWatcherEventLoop(FsDropInService *self, str_t d) { __CPROVER_assert(g_held, "the watcher is (re)registered under event_loop_mutex_"); return g_loop_ok ? 0 : 1; }
maybe_Fs_DirEnts Fs__readDir(str_t d, int flags) { maybe_Fs_DirEnts r; r.ok = g_readdir_ok; r.err = g_readdir_ok ? 0 : 2; r.val.files.vid = 3; r.val.files.n = g_nfiles; r.val.dirs.vid = 4; return r; }
void ext__sort__vecit_str_t_vecit_str_t(vecit_str_t b, vecit_str_t e) { __CPROVER_assert(b.vid == 3 && b.i == 0 && e.i == e.n, "the whole file list is sorted"); g_sorted = 1; }
str_t __CPROVER_uninterpreted_fname(uint64_t);
str_t vec_str_t__elem(uint64_t vid, uint64_t i)
{ __CPROVER_assert(g_sorted && i == g_visits, "files are processed once each, in the sorted order"); /*@C13*/ g_visits = g_visits + 1; return __CPROVER_uninterpreted_fname(i); }
#define LOOPC_FsDropInService__prepDropInWatcher_1 \
  __CPROVER_assigns(__begin2, g_visits, ghost_exc, ghost_exc_caught, g_adds, g_parses, g_added_name, g_added_root) \
  __CPROVER_loop_invariant(__begin2.vid == 3 && __end2.vid == 3 && __begin2.n == g_nfiles && __end2.n == g_nfiles && __end2.i == g_nfiles && __begin2.i <= g_nfiles && g_visits == __begin2.i && g_held && ghost_exc == 0) \
  __CPROVER_decreases(g_nfiles - __begin2.i)
int FsDropInService__prepDropInWatcher(FsDropInService *self, str_t dir)
  __CPROVER_requires(__CPROVER_is_fresh(self, sizeof(*self)) && ghost_exc == 0 && !g_held && !g_sorted && g_visits == 0 && g_nfiles <= VEC_MAX)
  __CPROVER_requires((g_open_ok == 0 || g_open_ok == 1) && (g_parse_throws == 0 || g_parse_throws == 1) && (g_parse_null == 0 || g_parse_null == 1))
  __CPROVER_assigns(ghost_exc, ghost_exc_caught, g_adds, g_parses, g_added_name, g_added_root, g_held, g_sorted, g_visits)
  __CPROVER_ensures(!g_held && ghost_exc == 0)
  __CPROVER_ensures((__CPROVER_return_value == 0) == (g_is_dir && g_loop_ok))
  __CPROVER_ensures(!(g_is_dir && g_loop_ok && g_readdir_ok) || g_visits == g_nfiles) /*@C13*/;
#define CANARY __CPROVER_assert(0, "canary: contract precondition satisfiable and function exit reachable")
#define HAVOC_DI() do { HAVOC(ghost_exc); HAVOC(g_open_ok); HAVOC(g_parse_throws); HAVOC(g_parse_null); HAVOC(g_adds); HAVOC(g_removes); HAVOC(g_parses); HAVOC(g_is_dir); HAVOC(g_loop_ok); HAVOC(g_readdir_ok); \
  HAVOC(g_sorted); HAVOC(g_held); HAVOC(g_nfiles); HAVOC(g_visits); } while (0)
void h_add(void) { FsDropInService *s; str_t f; HAVOC_DI(); FsDropInService__processDropInAdd(s, f); CANARY; }
void h_remove(void) { FsDropInService *s; str_t f; HAVOC_DI(); FsDropInService__processDropInRemove(s, f); CANARY; }
void h_prep(void) { FsDropInService *s; str_t d; HAVOC_DI(); FsDropInService__prepDropInWatcher(s, d); CANARY; }
