/* Contracts for CgroupContext (C15): per-tick caching, the archive written by refresh(), the temporal
 * recurrences and the derived formulas.
 *
 * Objects: `self` owns data_ (handle 1 -> g_data); its parent context (when one is looked up) is g_parent with
 * data_ handle 2 -> g_pdata.  Accessors of OTHER contexts / of fields not under proof here are stubs returning
 * one fixed value per tick (g_acc_*), which is what the per-tick cache guarantees for them.
 * Float arithmetic is uninterpreted (same term in code and spec). */
#include "common.h"
_Bool nondet_bool(void); int64_t nondet_i64(void); opt_int64_t nondet_opt_i64(void);
CgroupContext_CgroupData g_data, g_pdata, g_sibdata;
CgroupContext g_parent; CgroupContext *g_selfp;
CgroupContext_CgroupData *uptr_CgroupContext_CgroupData__resolve(uptr_CgroupContext_CgroupData p)
{ __CPROVER_assert(p == 1 || p == 2 || p == 3, "data_ of self, of the parent context or of the sibling being visited"); return p == 1 ? &g_data : (p == 2 ? &g_pdata : &g_sibdata); }
SystemContext g_sys; ContextParams g_params;
SystemContext *OomdContext__getSystemContext(OomdContext c) { return &g_sys; }
ContextParams *OomdContext__getParams(OomdContext c) { return &g_params; }
_Bool g_is_root, g_parent_is_root, g_valid; uint64_t g_valid_calls;
_Bool Fs__isCgroupValid(Fs_DirFd d) { g_valid_calls = g_valid_calls + 1; return g_valid; }
_Bool CgroupPath__isRoot(CgroupPath p) { return p == (CgroupPath)0 ? 1 : (p == (CgroupPath)10 ? g_is_root : g_parent_is_root); }
CgroupPath CgroupPath__getParent(CgroupPath p) { return (CgroupPath)20; }
opt_CgroupContext__ g_parent_lookup;
opt_CgroupContext__ OomdContext__addToCacheAndGet__CgroupPath(OomdContext c, CgroupPath p) { return g_parent_lookup; }

/* ---- refresh: archive' = the three temporal inputs AS THEY WERE (unset stays unset), cache cleared ---- */
#define HAS(o) ((o).has != 0)
#define OPT_I64_EQ(a, b) (HAS(a) == HAS(b) && (!HAS(a) || (a).val == (b).val))
#define OPT_D_EQ(a, b) (HAS(a) == HAS(b) && (!HAS(a) || __CPROVER_equal((a).val, (b).val)))
_Bool CgroupContext__refresh(CgroupContext *self)
  __CPROVER_requires(__CPROVER_is_fresh(self, sizeof(*self)) && self->data_ == 1 && ghost_exc == 0 && g_valid_calls == 0)
  __CPROVER_assigns(self->archive_, g_data, g_valid_calls)
  __CPROVER_ensures(OPT_I64_EQ(self->archive_.average_usage, __CPROVER_old(g_data.average_usage)) &&
                    OPT_D_EQ(self->archive_.io_cost_cumulative, __CPROVER_old(g_data.io_cost_cumulative)) &&
                    OPT_I64_EQ(self->archive_.pg_scan_cumulative, __CPROVER_old(g_data.pg_scan_cumulative))) /*@C15*/
  /* a new tick re-reads everything */
  __CPROVER_ensures(!g_data.current_usage.has && !g_data.swap_usage.has && !g_data.memory_low.has && !g_data.memory_min.has && !g_data.memory_max.has &&
                    !g_data.memory_high.has && !g_data.mem_pressure.has && !g_data.io_pressure.has && !g_data.memory_stat.has && !g_data.io_stat.has &&
                    !g_data.children.has && !g_data.id.has && !g_data.is_populated.has && !g_data.kill_preference.has && !g_data.oom_group.has &&
                    !g_data.swap_max.has && !g_data.effective_swap_max.has && !g_data.effective_swap_free.has && !g_data.effective_swap_util_pct.has &&
                    !g_data.memory_protection.has && !g_data.io_cost_cumulative.has && !g_data.pg_scan_cumulative.has && !g_data.average_usage.has &&
                    !g_data.io_cost_rate.has && !g_data.pg_scan_rate.has && !g_data.nr_dying_descendants.has && !g_data.mem_pressure_some.has &&
                    !g_data.io_pressure_some.has && !g_data.memory_high_tmp.has)
  __CPROVER_ensures((__CPROVER_return_value != 0) == (g_valid != 0) && g_valid_calls == 1 && ghost_exc == 0);

/* ---- the per-tick cache (PROXY macro), on current_usage ---- */
uint64_t g_computes; opt_int64_t g_computed;
opt_int64_t g_sib_cur, g_sib_min, g_sib_low;      /* the statistics of the sibling currently visited by getMemoryProtection */
#define SIB ((CgroupPath)30)
opt_int64_t CgroupContext__getMemcurrent(CgroupContext *self) { if (self->cgroup_ == SIB) return g_sib_cur; g_computes = g_computes + 1; g_computed = nondet_opt_i64(); return g_computed; }
/* the anonymous-namespace helper `proxy(T val, S& field, Error* err)` (ASSUMED as written in the source) */
void proxy__opt_int64_t_opt_int64_t_CgroupContext_Error__(opt_int64_t val, opt_int64_t *field, CgroupContext_Error *err)
{ *field = val; if (!field->has && err) *err = CgroupContext_Error__INVALID_CGROUP; }
#define CONTRACT_current_usage \
  __CPROVER_requires(self->data_ == 1 && self->cgroup_ != SIB && ghost_exc == 0) \
  __CPROVER_assigns(g_data.current_usage, g_computes, g_computed; err != 0: *err) \
  /* obtained once: a cached value is returned as is and nothing is recomputed */ /*@C15*/ \
  __CPROVER_ensures(__CPROVER_old(g_data.current_usage.has) ? (g_computes == __CPROVER_old(g_computes) && OPT_I64_EQ(g_data.current_usage, __CPROVER_old(g_data.current_usage))) \
                                                            : (g_computes == __CPROVER_old(g_computes) + 1 && OPT_I64_EQ(g_data.current_usage, g_computed))) \
  __CPROVER_ensures(OPT_I64_EQ(__CPROVER_return_value, g_data.current_usage) && ghost_exc == 0)
opt_int64_t CgroupContext__current_usage(CgroupContext *self, CgroupContext_Error *err)
  __CPROVER_requires(__CPROVER_is_fresh(self, sizeof(*self)) && (err == 0 || __CPROVER_is_fresh(err, sizeof(*err)))) CONTRACT_current_usage;

/* other accessors: one fixed answer per tick */
opt_int64_t g_acc_cur, g_acc_avg, g_acc_prot, g_acc_pgscan, g_acc_swap_max, g_acc_swap_usage, g_acc_min, g_acc_low, g_par_swap_max_eff, g_par_swap_free_eff, g_par_prot;
opt_double g_acc_iocost, g_par_swap_util_eff;
opt_double CgroupContext__io_cost_cumulative(CgroupContext *s, CgroupContext_Error *e) { return g_acc_iocost; }
opt_int64_t CgroupContext__pg_scan_cumulative(CgroupContext *s, CgroupContext_Error *e) { return g_acc_pgscan; }
opt_int64_t CgroupContext__average_usage(CgroupContext *s, CgroupContext_Error *e) { return g_acc_avg; }
opt_int64_t CgroupContext__memory_protection(CgroupContext *s, CgroupContext_Error *e) { return s->cgroup_ == (CgroupPath)20 ? g_par_prot : g_acc_prot; }
opt_int64_t CgroupContext__swap_max(CgroupContext *s, CgroupContext_Error *e) { return g_acc_swap_max; }
opt_int64_t CgroupContext__swap_usage(CgroupContext *s, CgroupContext_Error *e) { return g_acc_swap_usage; }
opt_int64_t CgroupContext__memory_min(CgroupContext *s, CgroupContext_Error *e) { return s->cgroup_ == SIB ? g_sib_min : g_acc_min; }
opt_int64_t CgroupContext__memory_low(CgroupContext *s, CgroupContext_Error *e) { return s->cgroup_ == SIB ? g_sib_low : g_acc_low; }
opt_int64_t CgroupContext__effective_swap_max(CgroupContext *s, CgroupContext_Error *e) { __CPROVER_assert(s == &g_parent, "the parent's value is asked"); return g_par_swap_max_eff; }
opt_int64_t CgroupContext__effective_swap_free(CgroupContext *s, CgroupContext_Error *e) { __CPROVER_assert(s == &g_parent, "the parent's value is asked"); return g_par_swap_free_eff; }
opt_double CgroupContext__effective_swap_util_pct(CgroupContext *s, CgroupContext_Error *e) { __CPROVER_assert(s == &g_parent, "the parent's value is asked"); return g_par_swap_util_eff; }
#define BYTES(o) (!(o).has || ((o).val >= 0 && (o).val <= (1L << 56)))
#define ACC_WF (BYTES(g_acc_cur) && BYTES(g_acc_avg) && BYTES(g_acc_prot) && BYTES(g_acc_pgscan) && BYTES(g_acc_swap_usage) && BYTES(g_acc_min) && BYTES(g_acc_low) && \
  (!g_acc_swap_max.has || g_acc_swap_max.val >= 0) && g_sys.swaptotal <= (1UL << 56) && g_sys.swapused <= g_sys.swaptotal && \
  (!g_par_swap_free_eff.has || (g_par_swap_free_eff.val >= -(1L << 62) && g_par_swap_free_eff.val <= (1L << 62))))
#define CUR_IS_ACC (g_data.current_usage.has && OPT_I64_EQ(g_data.current_usage, g_acc_cur))   /* current_usage already cached this tick */
#define FN_REQ __CPROVER_requires(__CPROVER_is_fresh(self, sizeof(*self)) && self->data_ == 1 && self->cgroup_ == (CgroupPath)10 && ghost_exc == 0 && ACC_WF && \
                                  (err == 0 || __CPROVER_is_fresh(err, sizeof(*err))))

/* moving average: avg' = prev * ((decay-1)/decay) + cur/decay, prev = archived average or 0 */
opt_int64_t CgroupContext__getAverageUsage(CgroupContext *self, CgroupContext_Error *err)
  FN_REQ __CPROVER_requires(BYTES(self->archive_.average_usage) && (!g_data.current_usage.has || BYTES(g_data.current_usage)))
  __CPROVER_assigns(g_data.current_usage, g_computes, g_computed; err != 0: *err)
  __CPROVER_ensures(HAS(__CPROVER_return_value) == HAS(g_data.current_usage))
  __CPROVER_ensures(__CPROVER_return_value.has ? __CPROVER_return_value.val == F2I_i64(F_ADD_d(
        F_MUL_d((double)(self->archive_.average_usage.has ? self->archive_.average_usage.val : 0), F_DIV_d(F_SUB_d(g_params.average_size_decay, (double)1), g_params.average_size_decay)),
        F_DIV_d((double)g_data.current_usage.val, g_params.average_size_decay))) : 1) /*@C15*/
  __CPROVER_ensures(ghost_exc == 0);
/* io cost rate: 0 on the first tick with data, else the per-tick delta */
opt_double CgroupContext__getIoCostRate(CgroupContext *self, CgroupContext_Error *err)
  FN_REQ
  __CPROVER_assigns(err != 0: *err)
  __CPROVER_ensures(HAS(__CPROVER_return_value) == HAS(g_acc_iocost))
  __CPROVER_ensures(__CPROVER_return_value.has ? (self->archive_.io_cost_cumulative.has
        ? __CPROVER_equal(__CPROVER_return_value.val, F_SUB_d(g_acc_iocost.val, self->archive_.io_cost_cumulative.val)) : __CPROVER_return_value.val == 0.0) : 1) /*@C15*/
  __CPROVER_ensures(ghost_exc == 0);
/* pgscan rate: delta to the previous tick, unavailable without a previous tick */
opt_int64_t CgroupContext__getPgScanRate(CgroupContext *self, CgroupContext_Error *err)
  FN_REQ __CPROVER_requires(BYTES(self->archive_.pg_scan_cumulative))
  __CPROVER_assigns(err != 0: *err)
  __CPROVER_ensures(HAS(__CPROVER_return_value) == (g_acc_pgscan.has && self->archive_.pg_scan_cumulative.has))
  __CPROVER_ensures(__CPROVER_return_value.has ? __CPROVER_return_value.val == g_acc_pgscan.val - self->archive_.pg_scan_cumulative.val : 1) /*@C15*/
  __CPROVER_ensures(ghost_exc == 0);
/* effective usage = usage * scale - protection + adj */
opt_int64_t CgroupContext__effective_usage(CgroupContext *self, CgroupContext_Error *err, int64_t memory_scale, int64_t memory_adj)
  FN_REQ __CPROVER_requires(CUR_IS_ACC && memory_adj >= -(1L << 56) && memory_adj <= (1L << 56) && I_MUL_i64(g_acc_cur.val, memory_scale) >= -(1L << 60) && I_MUL_i64(g_acc_cur.val, memory_scale) <= (1L << 60) /* ASSUMED: usage*scale does not overflow */)
  __CPROVER_assigns(g_data.current_usage, g_computes, g_computed; err != 0: *err)
  __CPROVER_ensures(HAS(__CPROVER_return_value) == (HAS(g_acc_cur) && HAS(g_acc_prot))) /*@C15*/
  __CPROVER_ensures(HAS(__CPROVER_return_value) ? __CPROVER_return_value.val == I_MUL_i64(g_acc_cur.val, memory_scale) - g_acc_prot.val + memory_adj : 1) /*@C15*/
  __CPROVER_ensures(ghost_exc == 0);
/* effective swap max = min(parent's effective max, own max); the root's is SwapTotal */
opt_int64_t CgroupContext__getEffectiveSwapMax(CgroupContext *self, CgroupContext_Error *err)
  FN_REQ __CPROVER_requires(!g_parent_lookup.has || g_parent_lookup.val == &g_parent)
  __CPROVER_assigns(ghost_exc; err != 0: *err)
  __CPROVER_ensures(g_is_root ? (__CPROVER_return_value.has && __CPROVER_return_value.val == (int64_t)g_sys.swaptotal)
     : ((g_parent_lookup.has && g_par_swap_max_eff.has && g_acc_swap_max.has)
          ? (__CPROVER_return_value.has && __CPROVER_return_value.val == (g_acc_swap_max.val < g_par_swap_max_eff.val ? g_acc_swap_max.val : g_par_swap_max_eff.val))
          : !__CPROVER_return_value.has)) /*@C15*/
  __CPROVER_ensures(ghost_exc == 0);
/* effective swap free = min(parent's effective free, own max - own usage); root: SwapTotal - SwapUsed */
opt_int64_t CgroupContext__getEffectiveSwapFree(CgroupContext *self, CgroupContext_Error *err)
  FN_REQ __CPROVER_requires((!g_parent_lookup.has || g_parent_lookup.val == &g_parent) && (!g_acc_swap_max.has || g_acc_swap_max.val <= (1L << 62)))
  __CPROVER_assigns(ghost_exc; err != 0: *err)
  __CPROVER_ensures(g_is_root ? (__CPROVER_return_value.has && __CPROVER_return_value.val == (int64_t)(g_sys.swaptotal - g_sys.swapused))
     : ((g_parent_lookup.has && g_par_swap_free_eff.has && g_acc_swap_max.has && g_acc_swap_usage.has)
          ? (__CPROVER_return_value.has && __CPROVER_return_value.val ==
               ((g_acc_swap_max.val - g_acc_swap_usage.val) < g_par_swap_free_eff.val ? (g_acc_swap_max.val - g_acc_swap_usage.val) : g_par_swap_free_eff.val))
          : !__CPROVER_return_value.has)) /*@C15*/
  __CPROVER_ensures(ghost_exc == 0);
/* effective swap utilisation = max(parent's, own usage / own max); 0 when own max is 0; root: used/total or 0 without swap */
opt_double CgroupContext__getEffectiveSwapUtilPct(CgroupContext *self, CgroupContext_Error *err)
  FN_REQ __CPROVER_requires((!g_parent_lookup.has || g_parent_lookup.val == &g_parent) && (!g_par_swap_util_eff.has || (g_par_swap_util_eff.val >= 0.0 && g_par_swap_util_eff.val <= 1.0e6)))
  __CPROVER_assigns(ghost_exc; err != 0: *err)
  __CPROVER_ensures(g_is_root ? (__CPROVER_return_value.has && (g_sys.swaptotal == 0 ? __CPROVER_return_value.val == 0.0
                                   : __CPROVER_equal(__CPROVER_return_value.val, F_DIV_d((double)g_sys.swapused, (double)g_sys.swaptotal))))
     : (!g_acc_swap_max.has ? !__CPROVER_return_value.has
        : (g_acc_swap_max.val == 0 ? (__CPROVER_return_value.has && __CPROVER_return_value.val == 0.0)
           : ((g_acc_swap_usage.has && g_parent_lookup.has && g_par_swap_util_eff.has)
                ? (__CPROVER_return_value.has && (__CPROVER_equal(__CPROVER_return_value.val, g_par_swap_util_eff.val) ||
                     __CPROVER_equal(__CPROVER_return_value.val, F_DIV_d((double)g_acc_swap_usage.val, (double)g_acc_swap_max.val))) &&
                   !(__CPROVER_return_value.val < g_par_swap_util_eff.val) &&
                   !(__CPROVER_return_value.val < F_DIV_d((double)g_acc_swap_usage.val, (double)g_acc_swap_max.val)))
                : !__CPROVER_return_value.has)))) /*@C15*/
  __CPROVER_ensures(ghost_exc == 0);
#define RAWEXP (g_acc_cur.val < (g_acc_min.val < g_acc_low.val ? g_acc_low.val : g_acc_min.val) ? g_acc_cur.val : (g_acc_min.val < g_acc_low.val ? g_acc_low.val : g_acc_min.val))
int64_t g_raw_expected;   /* R of ctx, fixed by the harness from the accessor values */
/* R = min(current, max(min, low)) - unavailable if any input is */
opt_int64_t rawProtection(CgroupContext ctx, CgroupContext_Error *err)
  __CPROVER_requires(ctx.data_ == 1 && ctx.cgroup_ == (CgroupPath)10 && ghost_exc == 0 && ACC_WF && CUR_IS_ACC && (err == 0 || __CPROVER_is_fresh(err, sizeof(*err))))
  __CPROVER_assigns(g_data.current_usage, g_computes, g_computed; err != 0: *err)
  __CPROVER_ensures(HAS(__CPROVER_return_value) == (g_acc_cur.has && g_acc_min.has && g_acc_low.has))
  __CPROVER_ensures(__CPROVER_return_value.has ? __CPROVER_return_value.val ==
      (g_acc_cur.val < (g_acc_min.val < g_acc_low.val ? g_acc_low.val : g_acc_min.val) ? g_acc_cur.val : (g_acc_min.val < g_acc_low.val ? g_acc_low.val : g_acc_min.val)) : 1) /*@C15*/
  __CPROVER_ensures(ghost_exc == 0);
/* P = R * min(1.0, P_parent / sum of the siblings' R); sum 0 => 0 */
opt_int64_t normalizedProtection(CgroupContext ctx, CgroupContext parent_ctx, int64_t protection_sum, CgroupContext_Error *err)
  __CPROVER_requires(ctx.data_ == 1 && ctx.cgroup_ == (CgroupPath)10 && parent_ctx.cgroup_ == (CgroupPath)20 && ghost_exc == 0 && ACC_WF && CUR_IS_ACC && BYTES(g_par_prot) && (err == 0 || __CPROVER_is_fresh(err, sizeof(*err))))
  __CPROVER_assigns(g_data.current_usage, g_computes, g_computed; err != 0: *err)
  __CPROVER_ensures(protection_sum == 0 ? (__CPROVER_return_value.has && __CPROVER_return_value.val == 0)
     : ((g_acc_cur.has && g_acc_min.has && g_acc_low.has && g_par_prot.has)
          ? (__CPROVER_return_value.has && __CPROVER_return_value.val == F2I_i64(F_MUL_d((double)g_raw_expected,
                ((F_DIV_d(F_MUL_d(1.0, (double)g_par_prot.val), (double)protection_sum) < 1.0) ? F_DIV_d(F_MUL_d(1.0, (double)g_par_prot.val), (double)protection_sum) : 1.0))))
          : !__CPROVER_return_value.has)) /*@C15*/
  __CPROVER_ensures(ghost_exc == 0);
opt_double CgroupContext__memory_growth(CgroupContext *self, CgroupContext_Error *err)
  FN_REQ __CPROVER_requires(CUR_IS_ACC)
  __CPROVER_assigns(g_data.current_usage, g_computes, g_computed; err != 0: *err)
  __CPROVER_ensures(HAS(__CPROVER_return_value) == (g_acc_cur.has && g_acc_avg.has))
  __CPROVER_ensures(__CPROVER_return_value.has ? (g_acc_avg.val == 0 ? __CPROVER_return_value.val == 0.0
        : __CPROVER_equal(__CPROVER_return_value.val, F_DIV_d((double)g_acc_cur.val, (double)g_acc_avg.val))) : 1) /*@C15*/
  __CPROVER_ensures(ghost_exc == 0);

#define HAVOC_CC() do { HAVOC(g_data); HAVOC(g_pdata); HAVOC(g_sys); HAVOC(g_params); HAVOC(g_is_root); HAVOC(g_parent_is_root); HAVOC(g_valid); HAVOC(g_valid_calls); \
  HAVOC(g_parent_lookup); HAVOC(g_computes); HAVOC(g_acc_cur); HAVOC(g_acc_avg); HAVOC(g_acc_prot); HAVOC(g_acc_pgscan); HAVOC(g_acc_swap_max); HAVOC(g_acc_swap_usage); \
  HAVOC(g_acc_min); HAVOC(g_acc_low); HAVOC(g_par_swap_max_eff); HAVOC(g_par_swap_free_eff); HAVOC(g_par_prot); HAVOC(g_acc_iocost); HAVOC(g_par_swap_util_eff); HAVOC(ghost_exc); } while (0)
#define CANARY __CPROVER_assert(0, "canary: contract precondition satisfiable and function exit reachable")
/* ---- pgscan counter: an optional memory.stat key (C10: its absence is reported as unavailable, never thrown) ---- */
#define MEMSTAT ((umap_str_t_int64_t)31)
_Bool g_ms_ok, g_ms_has_pgscan; int64_t g_ms_pgscan; uint64_t g_ms_n;
opt_umap_str_t_int64_t CgroupContext__memory_stat(CgroupContext *s, CgroupContext_Error *e) { opt_umap_str_t_int64_t o; o.has = g_ms_ok; o.val = MEMSTAT; return o; }
uint64_t umap_str_t_int64_t__size(umap_str_t_int64_t m) { return g_ms_n; }
mapit_pair_str_t_int64_t umap_str_t_int64_t__find(umap_str_t_int64_t m, str_t k)
{ mapit_pair_str_t_int64_t it; it.map = m; it.n = g_ms_n; it.valid = 1; it.pos = (k == STR_pgscan && g_ms_has_pgscan) ? 0 : g_ms_n; return it; }
pair_str_t_int64_t mapit_pair_str_t_int64_t__elem(hnd_t m, uint64_t pos) { pair_str_t_int64_t p; p.first = STR_pgscan; p.second = g_ms_pgscan; return p; }
opt_int64_t CgroupContext__getPgScanCumulative(CgroupContext *self, CgroupContext_Error *err)
  FN_REQ __CPROVER_requires(!g_ms_has_pgscan || g_ms_n > 0)
  __CPROVER_assigns(ghost_exc; err != 0: *err)
  __CPROVER_ensures(ghost_exc == 0) /*@C10,C15*/
  __CPROVER_ensures(HAS(__CPROVER_return_value) == (g_ms_ok && g_ms_has_pgscan) && (!HAS(__CPROVER_return_value) || __CPROVER_return_value.val == g_ms_pgscan)) /*@C15*/;
void h_getPgScanCumulative(void) { CgroupContext *s; CgroupContext_Error *e; HAVOC_CC(); HAVOC(g_ms_ok); HAVOC(g_ms_has_pgscan); HAVOC(g_ms_pgscan); HAVOC(g_ms_n); CgroupContext__getPgScanCumulative(s, e); CANARY; }
/* ---- io cost: dot product of each CONFIGURED device's io.stat line with the coefficients of its type, summed ---- */
opt_vec_DeviceIOStat g_iostat; uint64_t g_io_visits; double g_cost_acc; DeviceIOStat g_io_slot;
int __CPROVER_uninterpreted_dev_known(str_t); int __CPROVER_uninterpreted_dev_type(str_t);
opt_vec_DeviceIOStat CgroupContext__io_stat(CgroupContext *s, CgroupContext_Error *e) { return g_iostat; }
#define DOT(st, co) F_ADD_d(F_ADD_d(F_ADD_d(F_ADD_d(F_ADD_d(F_MUL_d((double)(st).rios, (co).read_iops), F_MUL_d((double)(st).rbytes, (co).readbw)), F_MUL_d((double)(st).wios, (co).write_iops)), \
                     F_MUL_d((double)(st).wbytes, (co).writebw)), F_MUL_d((double)(st).dios, (co).trim_iops)), F_MUL_d((double)(st).dbytes, (co).trimbw))
/* dereferencing the i-th io.stat line: the ledger adds what the documented formula says this line contributes */
DeviceIOStat *vecit_DeviceIOStat__ref(vecit_DeviceIOStat it)
{ __CPROVER_assert(it.i < it.n, "UB: dereference of an end() iterator"); __CPROVER_assert(it.i == g_io_visits, "each io.stat line is visited once, in order"); g_io_visits = g_io_visits + 1;
  DeviceIOStat fresh; g_io_slot = fresh;
  if (__CPROVER_uninterpreted_dev_known(g_io_slot.dev_id) != 0) {
    int ty = __CPROVER_uninterpreted_dev_type(g_io_slot.dev_id); __CPROVER_assume(ty == DeviceType__SSD || ty == DeviceType__HDD);
    if (ty == DeviceType__SSD) g_cost_acc = F_ADD_d(g_cost_acc, DOT(g_io_slot, g_params.ssd_coeffs)); else g_cost_acc = F_ADD_d(g_cost_acc, DOT(g_io_slot, g_params.hdd_coeffs)); }
  return &g_io_slot; }
str_t g_find_key;
uint64_t umap_str_t_DeviceType__size(umap_str_t_DeviceType m) { return 2; }
mapit_pair_str_t_DeviceType umap_str_t_DeviceType__find(umap_str_t_DeviceType m, str_t k)
{ mapit_pair_str_t_DeviceType it; it.map = m; it.n = 2; it.valid = 1; it.pos = __CPROVER_uninterpreted_dev_known(k) != 0 ? 0 : 2; g_find_key = k; return it; }
pair_str_t_DeviceType mapit_pair_str_t_DeviceType__elem(hnd_t m, uint64_t pos) { pair_str_t_DeviceType p; p.first = g_find_key; p.second = __CPROVER_uninterpreted_dev_type(g_find_key); return p; }
#define LOOPC_CgroupContext__getIoCostCumulative_1 \
  __CPROVER_assigns(__begin1, cost, g_io_visits, g_cost_acc, g_io_slot, g_find_key) \
  __CPROVER_loop_invariant(__begin1.vid == __end1.vid && __begin1.n == __end1.n && __end1.i == __end1.n && __begin1.i <= __end1.n && __end1.n == g_iostat.val.n && g_io_visits == __begin1.i) \
  __CPROVER_loop_invariant(__CPROVER_equal(cost, g_cost_acc) && ghost_exc == 0) \
  __CPROVER_decreases(__end1.n - __begin1.i)
opt_double CgroupContext__getIoCostCumulative(CgroupContext *self, CgroupContext_Error *err)
  FN_REQ __CPROVER_requires(g_io_visits == 0 && __CPROVER_equal(g_cost_acc, 0.0) && g_iostat.val.n <= VEC_MAX && (g_iostat.has == 0 || g_iostat.has == 1))
  __CPROVER_assigns(g_io_visits, g_cost_acc, g_io_slot, g_find_key; err != 0: *err)
  __CPROVER_ensures(HAS(__CPROVER_return_value) == HAS(g_iostat))
  /* every line visited once; the result is the ledger: sum over configured devices of dot(line, coefficients of the device's type) */
  __CPROVER_ensures(!HAS(__CPROVER_return_value) || (g_io_visits == g_iostat.val.n && __CPROVER_equal(__CPROVER_return_value.val, g_cost_acc))) /*@C15*/
  __CPROVER_ensures(ghost_exc == 0);
void h_getIoCostCumulative(void) { CgroupContext *s; CgroupContext_Error *e; HAVOC_CC(); HAVOC(g_iostat); HAVOC(g_io_visits); HAVOC(g_cost_acc); CgroupContext__getIoCostCumulative(s, e); CANARY; }
/* ---- hierarchically distributed memory protection: P = R * min(1, P(parent) / sum of the siblings' R) ---- */
#define MIN2(a, b) ((a) < (b) ? (a) : (b))
#define MAX2(a, b) ((a) < (b) ? (b) : (a))
CgroupContext g_sib; uint64_t g_sib_visits, g_sib_n; int64_t g_sib_acc; _Bool g_children_ok;
opt_vec_str_t CgroupContext__children(CgroupContext *s, CgroupContext_Error *e) { __CPROVER_assert(s->cgroup_ == (CgroupPath)20, "the PARENT's children are listed"); opt_vec_str_t o; o.has = g_children_ok; __CPROVER_assume(o.val.n <= VEC_MAX); return o; }
CgroupPath CgroupPath__getChild(CgroupPath p, str_t name) { CgroupPath c; return c; }
void uset_CgroupPath__insert(uset_CgroupPath s, CgroupPath p) { }
vec_CgroupContext__ OomdContext__addToCacheAndGet__uset_CgroupPath(OomdContext c, uset_CgroupPath s) { vec_CgroupContext__ v; v.vid = 77; v.n = g_sib_n; return v; }
/* visiting sibling i: fresh statistics for it; the ledger adds ITS raw protection min(current, max(min, low)) (0 if unavailable) */
CgroupContext *vecit_CgroupContext____op_deref(vecit_CgroupContext__ it)
{ __CPROVER_assert(it.i < it.n, "UB: dereference of an end() iterator"); __CPROVER_assert(it.i == g_sib_visits, "each sibling is visited once, in order"); g_sib_visits = g_sib_visits + 1;
  g_sib_cur = nondet_opt_i64(); g_sib_min = nondet_opt_i64(); g_sib_low = nondet_opt_i64();
  __CPROVER_assume(BYTES(g_sib_cur) && BYTES(g_sib_min) && BYTES(g_sib_low));
  CgroupContext_CgroupData fresh; g_sibdata = fresh; g_sibdata.current_usage.has = 0;       /* nothing cached yet for it */
  g_sib.cgroup_ = SIB; g_sib.data_ = 3;
  if (HAS(g_sib_cur) && HAS(g_sib_min) && HAS(g_sib_low)) g_sib_acc = g_sib_acc + MIN2(g_sib_cur.val, MAX2(g_sib_min.val, g_sib_low.val));
  __CPROVER_assume(g_sib_acc <= (1L << 60));      /* ASSUMED: the siblings' protected memory adds up to less than 2^60 bytes */
  return &g_sib; }
#define LOOPC_CgroupContext__getMemoryProtection_1 \
  __CPROVER_assigns(__begin2) \
  __CPROVER_loop_invariant(__begin2.vid == __end2.vid && __begin2.n == __end2.n && __end2.i == __end2.n && __begin2.i <= __end2.n && ghost_exc == 0) \
  __CPROVER_decreases(__end2.n - __begin2.i)
#define LOOPC_CgroupContext__getMemoryProtection_2 \
  __CPROVER_assigns(__begin1, protection_sum, g_sib_visits, g_sib_acc, g_sib, g_sibdata, g_sib_cur, g_sib_min, g_sib_low) \
  __CPROVER_loop_invariant(__begin1.vid == __end1.vid && __begin1.n == __end1.n && __end1.i == __end1.n && __begin1.i <= __end1.n && __end1.n == g_sib_n && g_sib_visits == __begin1.i) \
  __CPROVER_loop_invariant(protection_sum == g_sib_acc && g_sib_acc >= 0 && g_sib_acc <= (1L << 60) && ghost_exc == 0) \
  __CPROVER_decreases(__end1.n - __begin1.i)
#define NORM_OF(sum) F2I_i64(F_MUL_d((double)g_raw_expected, ((F_DIV_d(F_MUL_d(1.0, (double)g_par_prot.val), (double)(sum)) < 1.0) ? F_DIV_d(F_MUL_d(1.0, (double)g_par_prot.val), (double)(sum)) : 1.0)))
#define RAW_HAS (HAS(g_acc_cur) && HAS(g_acc_min) && HAS(g_acc_low))
opt_int64_t CgroupContext__getMemoryProtection(CgroupContext *self, CgroupContext_Error *err)
  FN_REQ __CPROVER_requires(CUR_IS_ACC && BYTES(g_par_prot) && g_sib_visits == 0 && g_sib_acc == 0 && g_sib_n <= VEC_MAX && (!g_parent_lookup.has || g_parent_lookup.val == &g_parent) && g_parent.cgroup_ == (CgroupPath)20)
  __CPROVER_requires(g_raw_expected == RAWEXP)
  __CPROVER_assigns(g_data.current_usage, g_computes, g_computed, g_sib_visits, g_sib_acc, g_sib, g_sibdata, g_sib_cur, g_sib_min, g_sib_low; err != 0: *err)
  /* the root is its own usage; a top-level cgroup keeps its raw protection */
  __CPROVER_ensures(!g_is_root || OPT_I64_EQ(__CPROVER_return_value, g_acc_cur)) /*@C15*/
  __CPROVER_ensures(g_is_root || !g_parent_is_root || (HAS(__CPROVER_return_value) == RAW_HAS && (!RAW_HAS || __CPROVER_return_value.val == RAWEXP))) /*@C15*/
  /* below: unavailable without the parent or its children; else R scaled by the parent's protection over the siblings' total R */
  __CPROVER_ensures(g_is_root || g_parent_is_root || (g_parent_lookup.has && g_children_ok) || !HAS(__CPROVER_return_value)) /*@C15*/
  __CPROVER_ensures(g_is_root || g_parent_is_root || !(g_parent_lookup.has && g_children_ok) ||
      (g_sib_visits == g_sib_n &&
       (g_sib_acc == 0 ? (HAS(__CPROVER_return_value) && __CPROVER_return_value.val == 0)
                       : ((RAW_HAS && HAS(g_par_prot)) ? (HAS(__CPROVER_return_value) && __CPROVER_return_value.val == NORM_OF(g_sib_acc)) : !HAS(__CPROVER_return_value))))) /*@C15*/
  __CPROVER_ensures(ghost_exc == 0);
void h_getMemoryProtection(void) { CgroupContext *s; CgroupContext_Error *e; HAVOC_CC(); HAVOC(g_sib_visits); HAVOC(g_sib_acc); HAVOC(g_sib_n); HAVOC(g_children_ok); HAVOC(g_parent); HAVOC(g_sibdata); HAVOC(g_sib);
  g_parent.cgroup_ = (CgroupPath)20; g_parent_lookup.val = &g_parent; g_raw_expected = RAWEXP; CgroupContext__getMemoryProtection(s, e); CANARY; }
void h_refresh(void) { CgroupContext *s; HAVOC_CC(); CgroupContext__refresh(s); CANARY; }
void h_current_usage(void) { CgroupContext *s; CgroupContext_Error *e; HAVOC_CC(); CgroupContext__current_usage(s, e); CANARY; }
void h_getAverageUsage(void) { CgroupContext *s; CgroupContext_Error *e; HAVOC_CC(); CgroupContext__getAverageUsage(s, e); CANARY; }
void h_getIoCostRate(void) { CgroupContext *s; CgroupContext_Error *e; HAVOC_CC(); CgroupContext__getIoCostRate(s, e); CANARY; }
void h_getPgScanRate(void) { CgroupContext *s; CgroupContext_Error *e; HAVOC_CC(); CgroupContext__getPgScanRate(s, e); CANARY; }
void h_effective_usage(void) { CgroupContext *s; CgroupContext_Error *e; int64_t a, b; HAVOC_CC(); CgroupContext__effective_usage(s, e, a, b); CANARY; }
void h_memory_growth(void) { CgroupContext *s; CgroupContext_Error *e; HAVOC_CC(); CgroupContext__memory_growth(s, e); CANARY; }
void h_getEffectiveSwapMax(void) { CgroupContext *s; CgroupContext_Error *e; HAVOC_CC(); CgroupContext__getEffectiveSwapMax(s, e); CANARY; }
void h_getEffectiveSwapFree(void) { CgroupContext *s; CgroupContext_Error *e; HAVOC_CC(); CgroupContext__getEffectiveSwapFree(s, e); CANARY; }
void h_getEffectiveSwapUtilPct(void) { CgroupContext *s; CgroupContext_Error *e; HAVOC_CC(); CgroupContext__getEffectiveSwapUtilPct(s, e); CANARY; }
void h_rawProtection(void) { CgroupContext c; CgroupContext_Error *e; HAVOC_CC(); rawProtection(c, e); CANARY; }
void h_normalizedProtection(void) { CgroupContext c, p; CgroupContext_Error *e; int64_t sum; HAVOC_CC(); g_raw_expected = RAWEXP; normalizedProtection(c, p, sum, e); CANARY; }
