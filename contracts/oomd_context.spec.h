/* OomdContext (C15): the path -> context cache.
 *   refresh(): every cached context is refreshed exactly once; it stays iff its cgroup directory is still the live one
 *              (CgroupContext::refresh() == Fs::isCgroupValid on the held dir fd); a removed cgroup is dropped, so a
 *              cgroup re-created under the same name gets a NEW context (new fd, new id, empty archive) on the next lookup;
 *   addToCacheAndGet(path): the cached context if there is one, else a newly made one that is inserted, else nothing.
 * Map iterators are modelled by their distance to end(). */
#include "common.h"
_Bool nondet_bool(void);
uint64_t g_n;                        /* cached contexts at entry */
uint64_t g_refreshed, g_erased, g_kept; uint64_t g_last_rem;
_Bool g_cached, g_make_ok; CgroupContext g_cached_ctx, g_made_ctx; uint64_t g_makes, g_inserts; CgroupPath g_insert_key, g_lookup_key; CgroupContext g_insert_val;
typedef mapit_pair_CgroupPath_CgroupContext it_t;
it_t umap_CgroupPath_CgroupContext__begin(umap_CgroupPath_CgroupContext m) { it_t it; it.map = m; it.pos = g_n; it.n = 0; it.valid = 1; return it; }
it_t umap_CgroupPath_CgroupContext__end(umap_CgroupPath_CgroupContext m) { it_t it; it.map = m; it.pos = 0; it.n = 0; it.valid = 1; return it; }
_Bool mapit_pair_CgroupPath_CgroupContext__op_eq(it_t a, it_t b) { return a.pos == b.pos; }
CgroupContext __CPROVER_uninterpreted_cached(uint64_t rem); CgroupPath __CPROVER_uninterpreted_cached_key(uint64_t rem);
pair_CgroupPath_CgroupContext mapit_pair_CgroupPath_CgroupContext__op_arrow(it_t it)
{ __CPROVER_assert(it.pos > 0, "UB: dereference of cgroups_.end()"); pair_CgroupPath_CgroupContext p;
  if (it.n == 1) { p.first = g_lookup_key; p.second = g_cached_ctx; return p; }        /* the entry find() located */
  if (it.n == 2) { p.first = g_insert_key; p.second = g_insert_val; return p; }        /* the entry emplace() created */
  p.first = __CPROVER_uninterpreted_cached_key(it.pos); p.second = __CPROVER_uninterpreted_cached(it.pos); return p; }
/* CgroupContext::refresh (under contract in unit cgroup_context): true iff the cgroup is still valid */
_Bool g_valid_now;
_Bool CgroupContext__refresh(CgroupContext c)
{ __CPROVER_assert(g_last_rem > 0 && c == __CPROVER_uninterpreted_cached(g_last_rem), "each cached context is refreshed once, in iteration order"); g_refreshed = g_refreshed + 1; g_valid_now = nondet_bool(); return g_valid_now; }
it_t ext__next(it_t it) { __CPROVER_assert(it.pos > 0 && it.pos == g_last_rem && g_valid_now, "a valid context is kept"); g_kept = g_kept + 1; g_last_rem = it.pos - 1; it.pos = it.pos - 1; return it; }
it_t umap_CgroupPath_CgroupContext__erase(umap_CgroupPath_CgroupContext m, it_t it)
{ __CPROVER_assert(it.pos > 0 && it.pos == g_last_rem && !g_valid_now, "exactly the contexts whose cgroup is gone are dropped"); /*@C15*/ g_erased = g_erased + 1; g_last_rem = it.pos - 1; it.pos = it.pos - 1; return it; }
#define LOOPC_OomdContext__refresh_1 \
  __CPROVER_assigns(it, g_refreshed, g_erased, g_kept, g_last_rem, g_valid_now) \
  __CPROVER_loop_invariant(it.n == 0 && it.pos <= g_n && it.pos == g_last_rem && g_refreshed == g_n - it.pos && g_kept + g_erased == g_refreshed && g_kept <= g_refreshed && ghost_exc == 0) \
  __CPROVER_decreases(it.pos)
void OomdContext__refresh(OomdContext *self)
  __CPROVER_requires(__CPROVER_is_fresh(self, sizeof(*self)) && ghost_exc == 0 && g_n <= VEC_MAX && g_refreshed == 0 && g_erased == 0 && g_kept == 0 && g_last_rem == g_n)
  __CPROVER_assigns(g_refreshed, g_erased, g_kept, g_last_rem, g_valid_now)
  __CPROVER_ensures(g_refreshed == g_n && g_kept + g_erased == g_n && ghost_exc == 0) /*@C15*/;
/* lookup / insert */
it_t umap_CgroupPath_CgroupContext__find(umap_CgroupPath_CgroupContext m, CgroupPath k) { it_t it; it.map = m; it.n = 1; it.valid = 1; it.pos = g_cached ? 1 : 0; g_lookup_key = k; return it; }
opt_CgroupContext CgroupContext__make(OomdContext *ctx, CgroupPath p) { g_makes = g_makes + 1; opt_CgroupContext o; o.has = g_make_ok; o.val = g_made_ctx; return o; }
pair_mapit_pair_CgroupPath_CgroupContext__Bool umap_CgroupPath_CgroupContext__emplace(umap_CgroupPath_CgroupContext m, CgroupPath k, CgroupContext v)
{ __CPROVER_assert(!g_cached, "emplace only when the path is not cached (else the new context would be silently discarded)"); g_inserts = g_inserts + 1; g_insert_key = k; g_insert_val = v;
  pair_mapit_pair_CgroupPath_CgroupContext__Bool r; r.first.map = m; r.first.pos = 1; r.first.n = 2; r.first.valid = 1; r.second = 1; return r; }
opt_CgroupContext OomdContext__addToCacheAndGet(OomdContext *self, CgroupPath cgroup)
  __CPROVER_requires(__CPROVER_is_fresh(self, sizeof(*self)) && ghost_exc == 0 && g_makes == 0 && g_inserts == 0 && (g_cached == 0 || g_cached == 1) && (g_make_ok == 0 || g_make_ok == 1))
  __CPROVER_assigns(g_makes, g_inserts, g_insert_key, g_insert_val, g_lookup_key)
  /* cached: that very context, nothing opened; else a freshly made one, inserted under the path; else nothing */
  __CPROVER_ensures(g_cached ? (__CPROVER_return_value.has && __CPROVER_return_value.val == g_cached_ctx && g_makes == 0 && g_inserts == 0)
      : (g_makes == 1 && (g_make_ok ? (__CPROVER_return_value.has && __CPROVER_return_value.val == g_made_ctx && g_inserts == 1 && g_insert_key == cgroup && g_insert_val == g_made_ctx)
                                     : (!__CPROVER_return_value.has && g_inserts == 0)))) /*@C15*/
  __CPROVER_ensures(ghost_exc == 0);
#define CANARY __CPROVER_assert(0, "canary: contract precondition satisfiable and function exit reachable")
void h_refresh(void) { OomdContext *s; HAVOC(ghost_exc); HAVOC(g_n); HAVOC(g_refreshed); HAVOC(g_erased); HAVOC(g_kept); HAVOC(g_last_rem); OomdContext__refresh(s); CANARY; }
void h_addToCacheAndGet(void) { OomdContext *s; CgroupPath p; HAVOC(ghost_exc); HAVOC(g_cached); HAVOC(g_make_ok); HAVOC(g_cached_ctx); HAVOC(g_made_ctx); HAVOC(g_makes); HAVOC(g_inserts); OomdContext__addToCacheAndGet(s, p); CANARY; }
