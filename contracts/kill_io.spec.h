/* KillIOCost (C09): rank by io-cost rate, descending, within equal kill preference. */
#define KEY_T double
#define KEY_GT(x, y) ((x) > (y))
#define KEY_OK(x) ((x) == (x))
double __CPROVER_uninterpreted_key_d(lambda_t, CgroupContext);
#define lambda_t__op_call__CgroupContext(k, c) __CPROVER_uninterpreted_key_d(k, c)
#ifdef UNIT_SORT
#define KEYF(k, c) __CPROVER_uninterpreted_key_d(k, c)       /* any key functor */
#else
double KillIOCost__rankForKilling__lambda_sortDescWithKillPrefs(CgroupContext cgroup_ctx);
#define KEYF(k, c) KillIOCost__rankForKilling__lambda_sortDescWithKillPrefs(c)  /* calling the closure kill_by_io_cost passes */
#endif
/* io_cost_rate() this tick */
int __CPROVER_uninterpreted_ior_has(CgroupContext); double __CPROVER_uninterpreted_ior_val(CgroupContext);
opt_double CgroupContext__io_cost_rate(CgroupContext c) { opt_double o; o.has = __CPROVER_uninterpreted_ior_has(c) != 0; o.val = __CPROVER_uninterpreted_ior_val(c); return o; }
#define DOC_KEY(c) ((__CPROVER_uninterpreted_ior_has(c) != 0) ? __CPROVER_uninterpreted_ior_val(c) : 0.0)   /* documented: the io-cost increase, 0 when unknown */
#include "kill_sort.h"

#include "kill_sort_proofs.h"
#define LAMBDA_ID__KillIOCost__rankForKilling__lambda_sortDescWithKillPrefs ((lambda_t)1)
double KillIOCost__rankForKilling__lambda_sortDescWithKillPrefs(CgroupContext cgroup_ctx)
  __CPROVER_requires(ghost_exc == 0) __CPROVER_assigns()
  __CPROVER_ensures(__CPROVER_equal(__CPROVER_return_value, DOC_KEY(cgroup_ctx)) && ghost_exc == 0) /*@C09*/;
#define DOC_BETTER(x, f) (PREF(x) > PREF(f) || (PREF(x) == PREF(f) && DOC_KEY(x) > DOC_KEY(f)))
vec_CgroupContext KillIOCost__rankForKilling(KillIOCost *self, OomdContext *ctx, vec_CgroupContext cgroups)
  __CPROVER_requires(cgroups.n <= VEC_MAX && ghost_exc == 0)
  __CPROVER_requires((g_w >= cgroups.n || KEY_OK(DOC_KEY(ELEM(cgroups.vid, g_w)))) && (g_s0 >= cgroups.n || KEY_OK(DOC_KEY(ELEM(cgroups.vid, g_s0)))))
  __CPROVER_assigns(g_copied, g_sorted, g_copy_vid, g_copy_src)
  __CPROVER_ensures(__CPROVER_return_value.n == cgroups.n && ghost_exc == 0)   /* nobody is filtered out */ /*@C09*/
  __CPROVER_ensures(cgroups.n == 0 || (g_s0 < cgroups.n && vec_CgroupContext__elem(__CPROVER_return_value.vid, 0) == ELEM(cgroups.vid, g_s0))) /*@C09*/
  /* first choice: no sibling of higher preference, and none of equal preference with a larger io-cost increase */
  __CPROVER_ensures(cgroups.n == 0 || g_w >= cgroups.n || !DOC_BETTER(ELEM(cgroups.vid, g_w), vec_CgroupContext__elem(__CPROVER_return_value.vid, 0))) /*@C09*/;
void h_key(void) { CgroupContext c; HAVOC_SORT(); KillIOCost__rankForKilling__lambda_sortDescWithKillPrefs(c); CANARY; }
void h_rank(void) { KillIOCost *s; OomdContext *x; vec_CgroupContext v; HAVOC_SORT(); KillIOCost__rankForKilling(s, x, v); CANARY; }
