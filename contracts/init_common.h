/* init_common.h — ledger of what a plugin's init() declares to PluginArgParser (C12: "every required argument is present,
 * no argument is given that the plugin does not declare").  Each addArgument / addArgumentCustom call records
 * (name, destination field, required, custom-parser?); parse() records how many were declared when it ran.
 * PluginArgParser::parse itself (rejects unknown names, missing required names, unparsable values; fills the destinations)
 * is under contract in unit plugin_arg_parser; here it answers nondeterministically. */
#ifndef INIT_COMMON_H
#define INIT_COMMON_H
#define REG_MAX 12
uint64_t g_reg_n, g_reg_at_parse, g_parse_calls; _Bool g_parse_ok;
str_t g_reg_name[REG_MAX]; const void *g_reg_dest[REG_MAX]; _Bool g_reg_req[REG_MAX]; _Bool g_reg_custom[REG_MAX];
static inline void REG(str_t name, const void *dest, _Bool required, _Bool custom)
{
  __CPROVER_assert(g_reg_n < REG_MAX, "init() declares a bounded number of arguments");
  __CPROVER_assert(g_parse_calls == 0, "arguments are declared before the argument map is parsed");
  g_reg_name[g_reg_n] = name; g_reg_dest[g_reg_n] = dest; g_reg_req[g_reg_n] = required != 0; g_reg_custom[g_reg_n] = custom != 0;
  g_reg_n = g_reg_n + 1;
}
#define HASREG_AT(i, name, dest, req) (g_reg_n > (i) && g_reg_name[i] == (name) && g_reg_dest[i] == (const void *)(dest) && (g_reg_req[i] != 0) == ((req) != 0))
#define HASREG(name, dest, req) (HASREG_AT(0, name, dest, req) || HASREG_AT(1, name, dest, req) || HASREG_AT(2, name, dest, req) || HASREG_AT(3, name, dest, req) || \
  HASREG_AT(4, name, dest, req) || HASREG_AT(5, name, dest, req) || HASREG_AT(6, name, dest, req) || HASREG_AT(7, name, dest, req) || \
  HASREG_AT(8, name, dest, req) || HASREG_AT(9, name, dest, req) || HASREG_AT(10, name, dest, req) || HASREG_AT(11, name, dest, req))
maybe_Unit nondet_maybe_unit_init(void);
#define DEF_PARSE(PARSER_T) maybe_Unit PluginArgParser__parse(PARSER_T p, umap_str_t_str_t args) \
  { g_parse_calls = g_parse_calls + 1; g_reg_at_parse = g_reg_n; maybe_Unit r = nondet_maybe_unit_init(); r.ok = g_parse_ok; return r; }
#define DEF_ADDARG(T, TN) void PluginArgParser__addArgument__str_t_##TN##__Bool(PluginArgParser p, str_t name, T *dest, _Bool required) { REG(name, dest, required, 0); }
#define REG_ASSIGNS g_reg_n, g_reg_at_parse, g_parse_calls, __CPROVER_object_whole(g_reg_name), __CPROVER_object_whole(g_reg_dest), __CPROVER_object_whole(g_reg_req), __CPROVER_object_whole(g_reg_custom)
#define HAVOC_REG() do { g_reg_n = 0; g_reg_at_parse = 0; g_parse_calls = 0; HAVOC(g_parse_ok); } while (0)
/* init(): declares exactly K arguments, all before the one parse() of the given map; returns 0 iff parse accepted */
#define INIT_CORE(K) (g_reg_n == (K) && g_parse_calls == 1 && g_reg_at_parse == (K) && (__CPROVER_return_value == 0) == (g_parse_ok != 0) && (__CPROVER_return_value == 0 || __CPROVER_return_value == 1))
#endif
