/* KillMemoryGrowth (C09): three-phase ranking.
 *   phase 1  cgroups whose usage is at least size_threshold % of the siblings' total: by (usage - protection) = effective usage
 *   phase 2  else growth ratio >= min_growth_ratio among those whose effective usage is at least that of the
 *            cgroup at rank nth = ceil(N * (100 - growing_size_percentile) / 100) - 1 in descending effective usage
 *   phase 3  else by effective usage
 * kill preference dominates all phases (sortDescWithKillPrefs). */
#define KEY_T tuple_int64_t_float_int64_t
#define KEY_GT(x, y) tuple_int64_t_float_int64_t__op_gt(x, y)
#define KEY_OK(x) ((x).e1 == (x).e1)
KillMemoryGrowth g_plugin;
#define g_self (&g_plugin)
/* per-cgroup stats this tick (C15) */
int __CPROVER_uninterpreted_cur_has(CgroupContext); int64_t __CPROVER_uninterpreted_cur_val(CgroupContext);
int __CPROVER_uninterpreted_eff_has(CgroupContext); int64_t __CPROVER_uninterpreted_eff_val(CgroupContext);
int __CPROVER_uninterpreted_gro_has(CgroupContext); double __CPROVER_uninterpreted_gro_val(CgroupContext);
#define CUR_OR0(c) ((__CPROVER_uninterpreted_cur_has(c) != 0) ? __CPROVER_uninterpreted_cur_val(c) : (int64_t)0)
#define EFF_OR0(c) ((__CPROVER_uninterpreted_eff_has(c) != 0) ? __CPROVER_uninterpreted_eff_val(c) : (int64_t)0)
#define GRO_OR0(c) ((float)((__CPROVER_uninterpreted_gro_has(c) != 0) ? __CPROVER_uninterpreted_gro_val(c) : 0.0))
/* ghost instrumentation of current_usage(): the values handed out are summed, and the order of the calls is
 * checked against the sibling vector while g_sum_on (used by the get_ranking_fn proof to pin the total) */
_Bool g_sum_on; uint64_t g_sum_vid, g_sum_visits; int64_t g_sum_acc;
CgroupContext __CPROVER_uninterpreted_elem(uint64_t vid, uint64_t i);
#define USAGE_MAX (1L << 40)   /* ASSUMED: a cgroup's memory.current is below 1 TiB (the sibling total must fit in int64) */
opt_int64_t CgroupContext__current_usage(CgroupContext c)
{ opt_int64_t o; o.has = __CPROVER_uninterpreted_cur_has(c) != 0; o.val = __CPROVER_uninterpreted_cur_val(c); __CPROVER_assume(o.val >= 0 && o.val <= USAGE_MAX);
  if (g_sum_on) { __CPROVER_assert(c == __CPROVER_uninterpreted_elem(g_sum_vid, g_sum_visits), "each sibling is summed once, in order"); g_sum_visits = g_sum_visits + 1; g_sum_acc = g_sum_acc + (o.has ? o.val : 0); }
  return o; }
opt_int64_t CgroupContext__effective_usage(CgroupContext c) { opt_int64_t o; o.has = __CPROVER_uninterpreted_eff_has(c) != 0; o.val = __CPROVER_uninterpreted_eff_val(c); return o; }
opt_double CgroupContext__memory_growth(CgroupContext c) { opt_double o; o.has = __CPROVER_uninterpreted_gro_has(c) != 0; o.val = __CPROVER_uninterpreted_gro_val(c); return o; }
/* thresholds captured by the ranking closure */
int64_t g_thr_size, g_thr_growth;
#define SIZE_EL(c) (CUR_OR0(c) >= g_thr_size)
#define GROWTH_EL(c) (GRO_OR0(c) >= g_plugin.min_growth_ratio_ && EFF_OR0(c) >= g_thr_growth)
static inline tuple_int64_t_float_int64_t doc_rank(CgroupContext c)
{ tuple_int64_t_float_int64_t t; t.e0 = SIZE_EL(c) ? EFF_OR0(c) : (int64_t)0; t.e1 = GROWTH_EL(c) ? GRO_OR0(c) : (float)0; t.e2 = EFF_OR0(c); return t; }
#define DOC_PHASE(c) (SIZE_EL(c) ? KMGPhase__SIZE_THRESHOLD : (GROWTH_EL(c) ? KMGPhase__GROWTH : KMGPhase__SIZE_NO_THRESHOLD))
tuple_int64_t_float_int64_t __CPROVER_uninterpreted_key_t(lambda_t, CgroupContext);
#define lambda_t__op_call__CgroupContext(k, c) __CPROVER_uninterpreted_key_t(k, c)
#ifdef UNIT_SORT
#define KEYF(k, c) __CPROVER_uninterpreted_key_t(k, c)
#else
#define KEYF(k, c) doc_rank(c)     /* = rank_cgroup(c).second, by the two lambda contracts below */
#endif
#include "kill_sort.h"
#include "kill_sort_proofs.h"

/* ---- the ranking closure returned by get_ranking_fn (captures the two thresholds by value) ---- */
#define RANKFN ((lambda_t)5)
#define lambda_bind__KillMemoryGrowth__get_ranking_fn__lambda_ret(ps, pg) (g_thr_size = *(ps), g_thr_growth = *(pg), RANKFN)
pair_KMGPhase_tuple_int64_t_float_int64_t KillMemoryGrowth__get_ranking_fn__lambda_ret(KillMemoryGrowth *self, int64_t *size_threshold_in_bytes, int64_t *growth_kill_min_effective_usage_threshold, CgroupContext cgroup_ctx)
  __CPROVER_requires(self == g_self && size_threshold_in_bytes == &g_thr_size && growth_kill_min_effective_usage_threshold == &g_thr_growth && !g_sum_on && ghost_exc == 0)
  __CPROVER_assigns()
  __CPROVER_ensures(__CPROVER_return_value.first == DOC_PHASE(cgroup_ctx)) /*@C09*/
  __CPROVER_ensures(__CPROVER_return_value.second.e0 == (SIZE_EL(cgroup_ctx) ? EFF_OR0(cgroup_ctx) : (int64_t)0) &&
                    __CPROVER_equal(__CPROVER_return_value.second.e1, (GROWTH_EL(cgroup_ctx) ? GRO_OR0(cgroup_ctx) : (float)0)) &&
                    __CPROVER_return_value.second.e2 == EFF_OR0(cgroup_ctx) && ghost_exc == 0) /*@C09*/;
/* calling the std::function that holds that closure */
pair_KMGPhase_tuple_int64_t_float_int64_t function_t__op_call__CgroupContext(function_t f, CgroupContext c)
{ __CPROVER_assert(f == (function_t)RANKFN, "the ranking closure is called"); pair_KMGPhase_tuple_int64_t_float_int64_t p; p.first = DOC_PHASE(c); p.second = doc_rank(c); return p; }
/* the key functor handed to sortDescWithKillPrefs: [&](c) { return rank_cgroup(c).second; } */
#define KEYFN ((lambda_t)6)
static inline lambda_t bind_keyfn(function_t f) { __CPROVER_assert(f == (function_t)RANKFN, "the key functor wraps the ranking closure of get_ranking_fn"); return KEYFN; }
#define lambda_bind__KillMemoryGrowth__rankForKilling__lambda_sortDescWithKillPrefs(f) bind_keyfn(f)
tuple_int64_t_float_int64_t KillMemoryGrowth__rankForKilling__lambda_sortDescWithKillPrefs(function_t rank_cgroup, CgroupContext cgroup_ctx)
  __CPROVER_requires(rank_cgroup == (function_t)RANKFN && !g_sum_on && ghost_exc == 0)
  __CPROVER_assigns()
  __CPROVER_ensures(__CPROVER_return_value.e0 == doc_rank(cgroup_ctx).e0 && __CPROVER_equal(__CPROVER_return_value.e1, doc_rank(cgroup_ctx).e1) && __CPROVER_return_value.e2 == doc_rank(cgroup_ctx).e2 && ghost_exc == 0) /*@C09*/;
void h_rankfn(void) { CgroupContext c; HAVOC_SORT(); HAVOC(g_plugin); HAVOC(g_thr_size); HAVOC(g_thr_growth); HAVOC(g_sum_on); KillMemoryGrowth__get_ranking_fn__lambda_ret(g_self, &g_thr_size, &g_thr_growth, c); CANARY; }
void h_key(void) { CgroupContext c; function_t f; HAVOC_SORT(); HAVOC(g_plugin); HAVOC(g_thr_size); HAVOC(g_thr_growth); HAVOC(g_sum_on); KillMemoryGrowth__rankForKilling__lambda_sortDescWithKillPrefs(f, c); CANARY; }

/* ---- get_ranking_fn: the two thresholds ---- */
/* std::nth_element ASSUMED (prophecy form): a permutation of the range after which no element before position
 * nth orders after the nth one and no element after it orders before it.  g_ns0: where the element now at nth
 * came from; g_nw: a watched sibling; g_npw: where it landed. */
uint64_t g_nth, g_ns0, g_nw, g_npw;   /* prophecy indices of nth_element, separate from those of the sort */
_Bool KillMemoryGrowth__get_ranking_fn__lambda_nth_element(CgroupContext a, CgroupContext b);
void ghost_nth_element(vecit_CgroupContext first, vecit_CgroupContext nth, vecit_CgroupContext last)
{
  __CPROVER_assert(g_copied && first.vid == g_copy_vid && nth.vid == g_copy_vid && last.vid == g_copy_vid && first.i == 0 && last.i == last.n, "nth_element runs over the whole private copy");
  __CPROVER_assert(nth.i < last.n, "UB: nth_element position is not inside the range"); /*@C09*/
  uint64_t n = last.n;
  g_nth = nth.i; g_sorted = 1;
  __CPROVER_assume(g_ns0 < n && __CPROVER_uninterpreted_elem_sorted(g_nth) == ELEM(g_copy_src, g_ns0));
  if (g_nw < n) {
    __CPROVER_assume(g_npw < n && __CPROVER_uninterpreted_elem_sorted(g_npw) == ELEM(g_copy_src, g_nw));
    if (g_npw < g_nth) __CPROVER_assume(!KillMemoryGrowth__get_ranking_fn__lambda_nth_element(__CPROVER_uninterpreted_elem_sorted(g_nth), __CPROVER_uninterpreted_elem_sorted(g_npw)));
    if (g_npw > g_nth) __CPROVER_assume(!KillMemoryGrowth__get_ranking_fn__lambda_nth_element(__CPROVER_uninterpreted_elem_sorted(g_npw), __CPROVER_uninterpreted_elem_sorted(g_nth)));
  }
}
#define ext__nth_element__vecit_CgroupContext_vecit_CgroupContext_vecit_CgroupContext_lambda_t(f, n, l, cmp) ghost_nth_element__##cmp(f, n, l)
#define ghost_nth_element__KillMemoryGrowth__get_ranking_fn__lambda_nth_element(f, n, l) ghost_nth_element(f, n, l)
static inline vecit_CgroupContext vecit_CgroupContext__op_add__int64_t(vecit_CgroupContext it, int64_t k) { it.i = it.i + (uint64_t)k; return it; }
#ifdef ACXX_FLOAT_PRECISE
double ceil(double);
#define ext__ceil__double(x) ceil(x)
#else
double __CPROVER_uninterpreted_ceil(double);
#define ext__ceil__double(x) __CPROVER_uninterpreted_ceil(x)
/* unbounded proof: float arithmetic is uninterpreted, so the value of the index expression is ASSUMED to lie in
 * the vector (discharged for N <= NTH_N_MAX by the precise, bounded proof h_get_ranking_fn_nth) */
uint64_t g_n_siblings;
static inline uint64_t f2i_u64_in_range(double x) { uint64_t v = __CPROVER_uninterpreted_f2i_u64(x); if (g_n_siblings > 0) __CPROVER_assume(v < g_n_siblings); return v; }   /* nothing is assumed about an index into an EMPTY sibling list: computing one there is the code's bug */
#undef F2I_u64
#define F2I_u64(x) f2i_u64_in_range((double)(x))
#endif
#define LOOPC_KillMemoryGrowth__get_ranking_fn_1 \
  __CPROVER_assigns(__begin2, cur_memcurrent, g_sum_visits, g_sum_acc) \
  __CPROVER_loop_invariant(__begin2.vid == cgroups.vid && __end2.vid == cgroups.vid && __begin2.n == cgroups.n && __end2.n == cgroups.n && __end2.i == cgroups.n && __begin2.i <= cgroups.n) \
  __CPROVER_loop_invariant(g_sum_visits == __begin2.i && cur_memcurrent == g_sum_acc && g_sum_acc >= 0 && (uint64_t)g_sum_acc <= __begin2.i * (uint64_t)USAGE_MAX && ghost_exc == 0) \
  __CPROVER_decreases(cgroups.n - __begin2.i)
#ifndef NTH_N_MAX
#define NTH_N_MAX VEC_MAX
#endif
function_t KillMemoryGrowth__get_ranking_fn(KillMemoryGrowth *self, OomdContext *ctx, vec_CgroupContext cgroups)
  __CPROVER_requires(self == g_self && cgroups.n <= VEC_MAX && cgroups.n <= NTH_N_MAX && !g_copied && ghost_exc == 0)
  __CPROVER_requires(g_sum_on && g_sum_vid == cgroups.vid && g_sum_visits == 0 && g_sum_acc == 0)
  __CPROVER_requires(g_plugin.size_threshold_ >= 0 && g_plugin.growing_size_percentile_ >= 0 && g_plugin.growing_size_percentile_ < 100)   /* init()'s parsers */
  __CPROVER_assigns(g_thr_size, g_thr_growth, g_sum_visits, g_sum_acc, g_copied, g_sorted, g_copy_vid, g_copy_src, g_nth)
  __CPROVER_ensures(__CPROVER_return_value == (function_t)RANKFN && ghost_exc == 0)
#ifndef ACXX_FLOAT_PRECISE
  /* size threshold = size_threshold % of the siblings' total usage (every sibling counted once) */
  __CPROVER_ensures(g_sum_visits == cgroups.n &&
                    g_thr_size == F2I_i64(F_MUL_d((double)g_sum_acc, F_DIV_d((double)g_plugin.size_threshold_, (double)100)))) /*@C09*/
#else
  __CPROVER_requires(g_plugin.size_threshold_ == 0)    /* the bit-precise run is about the percentile index only */
#endif
  /* growth threshold = the effective usage at rank nth of the siblings in descending order (0 without percentile) */
  __CPROVER_ensures((cgroups.n > 0 && g_plugin.growing_size_percentile_ > 0)
      ? (g_nth < cgroups.n && g_ns0 < cgroups.n && g_thr_growth == EFF_OR0(ELEM(cgroups.vid, g_ns0)) &&
         (g_nw >= cgroups.n || g_npw >= g_nth || EFF_OR0(ELEM(cgroups.vid, g_nw)) >= g_thr_growth) &&
         (g_nw >= cgroups.n || g_npw <= g_nth || EFF_OR0(ELEM(cgroups.vid, g_nw)) <= g_thr_growth))
      : g_thr_growth == 0) /*@C09*/
#ifdef ACXX_FLOAT_PRECISE
  /* rank nth = ceil(N * (100 - P) / 100) - 1, here in exact integer arithmetic */
  __CPROVER_ensures(!(cgroups.n > 0 && g_plugin.growing_size_percentile_ > 0) ||
                    g_nth == (cgroups.n * (uint64_t)(100 - g_plugin.growing_size_percentile_) + 99) / 100 - 1) /*@C09*/
#endif
  ;
#ifdef ACXX_FLOAT_PRECISE
#define SET_N(v)
#else
#define SET_N(v) g_n_siblings = (v).n
#endif
void h_get_ranking_fn_nth(void) { OomdContext *x; vec_CgroupContext v; HAVOC_SORT(); HAVOC(g_plugin); HAVOC(g_thr_size); HAVOC(g_thr_growth); HAVOC(g_sum_on); HAVOC(g_sum_vid); HAVOC(g_sum_visits); HAVOC(g_sum_acc); HAVOC(g_nth); HAVOC(g_ns0); HAVOC(g_nw); HAVOC(g_npw);
  SET_N(v); KillMemoryGrowth__get_ranking_fn(g_self, x, v); CANARY; }
void h_get_ranking_fn(void) { OomdContext *x; vec_CgroupContext v; HAVOC_SORT(); HAVOC(g_plugin); HAVOC(g_thr_size); HAVOC(g_thr_growth); HAVOC(g_sum_on); HAVOC(g_sum_vid); HAVOC(g_sum_visits); HAVOC(g_sum_acc); HAVOC(g_nth); HAVOC(g_ns0); HAVOC(g_nw); HAVOC(g_npw);
  SET_N(v); KillMemoryGrowth__get_ranking_fn(g_self, x, v); CANARY; }

/* ---- rankForKilling: the documented first choice ---- */
#define DOC_BETTER(x, f) (PREF(x) > PREF(f) || (PREF(x) == PREF(f) && tuple_int64_t_float_int64_t__op_gt(doc_rank(x), doc_rank(f))))
#define W_ ELEM(cgroups.vid, g_w)
#define F_ vec_CgroupContext__elem(__CPROVER_return_value.vid, 0)
vec_CgroupContext KillMemoryGrowth__rankForKilling(KillMemoryGrowth *self, OomdContext *ctx, vec_CgroupContext cgroups)
  __CPROVER_requires(self == g_self && cgroups.n <= VEC_MAX && !g_copied && ghost_exc == 0)
  __CPROVER_requires(g_sum_on && g_sum_vid == cgroups.vid && g_sum_visits == 0 && g_sum_acc == 0)
  __CPROVER_requires(g_plugin.size_threshold_ >= 0 && g_plugin.growing_size_percentile_ >= 0 && g_plugin.growing_size_percentile_ < 100)
  /* growth ratios are numbers (usage / moving average) */
  __CPROVER_requires((g_w >= cgroups.n || GRO_OR0(W_) == GRO_OR0(W_)) && (g_s0 >= cgroups.n || GRO_OR0(ELEM(cgroups.vid, g_s0)) == GRO_OR0(ELEM(cgroups.vid, g_s0))))
  __CPROVER_assigns(g_thr_size, g_thr_growth, g_sum_visits, g_sum_acc, g_copied, g_sorted, g_copy_vid, g_copy_src, g_nth, g_sum_on)
  __CPROVER_ensures(__CPROVER_return_value.n == cgroups.n && ghost_exc == 0) /*@C09*/
  __CPROVER_ensures(cgroups.n == 0 || (g_s0 < cgroups.n && F_ == ELEM(cgroups.vid, g_s0))) /*@C09*/
  __CPROVER_ensures(cgroups.n == 0 || g_w >= cgroups.n || !DOC_BETTER(W_, F_)) /*@C09*/
  /* the same, phase by phase (within one kill preference; thresholds as established by get_ranking_fn) */
  __CPROVER_ensures(cgroups.n == 0 || g_w >= cgroups.n || PREF(W_) <= PREF(F_)) /*@C09*/
  __CPROVER_ensures(cgroups.n == 0 || g_w >= cgroups.n || PREF(W_) != PREF(F_) || !(SIZE_EL(W_) && EFF_OR0(W_) > 0) ||
                    (SIZE_EL(F_) && EFF_OR0(F_) >= EFF_OR0(W_))) /*@C09*/
  __CPROVER_ensures(cgroups.n == 0 || g_w >= cgroups.n || PREF(W_) != PREF(F_) || SIZE_EL(F_) || SIZE_EL(W_) || !(GROWTH_EL(W_) && GRO_OR0(W_) > (float)0) ||
                    (GROWTH_EL(F_) && GRO_OR0(F_) >= GRO_OR0(W_))) /*@C09*/
  __CPROVER_ensures(cgroups.n == 0 || g_w >= cgroups.n || PREF(W_) != PREF(F_) || SIZE_EL(F_) || GROWTH_EL(F_) || SIZE_EL(W_) || GROWTH_EL(W_) ||
                    EFF_OR0(F_) >= EFF_OR0(W_)) /*@C09*/;
/* sortDescWithKillPrefs is handed the key functor KEYFN */
#undef OomdContext__sortDescWithKillPrefs__vec_CgroupContext_lambda_t
#define OomdContext__sortDescWithKillPrefs__vec_CgroupContext_lambda_t(v, keyfn) OomdContext__sortDescWithKillPrefs(v, keyfn)
void h_rank(void) { OomdContext *x; vec_CgroupContext v; HAVOC_SORT(); HAVOC(g_plugin); HAVOC(g_thr_size); HAVOC(g_thr_growth); HAVOC(g_sum_on); HAVOC(g_sum_vid); HAVOC(g_sum_visits); HAVOC(g_sum_acc); HAVOC(g_nth); HAVOC(g_ns0); HAVOC(g_nw); HAVOC(g_npw);
  SET_N(v); KillMemoryGrowth__rankForKilling(g_self, x, v); CANARY; }

/* ---- init(): which parser fills which parameter ---- */
float __CPROVER_uninterpreted_stof(str_t); int __CPROVER_uninterpreted_stoi(str_t); int __CPROVER_uninterpreted_sto_throws(str_t);
/* std::stoi / std::stof: a value, or invalid_argument / out_of_range */
static inline int ext__stoi(str_t s) { if (__CPROVER_uninterpreted_sto_throws(s) != 0) ghost_exc = EXC_invalid_argument; return __CPROVER_uninterpreted_stoi(s); }
static inline float ext__stof(str_t s) { if (__CPROVER_uninterpreted_sto_throws(s) != 0) ghost_exc = EXC_invalid_argument; return __CPROVER_uninterpreted_stof(s); }
#define PluginArgParser__parseUnsignedInt ((function_t)21)
#define FN_PERCENTILE ((function_t)22)
#define FN_RATIO ((function_t)23)
#undef function_t__from__lambda_t
#define function_t__from__lambda_t(x) FNID__##x
#define FNID__KillMemoryGrowth__init__lambda_addArgumentCustom FN_PERCENTILE
#define FNID__KillMemoryGrowth__init__lambda_addArgumentCustom_2 FN_RATIO
#define FNID__lambda_bind__KillMemoryGrowth__get_ranking_fn__lambda_ret(ps, pg) ((function_t)lambda_bind__KillMemoryGrowth__get_ranking_fn__lambda_ret(ps, pg))
function_t g_reg_size, g_reg_pct, g_reg_ratio;
void PluginArgParser__addArgumentCustom__str_t_int_function_t(PluginArgParser p, str_t name, int *dest, function_t fn)
{ if (name == STR_size_threshold && dest == &g_plugin.size_threshold_) g_reg_size = fn;
  if (name == STR_growing_size_percentile && dest == &g_plugin.growing_size_percentile_) g_reg_pct = fn; }
void PluginArgParser__addArgumentCustom__str_t_float_function_t(PluginArgParser p, str_t name, float *dest, function_t fn)
{ if (name == STR_min_growth_ratio && dest == &g_plugin.min_growth_ratio_) g_reg_ratio = fn; }
int nondet_int(void);
int BaseKillPlugin__init(KillMemoryGrowth *self, umap_str_t_str_t args, PluginConstructionContext c) { return nondet_int(); }
int KillMemoryGrowth__init(KillMemoryGrowth *self, umap_str_t_str_t args, PluginConstructionContext context)
  __CPROVER_requires(self == g_self && g_reg_size == 0 && g_reg_pct == 0 && g_reg_ratio == 0 && ghost_exc == 0)
  __CPROVER_assigns(g_reg_size, g_reg_pct, g_reg_ratio)
  /* size_threshold: a non-negative integer; growing_size_percentile: an integer in [0, 100); min_growth_ratio: a non-negative FRACTION */
  __CPROVER_ensures(g_reg_size == PluginArgParser__parseUnsignedInt && g_reg_pct == FN_PERCENTILE && g_reg_ratio == FN_RATIO && ghost_exc == 0) /*@C09*/;
int KillMemoryGrowth__init__lambda_addArgumentCustom(str_t s)
  __CPROVER_requires(ghost_exc == 0) __CPROVER_assigns(ghost_exc)
  __CPROVER_ensures((__CPROVER_uninterpreted_sto_throws(s) != 0 || __CPROVER_uninterpreted_stoi(s) < 0 || __CPROVER_uninterpreted_stoi(s) >= 100)
                    ? ghost_exc == EXC_invalid_argument : (ghost_exc == 0 && __CPROVER_return_value == __CPROVER_uninterpreted_stoi(s))) /*@C09*/;
float KillMemoryGrowth__init__lambda_addArgumentCustom_2(str_t s)
  __CPROVER_requires(ghost_exc == 0) __CPROVER_assigns(ghost_exc)
  /* the ratio acts at exactly the configured fractional value */
  __CPROVER_ensures((__CPROVER_uninterpreted_sto_throws(s) != 0 || __CPROVER_uninterpreted_stof(s) < (float)0)
                    ? ghost_exc == EXC_invalid_argument : (ghost_exc == 0 && __CPROVER_equal(__CPROVER_return_value, __CPROVER_uninterpreted_stof(s)))) /*@C09*/;
void h_init(void) { PluginConstructionContext c; umap_str_t_str_t a; HAVOC_SORT(); HAVOC(g_plugin); HAVOC(g_reg_size); HAVOC(g_reg_pct); HAVOC(g_reg_ratio); KillMemoryGrowth__init(g_self, a, c); CANARY; }
void h_pct(void) { str_t s; HAVOC_SORT(); KillMemoryGrowth__init__lambda_addArgumentCustom(s); CANARY; }
void h_ratio(void) { str_t s; HAVOC_SORT(); KillMemoryGrowth__init__lambda_addArgumentCustom_2(s); CANARY; }
