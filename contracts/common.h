/* common.h — ghost state shared by all units (definitions; acxx.h has the externs) */
#ifndef VERIF_COMMON_H
#define VERIF_COMMON_H
exc_t ghost_exc;
exc_t ghost_exc_caught;
int ghost_log_enabled;
int ghost_errno;
tp_t g_last_now;               /* last value returned by steady_clock::now() (monotone clock) */
#ifndef VEC_MAX
#define VEC_MAX (1UL << 20)    /* symbolic vector lengths are <= VEC_MAX; loops are closed by invariants */
#define HAVOC(v) do { __typeof__(v) __h; v = __h; } while (0)   /* make a (zero-initialised) global arbitrary */
#endif
/* floor((a - b) / 1s) for a >= b, on (sec,nsec) pairs — no division */
#define SEC_DIFF(a, b) ((a).sec - (b).sec - (((a).nsec < (b).nsec) ? 1 : 0))
#define FINITE_F(x) ((x) >= -1.0e6f && (x) <= 1.0e6f)
#define HAVOC(v) do { __typeof__(v) __h; v = __h; } while (0)   /* make a (zero-initialised) global arbitrary */
#endif
