/* pressure_common.h — ghost "most pressured cgroup" accumulators and accessor stubs shared by
 * pressure_above and pressure_rising_beyond (ASSUMED boundary: nondeterministic finite pressures) */
#include "common.h"

#define RP_W(p) F_ADD_f(F_ADD_f(F_MUL_f((p).sec_10, 3.0f), F_MUL_f((p).sec_60, 2.0f)), (p).sec_300)
#define RP_EQ(a, b) (__CPROVER_equal((a).sec_10, (b).sec_10) && __CPROVER_equal((a).sec_60, (b).sec_60) && __CPROVER_equal((a).sec_300, (b).sec_300))
#define RP_FINITE(p) (FINITE_F((p).sec_10) && FINITE_F((p).sec_60) && FINITE_F((p).sec_300))
#define RP_ZERO(p) (__CPROVER_equal((p).sec_10, 0.0f) && __CPROVER_equal((p).sec_60, 0.0f) && __CPROVER_equal((p).sec_300, 0.0f))

/* ghost: running "most pressured so far" per resource, and call counts */
ResourcePressure g_best_mem, g_best_io;
uint64_t g_calls_mem, g_calls_io, g_calls_usage, g_elems;
CgroupContext g_cur_elem;
uint64_t g_vec_n;

/* ---- boundary stubs (ASSUMED models; bodies are ghost code, results nondeterministic) ---- */
vec_CgroupContext nondet_vec_CgroupContext(void);
CgroupContext nondet_CgroupContext(void);
opt_ResourcePressure nondet_opt_ResourcePressure(void);
opt_int64_t nondet_opt_int64_t(void);

vec_CgroupContext OomdContext__addToCacheAndGet__uset_CgroupPath(OomdContext ctx, uset_CgroupPath cgroups)
{
  vec_CgroupContext v = nondet_vec_CgroupContext();
  __CPROVER_assume(v.n <= VEC_MAX);
  g_vec_n = v.n;
  return v;
}

CgroupContext vec_CgroupContext__elem(uint64_t vid, uint64_t i)
{
  CgroupContext c = nondet_CgroupContext();
  g_cur_elem = c;
  g_elems = g_elems + 1;
  return c;
}

static inline ResourcePressure rp_zero(void) { ResourcePressure z; z.sec_10 = 0.0f; z.sec_60 = 0.0f; z.sec_300 = 0.0f; z.total.has = 0; return z; }

opt_ResourcePressure CgroupContext__mem_pressure(CgroupContext cg)
{
  __CPROVER_assert(cg == g_cur_elem, "pressure is read from the cgroup being iterated");
  opt_ResourcePressure r = nondet_opt_ResourcePressure();
  __CPROVER_assume(!r.has || RP_FINITE(r.val));
  ResourcePressure v = r.has ? r.val : rp_zero();
  if (RP_W(v) > RP_W(g_best_mem)) g_best_mem = v;
  g_calls_mem = g_calls_mem + 1;
  return r;
}

opt_ResourcePressure CgroupContext__io_pressure(CgroupContext cg)
{
  __CPROVER_assert(cg == g_cur_elem, "pressure is read from the cgroup being iterated");
  opt_ResourcePressure r = nondet_opt_ResourcePressure();
  __CPROVER_assume(!r.has || RP_FINITE(r.val));
  ResourcePressure v = r.has ? r.val : rp_zero();
  if (RP_W(v) > RP_W(g_best_io)) g_best_io = v;
  g_calls_io = g_calls_io + 1;
  return r;
}

opt_int64_t CgroupContext__current_usage(CgroupContext cg)
{
  g_calls_usage = g_calls_usage + 1;
  return nondet_opt_int64_t();
}

