/* Contracts for MemoryReclaim::run (C08: memory_reclaim)
 *   pgscan  = sum over matched cgroups of memory.stat["pgscan"] (absent stat / key contributes 0)
 *   last growth time g' = (pgscan > pgscan at previous tick) ? now : g
 *   CONTINUE <=> floor_sec(now - g') <= duration
 * Base case (first tick): previous pgscan 0, g = epoch (field initialisers) — see DESIGN.md §5 row 18.
 */
#include "detector_stubs.h"
/* kPgscan = "pgscan" is read from the file-scope constant in MemoryReclaim.cpp (STR_pgscan) */
int64_t g_sum;
uint64_t g_calls_stat;
opt_umap_str_t_int64_t nondet_opt_umap(void);
mapit_pair_str_t_int64_t nondet_mapit(void);
pair_str_t_int64_t nondet_pair(void);

opt_umap_str_t_int64_t CgroupContext__memory_stat(CgroupContext cg)
{
  __CPROVER_assert(cg == g_cur_elem, "memory.stat is read from the cgroup being iterated");
  g_calls_stat = g_calls_stat + 1;
  return nondet_opt_umap();
}
/* find: either end() or the position of the entry for `key`; its value is added to the ghost sum */
pair_str_t_int64_t g_found;
mapit_pair_str_t_int64_t umap_str_t_int64_t__find(umap_str_t_int64_t m, str_t key)
{
  mapit_pair_str_t_int64_t it = nondet_mapit();
  it.map = m; it.valid = 1; it.n = umap_str_t_int64_t__size(m);
  __CPROVER_assume(it.pos <= it.n);
  if (it.pos < it.n)
  {
    g_found = nondet_pair();
    __CPROVER_assume(g_found.first == key && g_found.second >= 0 && g_found.second <= (1L << 40));
    if (key == STR_pgscan) g_sum = g_sum + g_found.second;
  }
  return it;
}
pair_str_t_int64_t mapit_pair_str_t_int64_t__elem(hnd_t m, uint64_t pos) { return g_found; }

PluginRet MemoryReclaim__run(MemoryReclaim *self, OomdContext ctx)
  __CPROVER_requires(__CPROVER_is_fresh(self, sizeof(*self)) && ghost_exc == 0)
  __CPROVER_requires(TP_VALID(g_last_now) && TP_VALID(self->last_reclaim_at_) && TP_LE(self->last_reclaim_at_, g_last_now))
  __CPROVER_requires(g_sum == 0 && g_calls_stat == 0 && g_elems == 0)
  __CPROVER_assigns(self->last_pgscan_, self->last_reclaim_at_, g_last_now, g_sum, g_calls_stat, g_elems, g_cur_elem, g_vec_n, g_found)
  __CPROVER_ensures(g_elems == g_vec_n && g_calls_stat == g_vec_n)
  __CPROVER_ensures((g_sum > __CPROVER_old(self->last_pgscan_)) ? TP_EQ(self->last_reclaim_at_, g_last_now)
                                                               : TP_EQ(self->last_reclaim_at_, __CPROVER_old(self->last_reclaim_at_)))
  __CPROVER_ensures((__CPROVER_return_value == PluginRet__CONTINUE) == (SEC_DIFF(g_last_now, self->last_reclaim_at_) <= (int64_t)self->duration_))
  __CPROVER_ensures(__CPROVER_return_value == PluginRet__CONTINUE || __CPROVER_return_value == PluginRet__STOP)
  __CPROVER_ensures(self->last_pgscan_ == g_sum)
  __CPROVER_ensures(TP_VALID(self->last_reclaim_at_) && TP_LE(self->last_reclaim_at_, g_last_now))
  __CPROVER_ensures(ghost_exc == 0);

#define LOOPC_MemoryReclaim__run_1 \
  __CPROVER_assigns(__begin1, pgscan, g_sum, g_calls_stat, g_elems, g_cur_elem, g_found) \
  __CPROVER_loop_invariant(__begin1.i <= __begin1.n && __begin1.n == __end1.i && __begin1.n == g_vec_n && g_elems == __begin1.i) \
  __CPROVER_loop_invariant(g_calls_stat == __begin1.i && pgscan == g_sum && g_sum >= 0 && (uint64_t)g_sum <= (__begin1.i << 40)) \
  __CPROVER_decreases(__begin1.n - __begin1.i)

void h_MemoryReclaim__run(void)
{
  MemoryReclaim *self; OomdContext ctx;
  HAVOC(g_last_now); HAVOC(g_sum); HAVOC(g_calls_stat); HAVOC(g_elems); HAVOC(ghost_exc);
  MemoryReclaim__run(self, ctx);
  __CPROVER_assert(0, "canary: contract precondition satisfiable and function exit reachable");
}

/* ================= init(): the arguments this plugin declares (C12) =================
 * Names and required flags as documented in docs/core_plugins.md, with one deliberate difference: `cgroup` is declared
 * optional by every plugin except senpai, because a ruleset-level `cgroup` supplies it per instance
 * (Ruleset::registerRunnableRulesetForCgroupPath, unit ruleset_cgroup). */
#include "init_common.h"
DEF_PARSE(PluginArgParser)
uset_CgroupPath PluginArgParser__parseCgroup(PluginConstructionContext c, str_t s);
void PluginArgParser__addArgumentCustom__str_t_uset_CgroupPath_function_t__Bool(PluginArgParser p, str_t name, uset_CgroupPath dest, function_t fn, _Bool required)
{ __CPROVER_assert(fn == (function_t)7, "the cgroup argument is parsed by PluginArgParser::parseCgroup with this plugin's construction context"); REG(name, (const void *)(long)dest, required, 1); }
#define lambda_bind__MemoryReclaim__init__lambda_addArgumentCustom(ctx) ((lambda_t)7)
DEF_ADDARG(int, int)
int MemoryReclaim__init(MemoryReclaim *self, umap_str_t_str_t args, PluginConstructionContext context)
  __CPROVER_requires(__CPROVER_is_fresh(self, sizeof(*self)) && ghost_exc == 0 && g_reg_n == 0 && g_parse_calls == 0)
  __CPROVER_assigns(REG_ASSIGNS)
  __CPROVER_ensures(INIT_CORE(2)) /*@C12*/
  __CPROVER_ensures(HASREG(STR_cgroup, (long)self->cgroups_, 0) && HASREG(STR_duration, &self->duration_, 1)) /*@C12,C08*/
  __CPROVER_ensures(ghost_exc == 0);
void h_MemoryReclaim__init(void) { MemoryReclaim *self; umap_str_t_str_t a; PluginConstructionContext c; HAVOC_REG(); HAVOC(ghost_exc); MemoryReclaim__init(self, a, c); __CPROVER_assert(0, "canary: contract precondition satisfiable and function exit reachable"); }
