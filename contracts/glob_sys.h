/* C view of glob(3)'s result (ASSUMED): gl_pathc matches, gl_pathv[i] the i-th matched path */
typedef struct glob_t { uint64_t gl_pathc; int gl_pathv; } glob_t;
