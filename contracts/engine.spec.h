/* Contracts for Oomd::Engine::Engine (C02 evaluation order, C13 drop-in bookkeeping, C07 hook choice).
 *
 * Element model: `rulesets_` is a vector of BaseRuleset structs; a reference to element i is a
 * pointer to the ghost slot g_base (arbitrary well-formed content, re-havocked by the loop contract
 * on every iteration => every statement about "the base ruleset" holds for each of them).  The base
 * ruleset of element i has handle BASE_H+i, drop-in j of the current base has handle DROPIN_H+j.
 */
#define VEC_MAX (1UL << 15)   /* symbolic bound on every list in this unit: 32768 base rulesets x 32768 drop-ins each */
#include "common.h"
#define BASE_H 1100000
#define DROPIN_H 1300000
#define HOOK_H 1500000
_Bool nondet_bool(void); int nondet_int(void); uint32_t nondet_u32(void); str_t nondet_str(void); uint64_t nondet_u64(void);

Engine_BaseRuleset g_base; uint64_t g_base_idx;
Engine_DropInRuleset g_dropin; uint64_t g_drop_idx;
Engine_TaggedPrekillHook g_hook; uint64_t g_hook_idx;
uint64_t g_bases_done;      /* base rulesets evaluated so far (each asserts it is the next one) */
uint64_t g_drop_seen, g_drop_nonnull, g_drop_runs;   /* per current base */
uint32_t g_ret_sum;         /* sum of the drop-ins' runOnce() results */
uint64_t g_stat_plus, g_stat_minus;   /* oomd.dropin.added: sum of increments / of decrements */
uint32_t g_stat_fired; uint64_t g_stat_fired_calls;
uint64_t g_targeted_calls, g_untargeted_calls;

Engine_BaseRuleset *vecit_Engine_BaseRuleset__ref(vecit_Engine_BaseRuleset it)
{
  __CPROVER_assert(it.i < it.n, "UB: vector iterator dereferenced at or past end()");
  g_base_idx = it.i;
  g_base.ruleset = (uptr_Ruleset)(BASE_H + it.i);
  return &g_base;
}
Engine_DropInRuleset *deqit_Engine_DropInRuleset__ref(deqit_Engine_DropInRuleset it)
{
  __CPROVER_assert(it.i < it.n, "UB: deque iterator dereferenced at or past end()");
  __CPROVER_assert(it.i == g_drop_seen, "drop-ins are visited front (newest) to back, each once"); /*@C02,C13*/
  g_drop_idx = it.i;
  g_dropin.ruleset = nondet_bool() ? (uptr_Ruleset)(DROPIN_H + it.i) : (uptr_Ruleset)0;
  g_dropin.tag = nondet_str();
  g_drop_seen = g_drop_seen + 1;
  if (g_dropin.ruleset != 0) g_drop_nonnull = g_drop_nonnull + 1;
  return &g_dropin;
}
Engine_TaggedPrekillHook *vecrit_Engine_TaggedPrekillHook__ref(vecrit_Engine_TaggedPrekillHook it)
{
  __CPROVER_assert(it.i > 0 && it.i <= it.n, "UB: reverse iterator dereferenced at rend()");
  g_hook_idx = it.i - 1;
  g_hook.hook = (uptr_PrekillHook)(HOOK_H + it.i - 1);
  return &g_hook;
}

static inline void ruleset_step(Ruleset r, _Bool is_run)
{
  if (r == (Ruleset)g_base.ruleset)
  {
    __CPROVER_assert(g_base_idx == g_bases_done, "base rulesets are evaluated in configuration order, each exactly once"); /*@C02*/
    __CPROVER_assert(g_drop_seen == g_base.dropins.n && g_drop_runs == g_drop_nonnull,
                     "a base ruleset is evaluated after all of its drop-ins, and every drop-in was evaluated"); /*@C02,C13*/
    g_bases_done = g_bases_done + 1;
    g_drop_seen = 0; g_drop_nonnull = 0; g_drop_runs = 0;   /* per-base counters restart for the next base */
  }
  else
  {
    __CPROVER_assert(r == (Ruleset)(DROPIN_H + g_drop_idx) && g_dropin.ruleset != 0 && g_base_idx == g_bases_done,
                     "a drop-in is evaluated when reached, before its base"); /*@C02,C13*/
    g_drop_runs = g_drop_runs + 1;
  }
}
void Ruleset__prerun(Ruleset r, OomdContext c) { ruleset_step(r, 0); }
uint32_t Ruleset__runOnce(Ruleset r, OomdContext c)
{
  ruleset_step(r, 1);
  uint32_t x = nondet_u32();
  __CPROVER_assume(x <= 1);
  if (r != (Ruleset)g_base.ruleset) g_ret_sum = g_ret_sum + x;
  return x;
}
void incrementStat(str_t key, int delta)
{
  if (key == STR_oomd_dropin_added)
  {
    if (delta >= 0) g_stat_plus = g_stat_plus + (uint64_t)delta;
    else g_stat_minus = g_stat_minus + (uint64_t)(-(int64_t)delta);
  }
  else
  {
    __CPROVER_assert(key == STR_oomd_dropin_fired, "only the two drop-in statistics are touched");
    __CPROVER_assert(delta >= 0, "the fired counter only grows");
    g_stat_fired = (uint32_t)delta; g_stat_fired_calls = g_stat_fired_calls + 1;
  }
}
void Ruleset__markDropInTargeted(Ruleset r)
{
  __CPROVER_assert(r == (Ruleset)g_base.ruleset, "the targeted base ruleset is the one marked");
  g_targeted_calls = g_targeted_calls + 1;
}
void Ruleset__markDropInUntargeted(Ruleset r)
{
  __CPROVER_assert(r == (Ruleset)g_base.ruleset, "the base ruleset that lost drop-ins is the one unmarked");
  g_untargeted_calls = g_untargeted_calls + 1;
}
str_t Ruleset__getName(Ruleset r) { return (str_t)r; }   /* injective naming */

#define ENG_WF(s) ((s)->rulesets_.n <= VEC_MAX && (s)->prekill_hooks_in_reverse_order_.n <= VEC_MAX)
#define BASE_WF (g_base.dropins.n <= VEC_MAX)
#define ENG_LOOP_OUTER(extra_assigns, extra_inv) \
  __CPROVER_assigns(__begin2, g_base, g_base_idx, g_dropin, g_drop_idx, g_bases_done, g_drop_seen, g_drop_nonnull, g_drop_runs extra_assigns) \
  __CPROVER_loop_invariant(__begin2.i <= __begin2.n && __begin2.n == self->rulesets_.n && __end2.i == __begin2.n) \
  __CPROVER_loop_invariant(g_bases_done == __begin2.i && g_drop_seen == 0 && g_drop_nonnull == 0 && g_drop_runs == 0 && BASE_WF extra_inv) \
  __CPROVER_decreases(__begin2.n - __begin2.i)
#define ENG_LOOP_INNER(extra_assigns, extra_inv) \
  __CPROVER_assigns(__begin3, g_dropin, g_drop_idx, g_drop_seen, g_drop_nonnull, g_drop_runs extra_assigns) \
  __CPROVER_loop_invariant(__begin3.i <= __begin3.n && __begin3.n == (*base).dropins.n && __end3.i == __begin3.n && base == &g_base) \
  __CPROVER_loop_invariant(g_drop_seen == __begin3.i && g_drop_runs == g_drop_nonnull && g_drop_nonnull <= g_drop_seen && g_base_idx == g_bases_done extra_inv) \
  __CPROVER_decreases(__begin3.n - __begin3.i)

/* ---- C02: prerun / runOnce visit, for each base in configuration order, its drop-ins newest first, then the base */
void Engine__prerun(Engine *self, OomdContext context)
  __CPROVER_requires(__CPROVER_is_fresh(self, sizeof(*self)) && ENG_WF(self) && BASE_WF && ghost_exc == 0)
  __CPROVER_requires(g_bases_done == 0 && g_drop_seen == 0 && g_drop_nonnull == 0 && g_drop_runs == 0)
  __CPROVER_assigns(g_base, g_base_idx, g_dropin, g_drop_idx, g_bases_done, g_drop_seen, g_drop_nonnull, g_drop_runs)
  __CPROVER_ensures(g_bases_done == self->rulesets_.n && ghost_exc == 0); /*@C02*/
#define LOOPC_Engine__prerun_1 ENG_LOOP_OUTER(,)
#define LOOPC_Engine__prerun_2 ENG_LOOP_INNER(,)

void Engine__runOnce(Engine *self, OomdContext context)
  __CPROVER_requires(__CPROVER_is_fresh(self, sizeof(*self)) && ENG_WF(self) && BASE_WF && ghost_exc == 0)
  __CPROVER_requires(g_bases_done == 0 && g_drop_seen == 0 && g_drop_nonnull == 0 && g_drop_runs == 0 && g_ret_sum == 0 && g_stat_fired_calls == 0)
  __CPROVER_assigns(g_base, g_base_idx, g_dropin, g_drop_idx, g_bases_done, g_drop_seen, g_drop_nonnull, g_drop_runs, g_ret_sum, g_stat_fired, g_stat_fired_calls, g_stat_plus, g_stat_minus)
  __CPROVER_ensures(g_bases_done == self->rulesets_.n) /*@C02*/
  __CPROVER_ensures(g_stat_fired_calls == 1 && g_stat_fired == g_ret_sum && ghost_exc == 0);
#define LOOPC_Engine__runOnce_1 ENG_LOOP_OUTER(COMMA g_ret_sum COMMA nr_dropins_run, && nr_dropins_run == g_ret_sum && g_ret_sum <= __begin2.i * VEC_MAX)
#define LOOPC_Engine__runOnce_2 ENG_LOOP_INNER(COMMA g_ret_sum COMMA nr_dropins_run, && nr_dropins_run == g_ret_sum && g_ret_sum <= g_base_idx * VEC_MAX + __begin3.i && g_base_idx < VEC_MAX)
#define COMMA ,

/* ---- C13: addDropInRuleset ---- */
uint64_t g_find_pos;
vecit_Engine_BaseRuleset ext__find_if__vecit_Engine_BaseRuleset_vecit_Engine_BaseRuleset_lambda_t(vecit_Engine_BaseRuleset first, vecit_Engine_BaseRuleset last, void *pred)
{
  vecit_Engine_BaseRuleset r = first;
  r.i = nondet_u64();
  __CPROVER_assume(r.i >= first.i && r.i <= last.i);
  g_find_pos = r.i;
  return r;
}
uint64_t g_front_pushes; str_t g_front_tag; uptr_Ruleset g_front_rs;
void deq_Engine_DropInRuleset__emplace_front(deq_Engine_DropInRuleset *d, Engine_DropInRuleset x)
{
  __CPROVER_assert(d == &g_base.dropins, "the drop-in is added to the targeted base ruleset's list");
  __CPROVER_assume(d->n < VEC_MAX);
  d->n = d->n + 1;
  g_front_pushes = g_front_pushes + 1; g_front_tag = x.tag; g_front_rs = x.ruleset;
}
_Bool Engine__addDropInRuleset(Engine *self, str_t tag, uptr_Ruleset ruleset)
  __CPROVER_requires(__CPROVER_is_fresh(self, sizeof(*self)) && ENG_WF(self) && BASE_WF && ghost_exc == 0)
  __CPROVER_requires(g_front_pushes <= VEC_MAX && g_targeted_calls <= VEC_MAX && g_stat_plus <= (1UL << 40))
  __CPROVER_assigns(g_base, g_base_idx, g_find_pos, g_front_pushes, g_front_tag, g_front_rs, g_targeted_calls, g_stat_plus)
  /* refused (null or unknown target): nothing is added anywhere */ /*@C13*/
  __CPROVER_ensures(!__CPROVER_return_value ? (g_front_pushes == __CPROVER_old(g_front_pushes) && g_targeted_calls == __CPROVER_old(g_targeted_calls) &&
                                               g_stat_plus == __CPROVER_old(g_stat_plus)) : 1)
  __CPROVER_ensures(__CPROVER_return_value == (ruleset != 0 && g_find_pos < self->rulesets_.n))
  /* accepted: pushed at the FRONT of the target's list with this tag, base marked once, stat +1 */ /*@C13*/
  __CPROVER_ensures(__CPROVER_return_value ? (g_front_pushes == __CPROVER_old(g_front_pushes) + 1 && g_front_tag == tag && g_front_rs == ruleset &&
                                              g_base_idx == g_find_pos && g_targeted_calls == __CPROVER_old(g_targeted_calls) + 1 &&
                                              g_stat_plus == __CPROVER_old(g_stat_plus) + 1) : 1)
  __CPROVER_ensures(BASE_WF && ghost_exc == 0);

/* ---- C13: removeDropInConfig ---- */
uint64_t g_removed_here;      /* number of entries of the current base carrying the tag (remove_if result) */
uint64_t g_removed_total; uint64_t g_erased_total;
uint64_t g_hooks_removed; _Bool g_hooks_erased;
deqit_Engine_DropInRuleset ext__remove_if__deqit_Engine_DropInRuleset_deqit_Engine_DropInRuleset_lambda_t(deqit_Engine_DropInRuleset first, deqit_Engine_DropInRuleset last, void *pred)
{
  /* std::remove_if: survivors keep their relative order at the front; returns the new logical end (ASSUMED) */
  __CPROVER_assert(first.i == 0 && last.i == g_base.dropins.n, "remove_if over the whole list of this base");
  deqit_Engine_DropInRuleset r = first;
  r.i = nondet_u64();
  __CPROVER_assume(r.i <= last.i);
  g_removed_here = last.i - r.i;
  g_removed_total = g_removed_total + g_removed_here;
  return r;
}
deqit_Engine_DropInRuleset deq_Engine_DropInRuleset__erase(deq_Engine_DropInRuleset *d, deqit_Engine_DropInRuleset first, deqit_Engine_DropInRuleset last)
{
  __CPROVER_assert(d == &g_base.dropins && last.i == d->n && first.i == d->n - g_removed_here,
                   "exactly the tail returned by remove_if is erased");
  d->n = d->n - (last.i - first.i);
  g_erased_total = g_erased_total + (last.i - first.i);
  return first;
}
vecit_Engine_TaggedPrekillHook ext__remove_if__vecit_Engine_TaggedPrekillHook_vecit_Engine_TaggedPrekillHook_lambda_t(vecit_Engine_TaggedPrekillHook first, vecit_Engine_TaggedPrekillHook last, void *pred)
{
  vecit_Engine_TaggedPrekillHook r = first;
  r.i = nondet_u64();
  __CPROVER_assume(r.i >= first.i && r.i <= last.i);
  g_hooks_removed = last.i - r.i;
  return r;
}
/* std::partition / std::stable_partition (not used at the pinned commit): like remove_if they return the boundary, but
   std::partition does NOT keep the relative order of the elements it keeps - for prekill hooks that order IS the priority */
_Bool g_hooks_order_kept;
vecit_Engine_TaggedPrekillHook ext__partition__vecit_Engine_TaggedPrekillHook_vecit_Engine_TaggedPrekillHook_lambda_t(vecit_Engine_TaggedPrekillHook first, vecit_Engine_TaggedPrekillHook last, void *pred)
{ vecit_Engine_TaggedPrekillHook r = first; r.i = nondet_u64(); __CPROVER_assume(r.i >= first.i && r.i <= last.i); g_hooks_removed = last.i - r.i; g_hooks_order_kept = 0; return r; }
vecit_Engine_TaggedPrekillHook ext__stable_partition__vecit_Engine_TaggedPrekillHook_vecit_Engine_TaggedPrekillHook_lambda_t(vecit_Engine_TaggedPrekillHook first, vecit_Engine_TaggedPrekillHook last, void *pred)
{ vecit_Engine_TaggedPrekillHook r = first; r.i = nondet_u64(); __CPROVER_assume(r.i >= first.i && r.i <= last.i); g_hooks_removed = last.i - r.i; return r; }
#define ext__partition(a, b, p) ext__partition__vecit_Engine_TaggedPrekillHook_vecit_Engine_TaggedPrekillHook_lambda_t((a), (b), (void *)0)
#define ext__stable_partition(a, b, p) ext__stable_partition__vecit_Engine_TaggedPrekillHook_vecit_Engine_TaggedPrekillHook_lambda_t((a), (b), (void *)0)
vecit_Engine_TaggedPrekillHook vec_Engine_TaggedPrekillHook__erase(vec_Engine_TaggedPrekillHook *v, vecit_Engine_TaggedPrekillHook first, vecit_Engine_TaggedPrekillHook last)
{
  __CPROVER_assert(last.i == v->n && first.i == v->n - g_hooks_removed, "exactly the hooks carrying the tag are erased");
  v->n = v->n - (last.i - first.i);
  g_hooks_erased = 1;
  return first;
}
void Engine__removeDropInConfig(Engine *self, str_t tag)
  __CPROVER_requires(__CPROVER_is_fresh(self, sizeof(*self)) && ENG_WF(self) && BASE_WF && ghost_exc == 0)
  __CPROVER_requires(g_removed_total == 0 && g_erased_total == 0 && g_untargeted_calls <= VEC_MAX && g_stat_minus <= (1UL << 40))
  __CPROVER_assigns(self->prekill_hooks_in_reverse_order_, g_base, g_base_idx, g_removed_here, g_removed_total, g_erased_total,
                    g_untargeted_calls, g_stat_minus, g_hooks_removed, g_hooks_erased, g_hooks_order_kept)
  /* every tagged entry erased; each costs its base exactly one untarget; the stat drops by the same number */ /*@C13*/
  __CPROVER_ensures(g_erased_total == g_removed_total && g_untargeted_calls == __CPROVER_old(g_untargeted_calls) + g_removed_total &&
                    g_stat_minus == __CPROVER_old(g_stat_minus) + g_removed_total)
  __CPROVER_ensures(g_hooks_erased && self->prekill_hooks_in_reverse_order_.n == __CPROVER_old(self->prekill_hooks_in_reverse_order_.n) - g_hooks_removed) /*@C13,C07*/
  /* the hooks that stay keep their relative order: it is their priority (newest drop-in first, config order within one) */ /*@C07*/
  __CPROVER_ensures(g_hooks_order_kept)
  __CPROVER_ensures(BASE_WF && ghost_exc == 0);
#define LOOPC_Engine__removeDropInConfig_1 \
  __CPROVER_assigns(__begin2, g_base, g_base_idx, g_removed_here, g_removed_total, g_erased_total, g_untargeted_calls, g_stat_minus) \
  __CPROVER_loop_invariant(__begin2.i <= __begin2.n && __begin2.n == self->rulesets_.n && __end2.i == __begin2.n && BASE_WF) \
  __CPROVER_loop_invariant(g_removed_total <= __begin2.i * VEC_MAX && g_erased_total == g_removed_total && \
                           g_untargeted_calls == __CPROVER_loop_entry(g_untargeted_calls) + g_removed_total && \
                           g_stat_minus == __CPROVER_loop_entry(g_stat_minus) + g_removed_total) \
  __CPROVER_decreases(__begin2.n - __begin2.i)
#define LOOPC_Engine__removeDropInConfig_2 \
  __CPROVER_assigns(i, g_untargeted_calls) \
  __CPROVER_loop_invariant(0 <= i && i <= n && g_untargeted_calls == __CPROVER_loop_entry(g_untargeted_calls) + (uint64_t)i) \
  __CPROVER_decreases(n - i)

/* ---- C13: addDropInConfig (callees by contract) ---- */
uint64_t g_add_calls; _Bool g_add_failed; uint64_t g_remove_calls; uint64_t g_hook_pushes;
_Bool Engine__addDropInRuleset_stub_note;
uptr_Ruleset vec_uptr_Ruleset__elem(uint64_t vid, uint64_t i) { return (uptr_Ruleset)(DROPIN_H + i); }
uptr_PrekillHook vec_uptr_PrekillHook__elem(uint64_t vid, uint64_t i) { return (uptr_PrekillHook)(HOOK_H + i); }
uint64_t g_hook_last_idx;
void vec_Engine_TaggedPrekillHook__emplace_back(vec_Engine_TaggedPrekillHook *v, Engine_TaggedPrekillHook x)
{
  __CPROVER_assert(x.dropin_tag.has, "drop-in hooks are tagged");
  __CPROVER_assert(x.hook == (uptr_PrekillHook)(HOOK_H + g_hook_last_idx - 1) , "the unit's hooks are appended last-to-first, so that they are tried in file order before older hooks"); /*@C13,C07*/
  g_hook_last_idx = g_hook_last_idx - 1;
  v->n = v->n + 1;
  g_hook_pushes = g_hook_pushes + 1;
}

_Bool Engine__addDropInConfig(Engine *self, str_t tag, DropInUnit unit)
  __CPROVER_requires(__CPROVER_is_fresh(self, sizeof(*self)) && ENG_WF(self) && BASE_WF && ghost_exc == 0)
  __CPROVER_requires(unit.rulesets.n <= VEC_MAX && unit.prekill_hooks.n <= VEC_MAX && g_hook_last_idx == unit.prekill_hooks.n)
  __CPROVER_requires(g_front_pushes == 0 && g_targeted_calls == 0 && g_stat_plus == 0 && g_stat_minus == 0 && g_untargeted_calls == 0 &&
                     g_removed_total == 0 && g_erased_total == 0 && !g_hooks_erased && g_hook_pushes == 0)
  __CPROVER_assigns(self->prekill_hooks_in_reverse_order_, g_base, g_base_idx, g_find_pos, g_front_pushes, g_front_tag, g_front_rs, g_targeted_calls,
                    g_stat_plus, g_stat_minus, g_removed_here, g_removed_total, g_erased_total, g_untargeted_calls, g_hooks_removed, g_hooks_erased,
                    g_hook_pushes, g_hook_last_idx, g_hooks_order_kept)
  /* accepted: every ruleset of the unit was added under this tag, in file order, and all its hooks appended */ /*@C13*/
  __CPROVER_ensures(__CPROVER_return_value ? (g_front_pushes == unit.rulesets.n && g_hook_pushes == unit.prekill_hooks.n && !g_hooks_erased &&
                                              self->prekill_hooks_in_reverse_order_.n == __CPROVER_old(self->prekill_hooks_in_reverse_order_.n) + unit.prekill_hooks.n) : 1)
  /* refused: the cleanup removeDropInConfig(tag) ran (it removes every entry with this tag) and no hook was appended */ /*@C13*/
  __CPROVER_ensures(!__CPROVER_return_value ? (g_hooks_erased && g_hook_pushes == 0 && g_erased_total == g_removed_total &&
                                               g_untargeted_calls == g_removed_total) : 1)
  __CPROVER_ensures(ghost_exc == 0);
#define LOOPC_Engine__addDropInConfig_1 \
  __CPROVER_assigns(__begin2, g_base, g_base_idx, g_find_pos, g_front_pushes, g_front_tag, g_front_rs, g_targeted_calls, g_stat_plus) \
  __CPROVER_loop_invariant(__begin2.i <= __begin2.n && __begin2.n == unit.rulesets.n && __end2.i == __begin2.n && BASE_WF) \
  __CPROVER_loop_invariant(g_front_pushes == __begin2.i && g_targeted_calls == __begin2.i && g_stat_plus == __begin2.i) \
  __CPROVER_loop_invariant(__begin2.i == 0 || (g_front_tag == tag && g_front_rs == (uptr_Ruleset)(DROPIN_H + __begin2.i - 1))) \
  __CPROVER_decreases(__begin2.n - __begin2.i)
#define LOOPC_Engine__addDropInConfig_2 \
  __CPROVER_assigns(it, self->prekill_hooks_in_reverse_order_, g_hook_pushes, g_hook_last_idx) \
  __CPROVER_loop_invariant(it.i <= it.n && it.n == unit.prekill_hooks.n && g_hook_last_idx == it.i && g_hook_pushes == it.n - it.i && \
      self->prekill_hooks_in_reverse_order_.n == __CPROVER_loop_entry(self->prekill_hooks_in_reverse_order_.n) + g_hook_pushes && \
      self->prekill_hooks_in_reverse_order_.n <= 2 * VEC_MAX) \
  __CPROVER_decreases(it.i)

/* ---- C07: firePrekillHook ---- */
uint64_t g_hooks_tried; uint64_t g_fired; uint64_t g_fired_idx; _Bool g_last_match; uptr_PrekillHookInvocation nondet_inv(void);
_Bool PrekillHook__canRunOnCgroup(PrekillHook h, CgroupContext cg)
{
  __CPROVER_assert(h == (PrekillHook)(HOOK_H + g_hook_idx) && g_fired == 0, "hooks are asked newest first; nothing is asked after a hook fired"); /*@C07*/
  g_hooks_tried = g_hooks_tried + 1;
  g_last_match = nondet_bool();
  return g_last_match;
}
ActionContext OomdContext__getActionContext(OomdContext c) { return (ActionContext)c; }
uptr_PrekillHookInvocation PrekillHook__fire(PrekillHook h, CgroupContext cg, ActionContext a)
{
  __CPROVER_assert(h == (PrekillHook)(HOOK_H + g_hook_idx) && g_last_match && g_fired == 0, "only the first matching hook in priority order is fired, once"); /*@C07*/
  g_fired = g_fired + 1; g_fired_idx = g_hook_idx;
  return nondet_inv();
}
opt_uptr_PrekillHookInvocation Engine__firePrekillHook(Engine *self, CgroupContext cgroup_ctx, OomdContext oomd_context)
  __CPROVER_requires(__CPROVER_is_fresh(self, sizeof(*self)) && ENG_WF(self) && ghost_exc == 0 && g_hooks_tried == 0 && g_fired == 0)
  __CPROVER_assigns(g_hook, g_hook_idx, g_hooks_tried, g_fired, g_fired_idx, g_last_match)
  /* a hook fires iff some hook matches; it is the last-added matching one (highest index = newest) */ /*@C07*/
  __CPROVER_ensures(__CPROVER_return_value.has == (g_fired == 1) && g_fired <= 1)
  __CPROVER_ensures(g_fired == 1 ? (g_hooks_tried == self->prekill_hooks_in_reverse_order_.n - g_fired_idx)
                                 : (g_hooks_tried == self->prekill_hooks_in_reverse_order_.n))
  __CPROVER_ensures(ghost_exc == 0);
#define LOOPC_Engine__firePrekillHook_1 \
  __CPROVER_assigns(it, g_hook, g_hook_idx, g_hooks_tried, g_fired, g_fired_idx, g_last_match) \
  __CPROVER_loop_invariant(it.i <= it.n && it.n == self->prekill_hooks_in_reverse_order_.n && g_fired == 0 && g_hooks_tried == it.n - it.i) \
  __CPROVER_decreases(it.i)

/* ---- lambdas (predicates) ---- */
_Bool Engine__removeDropInConfig__lambda_pred(str_t tag, Engine_DropInRuleset dir)
  __CPROVER_assigns() __CPROVER_ensures(__CPROVER_return_value == (dir.tag == tag)); /*@C13*/
_Bool Engine__removeDropInConfig__lambda_1(str_t tag, Engine_TaggedPrekillHook tagged_hook)
  __CPROVER_assigns() __CPROVER_ensures(__CPROVER_return_value == (tagged_hook.dropin_tag.has && tagged_hook.dropin_tag.val == tag)); /*@C13,C07*/
_Bool Engine__addDropInRuleset__lambda_1(uptr_Ruleset ruleset, Engine_BaseRuleset b)
  __CPROVER_requires(ruleset != 0 && b.ruleset != 0)
  __CPROVER_assigns() __CPROVER_ensures(__CPROVER_return_value == (b.ruleset == ruleset)); /*@C13*/

#define HAVOC_ENG() do { HAVOC(g_base); HAVOC(g_base_idx); HAVOC(g_dropin); HAVOC(g_drop_idx); HAVOC(g_bases_done); HAVOC(g_drop_seen); \
  HAVOC(g_drop_nonnull); HAVOC(g_drop_runs); HAVOC(g_ret_sum); HAVOC(g_stat_plus); HAVOC(g_stat_minus); HAVOC(g_stat_fired); HAVOC(g_stat_fired_calls); \
  HAVOC(g_targeted_calls); HAVOC(g_untargeted_calls); HAVOC(g_find_pos); HAVOC(g_front_pushes); HAVOC(g_removed_here); HAVOC(g_removed_total); \
  HAVOC(g_erased_total); HAVOC(g_hooks_removed); HAVOC(g_hooks_erased); HAVOC(g_hooks_tried); HAVOC(g_fired); HAVOC(g_hook_idx); HAVOC(g_hook_pushes); HAVOC(g_hook_last_idx); HAVOC(ghost_exc); } while (0)
#define CANARY __CPROVER_assert(0, "canary: contract precondition satisfiable and function exit reachable")
void h_Engine__prerun(void) { Engine *self; OomdContext c; HAVOC_ENG(); Engine__prerun(self, c); CANARY; }
void h_Engine__runOnce(void) { Engine *self; OomdContext c; HAVOC_ENG(); Engine__runOnce(self, c); CANARY; }
void h_Engine__addDropInRuleset(void) { Engine *self; str_t t; uptr_Ruleset r; HAVOC_ENG(); Engine__addDropInRuleset(self, t, r); CANARY; }
void h_Engine__addDropInConfig(void) { Engine *self; str_t t; DropInUnit u; HAVOC_ENG(); Engine__addDropInConfig(self, t, u); CANARY; }
void h_Engine__removeDropInConfig(void) { Engine *self; str_t t; HAVOC_ENG(); g_hooks_order_kept = 1; Engine__removeDropInConfig(self, t); CANARY; }
void h_Engine__firePrekillHook(void) { Engine *self; CgroupContext cg; OomdContext c; HAVOC_ENG(); Engine__firePrekillHook(self, cg, c); CANARY; }
void h_Engine__lambda_pred(void) { str_t t; Engine_DropInRuleset d; Engine__removeDropInConfig__lambda_pred(t, d); CANARY; }
void h_Engine__lambda_hookpred(void) { str_t t; Engine_TaggedPrekillHook d; Engine__removeDropInConfig__lambda_1(t, d); CANARY; }
void h_Engine__lambda_find(void) { uptr_Ruleset r; Engine_BaseRuleset b; Engine__addDropInRuleset__lambda_1(r, b); CANARY; }
