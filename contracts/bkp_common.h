/* bkp_common.h — shared ghost vocabulary of the kill-plugin units (ASSUMED boundary).
 *
 * Cgroups are opaque handles.  Facts about them that the code can only learn from the kernel are
 * uninterpreted predicates (the same cgroup always gives the same answer within a proof):
 *   WITHIN(v, c)   c is v itself or a descendant of v reached through addChildToCacheAndGet
 *   ALLOWED(c)     c was matched by the plugin's `cgroup` patterns, or (recursive) descends from one
 *   FROM_PROCS(p)  pid p was read from cgroup.procs of a cgroup WITHIN the current victim
 */
#include "common.h"
_Bool __CPROVER_uninterpreted_within(CgroupContext, CgroupContext);
_Bool __CPROVER_uninterpreted_allowed(CgroupContext);
_Bool __CPROVER_uninterpreted_from_procs(int);
#define WITHIN(v, c) __CPROVER_uninterpreted_within((v), (c))
#define ALLOWED(c) __CPROVER_uninterpreted_allowed(c)
#define FROM_PROCS(p) __CPROVER_uninterpreted_from_procs(p)
#define CG_OF_FD(fd) ((CgroupContext)(fd))
#define SIGKILL_NO 9
CgroupContext g_victim;            /* the cgroup chosen as victim of the current attempt */
uint64_t g_side_effects;           /* signals, control-file writes, xattr writes, reaping syscalls */
uint64_t g_kill_calls, g_kill_ok;  /* kill(2) calls / calls that returned 0 */
_Bool nondet_bool(void); int nondet_int(void); str_t nondet_str(void); int64_t nondet_i64(void);
#define KILL_BUDGET (1 << 24)      /* ASSUMED: fewer than 2^24 kill(2) calls per attempt (int counters do not overflow) */
