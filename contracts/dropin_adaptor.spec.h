/* Contracts for DropInServiceAdaptor::scheduleDropInAdd / scheduleDropInRemove (C12, C13):
 * a drop-in that does not compile is refused and leaves NOTHING in the queue (in the queue, an entry
 * without a unit means "remove this tag"); an accepted one is queued exactly once with its unit; the
 * queue is only touched while queue_mutex_ is held. */
#include "common.h"
_Bool g_held; uint64_t g_pushes; _Bool g_pushed_has; str_t g_pushed_tag; _Bool g_compiled_ok;
opt_DropInUnit nondet_opt_unit(void);
void mutex_lock(mutex_t m) { __CPROVER_assert(!g_held, "no double lock"); g_held = 1; }
void mutex_unlock(mutex_t m) { __CPROVER_assert(g_held, "unlock of a held mutex"); g_held = 0; }
PluginConstructionContext PluginConstructionContext__from__str_t(str_t fs) { return (PluginConstructionContext)1; }
opt_DropInUnit Config2__compileDropIn(Config2_IR_Root root, Config2_IR_Root dropin, PluginConstructionContext c)
{ opt_DropInUnit u = nondet_opt_unit(); g_compiled_ok = u.has; return u; }
static inline void emplace_val(vec_pair_str_t_opt_DropInUnit *q, str_t tag, DropInUnit u)
{ __CPROVER_assert(g_held, "the drop-in queue is only modified under queue_mutex_"); g_pushes = g_pushes + 1; g_pushed_has = 1; g_pushed_tag = tag; }
static inline void emplace_opt(vec_pair_str_t_opt_DropInUnit *q, str_t tag, opt_DropInUnit u)
{ __CPROVER_assert(g_held, "the drop-in queue is only modified under queue_mutex_"); g_pushes = g_pushes + 1; g_pushed_has = u.has; g_pushed_tag = tag; }
static inline void emplace_none(vec_pair_str_t_opt_DropInUnit *q, str_t tag, nullopt_t n)
{ __CPROVER_assert(g_held, "the drop-in queue is only modified under queue_mutex_"); g_pushes = g_pushes + 1; g_pushed_has = 0; g_pushed_tag = tag; }
#define vec_pair_str_t_opt_DropInUnit__emplace_back(q, tag, u) _Generic((u), opt_DropInUnit: emplace_opt, nullopt_t: emplace_none, default: emplace_val)((q), (tag), (u))

_Bool DropInServiceAdaptor__scheduleDropInAdd(DropInServiceAdaptor *self, str_t tag, Config2_IR_Root drop_in)
  __CPROVER_requires(__CPROVER_is_fresh(self, sizeof(*self)) && !g_held && g_pushes == 0 && ghost_exc == 0)
  __CPROVER_assigns(g_held, g_pushes, g_pushed_has, g_pushed_tag, g_compiled_ok, ghost_exc)
  __CPROVER_ensures((__CPROVER_return_value != 0) == (g_compiled_ok != 0))
  __CPROVER_ensures(g_compiled_ok ? (g_pushes == 1 && g_pushed_has && g_pushed_tag == tag) : g_pushes == 0)   /* refused: engine and queue untouched */
  __CPROVER_ensures(!g_held && ghost_exc == 0);
void DropInServiceAdaptor__scheduleDropInRemove(DropInServiceAdaptor *self, str_t tag)
  __CPROVER_requires(__CPROVER_is_fresh(self, sizeof(*self)) && !g_held && g_pushes == 0 && ghost_exc == 0)
  __CPROVER_assigns(g_held, g_pushes, g_pushed_has, g_pushed_tag)
  __CPROVER_ensures(g_pushes == 1 && !g_pushed_has && g_pushed_tag == tag && !g_held && ghost_exc == 0);
void h_scheduleDropInAdd(void) { DropInServiceAdaptor *self; str_t t; Config2_IR_Root d; HAVOC(g_held); HAVOC(g_pushes); HAVOC(ghost_exc); DropInServiceAdaptor__scheduleDropInAdd(self, t, d);
  __CPROVER_assert(0, "canary: contract precondition satisfiable and function exit reachable"); }
void h_scheduleDropInRemove(void) { DropInServiceAdaptor *self; str_t t; HAVOC(g_held); HAVOC(g_pushes); HAVOC(ghost_exc); DropInServiceAdaptor__scheduleDropInRemove(self, t);
  __CPROVER_assert(0, "canary: contract precondition satisfiable and function exit reachable"); }
