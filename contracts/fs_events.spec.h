/* Contract for Fs::readIsPopulatedAt (C03: unpopulated cgroups are never attacked; C10: any cgroup.events content; C15):
 *   the FIRST line that splits into exactly two tokens with token 0 == "populated" decides: token 1 "1" -> true,
 *   "0" -> false, anything else -> error; no such line, or an unreadable file -> error.  No token is indexed on a line
 *   that does not have two.  The quantifier "first such line" is a prophecy index g_k (any value: k >= n means none). */
#include "common.h"
_Bool nondet_bool(void); uint64_t nondet_u64(void); maybe_vec_str_t nondet_lines(void); str_t nondet_str(void);
#define LINES_VID 7
#define TOKS_VID 555
maybe_vec_str_t g_lines; str_t g_opened;
uint64_t g_k;            /* prophecy: index of the first "populated <x>" line (>= number of lines: there is none) */
str_t g_t0, g_t1;        /* tokens of the line split last */
str_t g_dec;             /* token 1 of line g_k */
maybe_Fs_Fd Fs_Fd__openat(Fs_DirFd d, str_t name) { g_opened = name; maybe_Fs_Fd r; r.ok = nondet_bool(); r.err = 0; return r; }
maybe_vec_str_t Fs__readFileByLine__maybe_Fs_Fd(maybe_Fs_Fd fd)
{
  maybe_vec_str_t r = nondet_lines();
  __CPROVER_assume(!r.ok || (r.val.n <= VEC_MAX && r.val.vid == LINES_VID));
  if (!fd.ok) r.ok = 0;
  g_lines = r;
  return r;
}
str_t vec_str_t__elem(uint64_t vid, uint64_t i)
{
  if (vid == TOKS_VID) return i == 0 ? g_t0 : (i == 1 ? g_t1 : (str_t)(88000 + i));
  return (str_t)(77000 + i);
}
vec_str_t Util__split(str_t s, char c)
{
  uint64_t idx = (uint64_t)s - 77000;
  __CPROVER_assert(c == ' ' && g_lines.ok && idx < g_lines.val.n, "a line of the file is split at spaces");
  __CPROVER_assert(idx <= g_k, "no line after the deciding one is examined");
  vec_str_t v; v.vid = TOKS_VID; v.n = nondet_u64(); __CPROVER_assume(v.n <= VEC_MAX);
  g_t0 = nondet_str(); g_t1 = nondet_str();
  _Bool match = v.n == 2 && g_t0 == STR_populated;
  __CPROVER_assume(idx < g_k ? !match : 1);
  __CPROVER_assume(idx == g_k ? match : 1);
  if (idx == g_k) g_dec = g_t1;
  return v;
}
maybe__Bool Fs__readIsPopulatedAt(Fs_DirFd dirfd)
  __CPROVER_requires(ghost_exc == 0)
  __CPROVER_assigns(g_lines, g_opened, g_t0, g_t1, g_dec)
  __CPROVER_ensures(g_opened == STR_cgroup_events)
  /* unreadable, or no "populated <x>" line -> error */ /*@C10,C15*/
  __CPROVER_ensures((!g_lines.ok || g_k >= g_lines.val.n) ? !__CPROVER_return_value.ok : 1)
  /* the first "populated <x>" line decides; x other than 0/1 is an error, not a guess */ /*@C03,C15*/
  __CPROVER_ensures((g_lines.ok && g_k < g_lines.val.n)
      ? (g_dec == STR_1 ? (__CPROVER_return_value.ok && __CPROVER_return_value.val != 0)
         : (g_dec == STR_0 ? (__CPROVER_return_value.ok && __CPROVER_return_value.val == 0) : !__CPROVER_return_value.ok)) : 1)
  __CPROVER_ensures(ghost_exc == 0);
#define LOOPC_Fs__readIsPopulatedAt_1 \
  __CPROVER_assigns(__begin1, g_t0, g_t1, g_dec) \
  __CPROVER_loop_invariant(__begin1.i <= __begin1.n && __end1.i == __begin1.n && __begin1.vid == LINES_VID) \
  __CPROVER_loop_invariant(g_lines.ok && __begin1.n == g_lines.val.n && __begin1.n <= VEC_MAX) \
  __CPROVER_loop_invariant(g_k < __begin1.n ? __begin1.i <= g_k : 1) \
  __CPROVER_decreases(__begin1.n - __begin1.i)
#define CANARY __CPROVER_assert(0, "canary: contract precondition satisfiable and function exit reachable")
void h_readIsPopulatedAt(void) { Fs_DirFd d; HAVOC(g_k); HAVOC(g_lines); HAVOC(g_t0); HAVOC(g_t1); HAVOC(g_dec); HAVOC(ghost_exc); Fs__readIsPopulatedAt(d); CANARY; }
