/* Contracts for MemoryAbove::run (C08: memory_above)
 *   watched = largest memory.current (or anon usage with threshold_anon) among the matched cgroups,
 *             a missing value counting as 0
 *   run start r' = (watched > threshold) ? (r if open else now) : none
 *   CONTINUE <=> watched > threshold && floor_sec(now - r') >= duration
 */
#include "detector_stubs.h"
opt_int64_t nondet_opt_int64_t(void);
int64_t g_max_cur, g_max_anon;
uint64_t g_calls_cur, g_calls_anon;
opt_int64_t CgroupContext__current_usage(CgroupContext cg)
{
  __CPROVER_assert(cg == g_cur_elem, "usage is read from the cgroup being iterated");
  opt_int64_t r = nondet_opt_int64_t();
  __CPROVER_assume(!r.has || BYTES_OK(r.val));
  int64_t v = r.has ? r.val : 0;
  if (g_max_cur < v) g_max_cur = v;
  g_calls_cur = g_calls_cur + 1;
  return r;
}
opt_int64_t CgroupContext__anon_usage(CgroupContext cg)
{
  __CPROVER_assert(cg == g_cur_elem, "usage is read from the cgroup being iterated");
  opt_int64_t r = nondet_opt_int64_t();
  __CPROVER_assume(!r.has || BYTES_OK(r.val));
  int64_t v = r.has ? r.val : 0;
  if (g_max_anon < v) g_max_anon = v;
  g_calls_anon = g_calls_anon + 1;
  return r;
}
CgroupPath CgroupContext__cgroup(CgroupContext cg) { return (CgroupPath)cg; }
str_t CgroupPath__relativePath(CgroupPath p) { return nondet_str(); }

#define MA_WATCHED(s) ((s)->is_anon_ ? g_max_anon : g_max_cur)
PluginRet MemoryAbove__run(MemoryAbove *self, OomdContext ctx)
  __CPROVER_requires(__CPROVER_is_fresh(self, sizeof(*self)) && ghost_exc == 0)
  __CPROVER_requires(TP_VALID(g_last_now) && TP_VALID(self->hit_thres_at_) && TP_LE(self->hit_thres_at_, g_last_now))
  __CPROVER_requires(g_max_cur == 0 && g_max_anon == 0 && g_calls_cur == 0 && g_calls_anon == 0 && g_elems == 0)
  __CPROVER_assigns(self->hit_thres_at_, g_last_now, g_max_cur, g_max_anon, g_calls_cur, g_calls_anon, g_elems, g_cur_elem, g_vec_n)
  __CPROVER_ensures(g_elems == g_vec_n && (self->is_anon_ ? g_calls_anon == g_vec_n : g_calls_cur == g_vec_n))
  __CPROVER_ensures((MA_WATCHED(self) > self->threshold_)
      ? (TP_IS_EPOCH(__CPROVER_old(self->hit_thres_at_)) ? TP_EQ(self->hit_thres_at_, g_last_now)
                                                        : TP_EQ(self->hit_thres_at_, __CPROVER_old(self->hit_thres_at_)))
      : TP_IS_EPOCH(self->hit_thres_at_))
  __CPROVER_ensures((__CPROVER_return_value == PluginRet__CONTINUE) ==
      (MA_WATCHED(self) > self->threshold_ && SEC_DIFF(g_last_now, self->hit_thres_at_) >= (int64_t)self->duration_))
  __CPROVER_ensures(__CPROVER_return_value == PluginRet__CONTINUE || __CPROVER_return_value == PluginRet__STOP)
  __CPROVER_ensures(TP_VALID(self->hit_thres_at_) && TP_LE(self->hit_thres_at_, g_last_now))
  __CPROVER_ensures(ghost_exc == 0);

#define LOOPC_MemoryAbove__run_1 \
  __CPROVER_assigns(__begin1, current_memory_usage, current_cgroup, g_max_cur, g_max_anon, g_calls_cur, g_calls_anon, g_elems, g_cur_elem) \
  __CPROVER_loop_invariant(__begin1.i <= __begin1.n && __begin1.n == __end1.i && __begin1.n == g_vec_n && g_elems == __begin1.i) \
  __CPROVER_loop_invariant(self->is_anon_ ? g_calls_anon == __begin1.i : g_calls_cur == __begin1.i) \
  __CPROVER_loop_invariant(current_memory_usage == MA_WATCHED(self)) \
  __CPROVER_decreases(__begin1.n - __begin1.i)

void h_MemoryAbove__run(void)
{
  MemoryAbove *self; OomdContext ctx;
  HAVOC(g_last_now); HAVOC(g_max_cur); HAVOC(g_max_anon); HAVOC(g_calls_cur); HAVOC(g_calls_anon); HAVOC(g_elems); HAVOC(ghost_exc);
  MemoryAbove__run(self, ctx);
  __CPROVER_assert(0, "canary: contract precondition satisfiable and function exit reachable");
}

/* ================= init(): the arguments this plugin declares (C12, C08) =================
 * memory_above reads MemTotal first (from `meminfo_location` if given, else /proc/meminfo) because a `N%` threshold is a
 * percentage of it; no MemTotal = initialisation failure.  Exactly one threshold is in force: `threshold_anon` if present
 * (then `threshold` is ignored), else `threshold` - and it is REQUIRED ("either one of these must be specified"). */
#include "init_common.h"
DEF_PARSE(PluginArgParser)
uset_CgroupPath PluginArgParser__parseCgroup(PluginConstructionContext c, str_t s);
#define lambda_bind__MemoryAbove__init__lambda_addArgumentCustom(ctx) ((lambda_t)7)
int64_t g_thr_base;
#define lambda_bind__MemoryAbove__init__lambda_addArgumentCustom_2(p) (g_thr_base = *(p), (lambda_t)8)
void PluginArgParser__addArgumentCustom__str_t_uset_CgroupPath_function_t__Bool(PluginArgParser p, str_t name, uset_CgroupPath dest, function_t fn, _Bool required)
{ __CPROVER_assert(fn == (function_t)7, "the cgroup argument is parsed by PluginArgParser::parseCgroup with this plugin's construction context"); REG(name, (const void *)(long)dest, required, 1); }
void PluginArgParser__addArgumentCustom__str_t_int64_t_function_t__Bool(PluginArgParser p, str_t name, int64_t *dest, function_t fn, _Bool required)
{ __CPROVER_assert(fn == (function_t)8, "the threshold is parsed by the size-or-percent closure"); REG(name, dest, required, 1); }
DEF_ADDARG(int, int)
void PluginArgParser__addArgument__str_t__Bool__Bool(PluginArgParser p, str_t name, _Bool *dest, _Bool required) { REG(name, dest, required, 0); }
_Bool g_args_has_loc, g_args_has_anon, g_mi_ok, g_mi_has_mem; int64_t g_mi_mem, g_mi_other; str_t g_args_loc, g_mi_path; uint64_t g_erased_thr, g_erased_loc;
#define ARGS ((umap_str_t_str_t)11)
#define MEMINFO ((umap_str_t_int64_t)12)
uint64_t nondet_u64(void);
mapit_pair_str_t_str_t umap_str_t_str_t__end(umap_str_t_str_t m) { mapit_pair_str_t_str_t it; it.map = m; it.n = 4; it.pos = 4; it.valid = 1; return it; }
mapit_pair_str_t_str_t umap_str_t_str_t__find(umap_str_t_str_t m, str_t k)
{ mapit_pair_str_t_str_t it; it.map = m; it.n = 4; it.valid = 1;
  it.pos = (k == STR_meminfo_location) ? (g_args_has_loc ? 0 : 4) : ((k == STR_threshold_anon) ? (g_args_has_anon ? 1 : 4) : nondet_u64());
  __CPROVER_assume(it.pos <= 4); return it; }
_Bool mapit_pair_str_t_str_t__op_eq(mapit_pair_str_t_str_t a, mapit_pair_str_t_str_t b) { return a.pos == b.pos; }
str_t umap_str_t_str_t__at(umap_str_t_str_t m, str_t k) { if (!(k == STR_meminfo_location && g_args_has_loc)) ghost_exc = EXC_out_of_range; return g_args_loc; }
void umap_str_t_str_t__erase(umap_str_t_str_t m, str_t k) { if (k == STR_threshold) g_erased_thr = g_erased_thr + 1; if (k == STR_meminfo_location) g_erased_loc = g_erased_loc + 1; }
maybe_umap_str_t_int64_t Fs__getMeminfo(str_t path)
{ maybe_umap_str_t_int64_t r; g_mi_path = path; r.ok = g_mi_ok; r.val = MEMINFO; r.err = g_mi_ok ? 0 : 2; return r; }
uint64_t umap_str_t_int64_t__count(umap_str_t_int64_t m, str_t k) { return (k == STR_MemTotal && g_mi_has_mem) ? 1 : 0; }
int64_t *umap_str_t_int64_t__at_ref(umap_str_t_int64_t m, str_t k) { return k == STR_MemTotal ? &g_mi_mem : &g_mi_other; }
#define MA_MI_OK (g_mi_ok && g_mi_has_mem)
int MemoryAbove__init(MemoryAbove *self, umap_str_t_str_t args, PluginConstructionContext context)
  __CPROVER_requires(__CPROVER_is_fresh(self, sizeof(*self)) && args == ARGS && ghost_exc == 0 && g_reg_n == 0 && g_parse_calls == 0 && g_erased_thr == 0 && g_erased_loc == 0)
  __CPROVER_assigns(REG_ASSIGNS, self->is_anon_, g_thr_base, g_mi_path, g_erased_thr, g_erased_loc)
  /* meminfo is read from the configured location, else /proc/meminfo; without MemTotal the plugin refuses to initialise */
  __CPROVER_ensures(g_mi_path == (g_args_has_loc ? g_args_loc : STR__proc_meminfo))
  __CPROVER_ensures(!MA_MI_OK ? (__CPROVER_return_value == 1 && g_reg_n == 0 && g_parse_calls == 0) : INIT_CORE(4)) /*@C12*/
  /* percentages are relative to the full 64-bit MemTotal */ /*@C08,C12*/
  __CPROVER_ensures(MA_MI_OK ? g_thr_base == g_mi_mem : 1)
  /* exactly one threshold argument, required: threshold_anon (then `threshold` is dropped from the map) or threshold */ /*@C08,C12*/
  __CPROVER_ensures(MA_MI_OK ? (HASREG(STR_cgroup, (long)self->cgroups_, 0) && HASREG(STR_duration, &self->duration_, 1) && HASREG(STR_debug, &self->debug_, 0) &&
                                (g_args_has_anon ? (HASREG(STR_threshold_anon, &self->threshold_, 1) && self->is_anon_ == 1 && g_erased_thr == 1)
                                                 : (HASREG(STR_threshold, &self->threshold_, 1) && self->is_anon_ == __CPROVER_old(self->is_anon_) && g_erased_thr == 0)) &&
                                g_erased_loc == 1) : 1)
  __CPROVER_ensures(ghost_exc == 0);
void h_MemoryAbove__init(void) { MemoryAbove *self; PluginConstructionContext c; HAVOC_REG(); HAVOC(ghost_exc); HAVOC(g_args_has_loc); HAVOC(g_args_has_anon); HAVOC(g_mi_ok); HAVOC(g_mi_has_mem); HAVOC(g_mi_mem); HAVOC(g_args_loc);
  g_erased_thr = 0; g_erased_loc = 0; MemoryAbove__init(self, ARGS, c); __CPROVER_assert(0, "canary: contract precondition satisfiable and function exit reachable"); }
/* the registered threshold parser: Util::parseSizeOrPercent(str, &res, MemTotal) or invalid_argument */
int64_t g_parse_out; int g_parse_rc; int64_t g_parse_base;
int Util__parseSizeOrPercent(str_t s, int64_t *res, int64_t base) { g_parse_base = base; if (g_parse_rc == 0) *res = g_parse_out; return g_parse_rc; }
int64_t MemoryAbove__init__lambda_addArgumentCustom_2(int64_t *memTotal, str_t str)
  __CPROVER_requires(__CPROVER_is_fresh(memTotal, sizeof(*memTotal)) && ghost_exc == 0)
  __CPROVER_assigns(ghost_exc, g_parse_base)
  __CPROVER_ensures(g_parse_base == *memTotal && (g_parse_rc == 0 ? (ghost_exc == 0 && __CPROVER_return_value == g_parse_out) : ghost_exc == EXC_invalid_argument)) /*@C08,C12*/;
void h_MemoryAbove__thr(void) { int64_t *b; str_t s; HAVOC(ghost_exc); HAVOC(g_parse_out); HAVOC(g_parse_rc); HAVOC(g_parse_base); MemoryAbove__init__lambda_addArgumentCustom_2(b, s); __CPROVER_assert(0, "canary: contract precondition satisfiable and function exit reachable"); }
