/* Contracts for MemoryAbove::run (C08: memory_above)
 *   watched = largest memory.current (or anon usage with threshold_anon) among the matched cgroups,
 *             a missing value counting as 0
 *   run start r' = (watched > threshold) ? (r if open else now) : none
 *   CONTINUE <=> watched > threshold && floor_sec(now - r') >= duration
 */
#include "detector_stubs.h"
opt_int64_t nondet_opt_int64_t(void);
int64_t g_max_cur, g_max_anon;
uint64_t g_calls_cur, g_calls_anon;
opt_int64_t CgroupContext__current_usage(CgroupContext cg)
{
  __CPROVER_assert(cg == g_cur_elem, "usage is read from the cgroup being iterated");
  opt_int64_t r = nondet_opt_int64_t();
  __CPROVER_assume(!r.has || BYTES_OK(r.val));
  int64_t v = r.has ? r.val : 0;
  if (g_max_cur < v) g_max_cur = v;
  g_calls_cur = g_calls_cur + 1;
  return r;
}
opt_int64_t CgroupContext__anon_usage(CgroupContext cg)
{
  __CPROVER_assert(cg == g_cur_elem, "usage is read from the cgroup being iterated");
  opt_int64_t r = nondet_opt_int64_t();
  __CPROVER_assume(!r.has || BYTES_OK(r.val));
  int64_t v = r.has ? r.val : 0;
  if (g_max_anon < v) g_max_anon = v;
  g_calls_anon = g_calls_anon + 1;
  return r;
}
CgroupPath CgroupContext__cgroup(CgroupContext cg) { return (CgroupPath)cg; }
str_t CgroupPath__relativePath(CgroupPath p) { return nondet_str(); }

#define MA_WATCHED(s) ((s)->is_anon_ ? g_max_anon : g_max_cur)
PluginRet MemoryAbove__run(MemoryAbove *self, OomdContext ctx)
  __CPROVER_requires(__CPROVER_is_fresh(self, sizeof(*self)) && ghost_exc == 0)
  __CPROVER_requires(TP_VALID(g_last_now) && TP_VALID(self->hit_thres_at_) && TP_LE(self->hit_thres_at_, g_last_now))
  __CPROVER_requires(g_max_cur == 0 && g_max_anon == 0 && g_calls_cur == 0 && g_calls_anon == 0 && g_elems == 0)
  __CPROVER_assigns(self->hit_thres_at_, g_last_now, g_max_cur, g_max_anon, g_calls_cur, g_calls_anon, g_elems, g_cur_elem, g_vec_n)
  __CPROVER_ensures(g_elems == g_vec_n && (self->is_anon_ ? g_calls_anon == g_vec_n : g_calls_cur == g_vec_n))
  __CPROVER_ensures((MA_WATCHED(self) > self->threshold_)
      ? (TP_IS_EPOCH(__CPROVER_old(self->hit_thres_at_)) ? TP_EQ(self->hit_thres_at_, g_last_now)
                                                        : TP_EQ(self->hit_thres_at_, __CPROVER_old(self->hit_thres_at_)))
      : TP_IS_EPOCH(self->hit_thres_at_))
  __CPROVER_ensures((__CPROVER_return_value == PluginRet__CONTINUE) ==
      (MA_WATCHED(self) > self->threshold_ && SEC_DIFF(g_last_now, self->hit_thres_at_) >= (int64_t)self->duration_))
  __CPROVER_ensures(__CPROVER_return_value == PluginRet__CONTINUE || __CPROVER_return_value == PluginRet__STOP)
  __CPROVER_ensures(TP_VALID(self->hit_thres_at_) && TP_LE(self->hit_thres_at_, g_last_now))
  __CPROVER_ensures(ghost_exc == 0);

#define LOOPC_MemoryAbove__run_1 \
  __CPROVER_assigns(__begin1, current_memory_usage, current_cgroup, g_max_cur, g_max_anon, g_calls_cur, g_calls_anon, g_elems, g_cur_elem) \
  __CPROVER_loop_invariant(__begin1.i <= __begin1.n && __begin1.n == __end1.i && __begin1.n == g_vec_n && g_elems == __begin1.i) \
  __CPROVER_loop_invariant(self->is_anon_ ? g_calls_anon == __begin1.i : g_calls_cur == __begin1.i) \
  __CPROVER_loop_invariant(current_memory_usage == MA_WATCHED(self)) \
  __CPROVER_decreases(__begin1.n - __begin1.i)

void h_MemoryAbove__run(void)
{
  MemoryAbove *self; OomdContext ctx;
  HAVOC(g_last_now); HAVOC(g_max_cur); HAVOC(g_max_anon); HAVOC(g_calls_cur); HAVOC(g_calls_anon); HAVOC(g_elems); HAVOC(ghost_exc);
  MemoryAbove__run(self, ctx);
  __CPROVER_assert(0, "canary: contract precondition satisfiable and function exit reachable");
}
