/* KillPgScan (C09): only cgroups whose pgscan increase is positive are eligible; rank by that increase. */
#define KEY_T int64_t
#define KEY_GT(x, y) ((x) > (y))
#define KEY_OK(x) 1
int64_t __CPROVER_uninterpreted_key_i64(lambda_t, CgroupContext);
#define lambda_t__op_call__CgroupContext(k, c) __CPROVER_uninterpreted_key_i64(k, c)
#ifdef UNIT_SORT
#define KEYF(k, c) __CPROVER_uninterpreted_key_i64(k, c)
#else
int64_t KillPgScan__rankForKilling__lambda_sortDescWithKillPrefs(CgroupContext cgroup_ctx);
#define KEYF(k, c) KillPgScan__rankForKilling__lambda_sortDescWithKillPrefs(c)
#endif
int __CPROVER_uninterpreted_pgr_has(CgroupContext); int64_t __CPROVER_uninterpreted_pgr_val(CgroupContext);
opt_int64_t CgroupContext__pg_scan_rate(CgroupContext c) { opt_int64_t o; o.has = __CPROVER_uninterpreted_pgr_has(c) != 0; o.val = __CPROVER_uninterpreted_pgr_val(c); return o; }
#define DOC_KEY(c) ((__CPROVER_uninterpreted_pgr_has(c) != 0) ? __CPROVER_uninterpreted_pgr_val(c) : (int64_t)0)   /* the pgscan increase since the previous tick */
#define DOC_PRED(c) (DOC_KEY(c) > 0)                                                                              /* eligibility: a positive increase */
#include "kill_sort.h"
#include "kill_sort_proofs.h"
#define LAMBDA_ID__KillPgScan__rankForKilling__lambda_sortDescWithKillPrefs ((lambda_t)2)
#define LOOPC_KillPgScan__rankForKilling_1 \
  __CPROVER_assigns(__begin2, num_missing_pg_scan, num_invalid) \
  __CPROVER_loop_invariant(__begin2.vid == __end2.vid && __begin2.n == __end2.n && __begin2.i <= __end2.i && __end2.i == __end2.n && __end2.n == cgroups.n) \
  __CPROVER_loop_invariant(num_missing_pg_scan >= 0 && (uint64_t)num_missing_pg_scan <= __begin2.i && num_invalid >= 0 && num_invalid <= num_missing_pg_scan && ghost_exc == 0) \
  __CPROVER_decreases(__end2.i - __begin2.i)
Fs_DirFd CgroupContext__fd(CgroupContext c) { Fs_DirFd d; return d; }
_Bool Fs__isCgroupValid(Fs_DirFd d) { return nondet_bool(); }
_Bool KillPgScan__rankForKilling__lambda_filter(CgroupContext cgroup_ctx)
  __CPROVER_requires(ghost_exc == 0) __CPROVER_assigns()
  __CPROVER_ensures((__CPROVER_return_value != 0) == DOC_PRED(cgroup_ctx) && ghost_exc == 0) /*@C09*/;
int64_t KillPgScan__rankForKilling__lambda_sortDescWithKillPrefs(CgroupContext cgroup_ctx)
  __CPROVER_requires(ghost_exc == 0) __CPROVER_assigns()
  __CPROVER_ensures(__CPROVER_return_value == DOC_KEY(cgroup_ctx) && ghost_exc == 0) /*@C09*/;
DEFINE_GHOST_FILTER(KillPgScan__rankForKilling__lambda_filter, KillPgScan__rankForKilling__lambda_filter)
#define DOC_BETTER(x, f) (PREF(x) > PREF(f) || (PREF(x) == PREF(f) && DOC_KEY(x) > DOC_KEY(f)))
vec_CgroupContext KillPgScan__rankForKilling(KillPgScan *self, OomdContext *ctx, vec_CgroupContext cgroups)
  __CPROVER_requires(cgroups.n <= VEC_MAX && ghost_exc == 0)
  __CPROVER_assigns(g_copied, g_sorted, g_copy_vid, g_copy_src)
  __CPROVER_ensures(__CPROVER_return_value.n <= cgroups.n && ghost_exc == 0)
  /* the first choice is one of the given cgroups and is eligible */
  __CPROVER_ensures(__CPROVER_return_value.n == 0 || (g_fs0 < cgroups.n && vec_CgroupContext__elem(__CPROVER_return_value.vid, 0) == ELEM(cgroups.vid, g_fs0) && DOC_PRED(ELEM(cgroups.vid, g_fs0)))) /*@C09*/
  /* every eligible cgroup is considered: one exists => something is chosen, and none of them ranks strictly before the first choice */
  __CPROVER_ensures(g_fw >= cgroups.n || !DOC_PRED(ELEM(cgroups.vid, g_fw)) ||
                    (__CPROVER_return_value.n > 0 && !DOC_BETTER(ELEM(cgroups.vid, g_fw), vec_CgroupContext__elem(__CPROVER_return_value.vid, 0)))) /*@C09*/;
void h_pred(void) { CgroupContext c; HAVOC_SORT(); KillPgScan__rankForKilling__lambda_filter(c); CANARY; }
void h_key(void) { CgroupContext c; HAVOC_SORT(); KillPgScan__rankForKilling__lambda_sortDescWithKillPrefs(c); CANARY; }
void h_rank(void) { KillPgScan *s; OomdContext *x; vec_CgroupContext v; HAVOC_SORT(); KillPgScan__rankForKilling(s, x, v); CANARY; }
