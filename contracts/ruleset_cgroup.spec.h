/* Contracts for ruleset-level cgroup instances (C11): Ruleset::runOnce (cgroup branch),
 * registerRunnableRulesetForCgroupPath, Ruleset::prerun.
 *
 * runnable_rulesets_ (unordered_map<path, unique_ptr<Ruleset>>) is reasoned about for ONE arbitrary,
 * fixed key K (nondeterministic, so the statements hold for every key): g_in_map / g_inst are K's
 * membership and instance; operations on other keys answer nondeterministically.  Iteration visits
 * positions 0..n-1; K sits at position g_kpos while it is in the map.  erase(it) invalidates `it`
 * (incrementing or dereferencing it afterwards is undefined behaviour) and returns the next position.
 */
#include "common.h"
#define CG_BASE 2100000
#define PATH_OF(cg) ((str_t)(cg))           /* absolutePath: injective */
_Bool nondet_bool(void); uint64_t nondet_u64(void); str_t nondet_str(void); uptr_Ruleset nondet_inst(void); uint32_t nondet_u32(void); int nondet_int(void);
static inline int fresh_handle(void) { int h = nondet_int(); __CPROVER_assume(h >= 1); return h; }
str_t __CPROVER_uninterpreted_relpath(CgroupPath);
vec_CgroupPath nondet_vec_path(void); maybe_Fs_DirFd nondet_maybe_dirfd(void); maybe__Bool nondet_maybe_bool(void);

str_t g_K;                 /* the watched cgroup path */
_Bool g_in_map; uptr_Ruleset g_inst; uint64_t g_map_n, g_kpos;
_Bool g_k_visited;         /* K was resolved, opened and passed the xattr filter this tick */
uint64_t g_k_runs;         /* runOnceImpl calls on K's instance this tick */
uint64_t g_k_preruns;      /* prerun calls on K's instance this tick */
_Bool g_k_created;         /* a new instance was created for K this tick */
uptr_Ruleset g_other;      /* slot for instances of other keys */
opt_CgroupPath g_rscg;     /* context: ruleset cgroup */
uint64_t g_resolved_n; _Bool g_k_resolved; uint64_t g_k_index;   /* K is element g_k_index of the resolved list, if resolved */
_Bool g_k_open, g_k_tagged;

str_t CgroupPath__absolutePath(CgroupPath p) { return PATH_OF(p); }
str_t g_rel_of_cgroup, g_rel_expected;   /* g_rel_expected: relative path of the cgroup being registered (set by the harness) */
str_t CgroupPath__relativePath(CgroupPath p) { g_rel_of_cgroup = __CPROVER_uninterpreted_relpath(p); return g_rel_of_cgroup; }
str_t CgroupPath__cgroupFs(CgroupPath p) { return nondet_str(); }
vec_CgroupPath CgroupPath__resolveWildcard(CgroupPath p)
{
  vec_CgroupPath v = nondet_vec_path();
  __CPROVER_assume(v.n <= VEC_MAX);
  g_resolved_n = v.n;
  __CPROVER_assume(!g_k_resolved || g_k_index < v.n);
  return v;
}
/* the resolved cgroups are distinct (the kernel lists each directory once): K appears at most once */
CgroupPath vec_CgroupPath__elem(uint64_t vid, uint64_t i)
{
  if (g_k_resolved && i == g_k_index) return (CgroupPath)g_K;
  CgroupPath c = (CgroupPath)nondet_int();
  __CPROVER_assume(PATH_OF(c) != g_K);
  return c;
}
maybe_Fs_DirFd Fs_DirFd__open(str_t path)
{
  maybe_Fs_DirFd r = nondet_maybe_dirfd();
  if (path == g_K) r.ok = g_k_open;
  if (r.ok) r.val = (Fs_DirFd)path;
  return r;
}
maybe__Bool Fs__hasxattrAt(Fs_DirFd fd, str_t name)
{
  maybe__Bool r = nondet_maybe_bool();
  if ((str_t)fd == g_K) { r.ok = 1; r.val = g_k_tagged; }
  return r;
}
/* ---- the map, seen through K ---- */
_Bool umap_str_t_uptr_Ruleset__contains(umap_str_t_uptr_Ruleset m, str_t k) { return k == g_K ? g_in_map : nondet_bool(); }
uptr_Ruleset *umap_str_t_uptr_Ruleset__at_ref(umap_str_t_uptr_Ruleset m, str_t k)
{
  if (k == g_K)
  {
    if (!g_in_map) { g_in_map = 1; g_inst = 0; g_kpos = g_map_n; g_map_n = g_map_n + 1; g_k_created = 1; }   /* operator[] inserts a null unique_ptr */
    return &g_inst;
  }
  g_other = nondet_inst();
  __CPROVER_assume(g_other != 0 && g_other != g_inst);     /* distinct keys own distinct instances */
  return &g_other;
}
mapit_pair_str_t_uptr_Ruleset umap_str_t_uptr_Ruleset__begin(umap_str_t_uptr_Ruleset m)
{ mapit_pair_str_t_uptr_Ruleset it; it.map = m; it.pos = 0; it.n = g_map_n; it.valid = 1; return it; }
mapit_pair_str_t_uptr_Ruleset umap_str_t_uptr_Ruleset__end(umap_str_t_uptr_Ruleset m)
{ mapit_pair_str_t_uptr_Ruleset it; it.map = m; it.pos = g_map_n; it.n = g_map_n; it.valid = 1; return it; }
pair_str_t_uptr_Ruleset mapit_pair_str_t_uptr_Ruleset__elem(hnd_t m, uint64_t pos)
{
  pair_str_t_uptr_Ruleset p;
  if (g_in_map && pos == g_kpos) { p.first = g_K; p.second = g_inst; }
  else { p.first = nondet_str(); __CPROVER_assume(p.first != g_K); p.second = nondet_inst(); __CPROVER_assume(p.second != 0 && p.second != g_inst); }
  return p;
}
mapit_pair_str_t_uptr_Ruleset umap_str_t_uptr_Ruleset__erase(umap_str_t_uptr_Ruleset m, mapit_pair_str_t_uptr_Ruleset it);
/* visited set, seen through K */
void uset_str_t__insert(uset_str_t s, str_t k) { if (k == g_K) g_k_visited = 1; }
_Bool uset_str_t__contains(uset_str_t s, str_t k) { return k == g_K ? g_k_visited : nondet_bool(); }

void OomdContext__setRulesetCgroup(OomdContext c, opt_CgroupPath p) { g_rscg = p; }
/* the per-instance tick (own contract proved in unit ruleset) */
uint32_t Ruleset__runOnceImpl__h(uptr_Ruleset inst, OomdContext c)
{
  __CPROVER_assert(inst != 0, "UB: null unique_ptr dereferenced");
  if (g_in_map && inst == g_inst)
  {
    __CPROVER_assert(g_rscg.has && PATH_OF(g_rscg.val) == g_K, "an instance is evaluated with ITS cgroup set as the ruleset cgroup"); /*@C11*/
    g_k_runs = g_k_runs + 1;
  }
  uint32_t r = nondet_u32(); __CPROVER_assume(r <= 1); return r;
}
uint64_t g_self_runs;      /* runOnceImpl calls on the ruleset object itself (unscoped rulesets) */
uint32_t Ruleset__runOnceImpl(Ruleset *self, OomdContext c) { g_self_runs = g_self_runs + 1; uint32_t r = nondet_u32(); __CPROVER_assume(r <= 1); return r; }
void Ruleset__prerun__h(uptr_Ruleset inst, OomdContext c)
{
  __CPROVER_assert(inst != 0, "UB: null unique_ptr dereferenced");
  if (inst == g_inst) g_k_preruns = g_k_preruns + 1;
}

/* ---- registerRunnableRulesetForCgroupPath: a FRESH instance for this cgroup ---- */
uint64_t g_dg_copies, g_act_copies; _Bool g_inits_ok; uint64_t g_make_calls;
uptr_DetectorGroup ext__make_unique__uptr_DetectorGroup(DetectorGroup dg) { g_dg_copies = g_dg_copies + 1; return (uptr_DetectorGroup)fresh_handle(); }
uptr_DetectorGroup vec_uptr_DetectorGroup__elem(uint64_t vid, uint64_t i) { return (uptr_DetectorGroup)(300000 + i); }
uptr_BasePlugin vec_uptr_BasePlugin__elem(uint64_t vid, uint64_t i) { return (uptr_BasePlugin)(100000 + i); }
PluginRegistry getPluginRegistry(void) { return (PluginRegistry)1; }
/* a plugin type either declares a `cgroup` argument or it does not (systemd_restart does not): init() of a type that does not
   REJECTS an argument map carrying one (PluginArgParser::parse: unknown argument) and leaves the object half initialised.
   g_cur_plugin / g_cur_init_ok: the object most recently created and whether its last init() accepted. */
BasePlugin g_cur_plugin; _Bool g_cur_takes_cgroup, g_cur_init_ok; umap_str_t_str_t g_injected_map; uint64_t g_placed, g_placed_ok;
BasePlugin PluginRegistry__create(PluginRegistry r, str_t name) { g_cur_plugin = (BasePlugin)fresh_handle(); g_cur_takes_cgroup = nondet_bool(); g_cur_init_ok = 0; return g_cur_plugin; }
str_t BasePlugin__getName(BasePlugin p) { return (str_t)p; }
void BasePlugin__setName(BasePlugin p, str_t n) { }
umap_str_t_str_t g_args_of; str_t g_emplaced_key, g_emplaced_val; _Bool g_emplace_only_if_absent; uint64_t g_try_emplaces, g_forced_sets;
umap_str_t_str_t BasePlugin__getPluginArgs(BasePlugin p) { umap_str_t_str_t m = (umap_str_t_str_t)fresh_handle(); __CPROVER_assume(m != g_injected_map); return m; }   /* returns a COPY of the template's arguments: a map of its own */
void umap_str_t_str_t__try_emplace(umap_str_t_str_t m, str_t k, str_t v) { g_try_emplaces = g_try_emplaces + 1; g_emplaced_key = k; g_emplaced_val = v; g_injected_map = m; }
str_t *umap_str_t_str_t__at_ref(umap_str_t_str_t m, str_t k) { static str_t slot; g_forced_sets = g_forced_sets + 1; return &slot; }   /* operator[]: overwrites */
PluginConstructionContext PluginConstructionContext__from__str_t(str_t fs) { return (PluginConstructionContext)1; }
int BasePlugin__init(BasePlugin p, umap_str_t_str_t args, PluginConstructionContext c)
{
  __CPROVER_assert(p == g_cur_plugin, "init() is called on the object just created for this instance");
  /* the template's own arguments were accepted when the configuration was compiled; with the injected `cgroup` they are
     accepted iff the plugin type declares that argument */
  g_cur_init_ok = (args != g_injected_map) || g_cur_takes_cgroup;
  return g_cur_init_ok ? 0 : 1;
}
void vec_uptr_BasePlugin__emplace_back(vec_uptr_BasePlugin *v, uptr_BasePlugin p)
{
  __CPROVER_assert((BasePlugin)p == g_cur_plugin && g_cur_init_ok, "every action put into a per-cgroup instance was initialised successfully (its init() result is honoured)"); /*@C11,C12,C04*/
  g_act_copies = g_act_copies + 1;
  __CPROVER_assume(v->n < VEC_MAX); v->n = v->n + 1;
}
uptr_CgroupPath ext__make_unique__uptr_CgroupPath(str_t fs, str_t rel) { return (uptr_CgroupPath)fresh_handle(); }
str_t g_new_name; int g_new_delay, g_new_hook_timeout; uint32_t g_new_silence; _Bool g_new_dod, g_new_dgd, g_new_agd; uint64_t g_new_ndg, g_new_nact;
uptr_Ruleset g_new_inst;
uptr_Ruleset ext__make_unique__uptr_Ruleset(str_t name, vec_uptr_DetectorGroup dgs, vec_uptr_BasePlugin acts, _Bool dod, _Bool dgd, _Bool agd,
                                            uint32_t silence, int post_action_delay, int prekill_hook_timeout, uptr_CgroupPath cg)
{
  g_make_calls = g_make_calls + 1;
  g_new_name = name; g_new_ndg = dgs.n; g_new_nact = acts.n; g_new_dod = dod; g_new_dgd = dgd; g_new_agd = agd; g_new_silence = silence;
  g_new_delay = post_action_delay; g_new_hook_timeout = prekill_hook_timeout;
  g_new_inst = (uptr_Ruleset)fresh_handle();     /* fresh object: pause epoch, no suspended chain (Ruleset constructor) */
  return g_new_inst;
}
void Ruleset__registerRunnableRulesetForCgroupPath(Ruleset *self, OomdContext context, CgroupPath cgroup)
  __CPROVER_requires(__CPROVER_is_fresh(self, sizeof(*self)) && self->detector_groups_.n <= VEC_MAX && self->action_group_.n <= VEC_MAX && ghost_exc == 0)
  __CPROVER_requires(g_map_n <= 2 * VEC_MAX && (!g_in_map || g_kpos < g_map_n))
  __CPROVER_assigns(g_cur_plugin, g_cur_takes_cgroup, g_cur_init_ok, g_injected_map, g_make_calls, g_dg_copies, g_act_copies, g_try_emplaces, g_forced_sets, g_emplaced_key, g_emplaced_val, g_new_name, g_new_delay,
                    g_new_hook_timeout, g_new_silence, g_new_dod, g_new_dgd, g_new_agd, g_new_ndg, g_new_nact, g_new_inst, g_in_map, g_inst, g_kpos,
                    g_map_n, g_other, g_k_preruns, g_k_created, g_rel_of_cgroup)
  /* one new ruleset object, built from copies of every detector group and every action, with the template's settings */ /*@C11*/
  __CPROVER_ensures(g_make_calls == __CPROVER_old(g_make_calls) + 1 && g_dg_copies == __CPROVER_old(g_dg_copies) + self->detector_groups_.n &&
                    g_act_copies == __CPROVER_old(g_act_copies) + self->action_group_.n &&
                    g_new_ndg == self->detector_groups_.n && g_new_nact == self->action_group_.n)
  __CPROVER_ensures(g_new_name == self->name_ && g_new_delay == self->post_action_delay_ && g_new_hook_timeout == self->prekill_hook_timeout_ &&
                    g_new_silence == self->silenced_logs_ && (g_new_dod != 0) == (self->disable_on_drop_in_ != 0)) /*@C11,C05,C07*/
  /* each action targets this cgroup UNLESS it names its own (`cgroup` is only defaulted, never overwritten) */ /*@C11*/
  __CPROVER_ensures(g_try_emplaces == __CPROVER_old(g_try_emplaces) + self->action_group_.n)
  __CPROVER_ensures(g_forced_sets == __CPROVER_old(g_forced_sets))
  __CPROVER_ensures(self->action_group_.n > 0 ? g_emplaced_key == STR_cgroup : 1)
  __CPROVER_ensures((self->action_group_.n > 0 && g_rel_expected == g_rel_of_cgroup) ? g_emplaced_val == g_rel_expected : 1)
  /* and it is stored under this cgroup's path; other keys keep their instance */
  __CPROVER_ensures(PATH_OF(cgroup) == g_K ? (g_in_map && g_inst == g_new_inst && g_inst != 0 && (__CPROVER_old(g_in_map) || g_k_created) && g_kpos < g_map_n)
                                           : ((g_in_map != 0) == (__CPROVER_old(g_in_map) != 0) && g_inst == __CPROVER_old(g_inst) && g_kpos == __CPROVER_old(g_kpos) &&
                                              (g_k_created != 0) == (__CPROVER_old(g_k_created) != 0)))
  __CPROVER_ensures(g_map_n >= __CPROVER_old(g_map_n) && g_map_n <= __CPROVER_old(g_map_n) + 1)
  __CPROVER_ensures(ghost_exc == 0);
#define LOOPC_Ruleset__registerRunnableRulesetForCgroupPath_1 \
  __CPROVER_assigns(it, detector_groups, g_dg_copies) \
  __CPROVER_loop_invariant(it.i <= it.n && it.n == self->detector_groups_.n && g_dg_copies == __CPROVER_loop_entry(g_dg_copies) + it.i && detector_groups.n == it.i) \
  __CPROVER_decreases(it.n - it.i)
#define LOOPC_Ruleset__registerRunnableRulesetForCgroupPath_2 \
  __CPROVER_assigns(it, action_group, g_act_copies, g_try_emplaces, g_emplaced_key, g_emplaced_val, g_forced_sets, g_rel_of_cgroup, g_cur_plugin, g_cur_takes_cgroup, g_cur_init_ok, g_injected_map) \
  __CPROVER_loop_invariant(it.i <= it.n && it.n == self->action_group_.n && g_act_copies == __CPROVER_loop_entry(g_act_copies) + it.i && action_group.n == it.i && \
                           g_try_emplaces == __CPROVER_loop_entry(g_try_emplaces) + it.i && g_forced_sets == __CPROVER_loop_entry(g_forced_sets)) \
  __CPROVER_loop_invariant(it.i == 0 || (g_emplaced_key == STR_cgroup && g_emplaced_val == g_rel_expected)) \
  __CPROVER_decreases(it.n - it.i)

/* iterators into runnable_rulesets_: using one after the container dropped its element is undefined behaviour */
mapit_pair_str_t_uptr_Ruleset mapit_pair_str_t_uptr_Ruleset__op_inc(mapit_pair_str_t_uptr_Ruleset *a)
{
  __CPROVER_assert(a->valid && a->n == g_map_n && a->pos < a->n, "UB: increment of an iterator that erase() invalidated (or of end())"); /*@C11,C10*/
  a->pos = a->pos + 1; return *a;
}
pair_str_t_uptr_Ruleset mapit_pair_str_t_uptr_Ruleset__elem(hnd_t m, uint64_t pos);
pair_str_t_uptr_Ruleset mapit_pair_str_t_uptr_Ruleset__op_arrow(mapit_pair_str_t_uptr_Ruleset a)
{
  __CPROVER_assert(a.valid && a.n == g_map_n && a.pos < a.n, "UB: dereference of an iterator that erase() invalidated (or of end())"); /*@C11,C10*/
  return mapit_pair_str_t_uptr_Ruleset__elem(a.map, a.pos);
}
/* ---- runOnce ---- */
mapit_pair_str_t_uptr_Ruleset umap_str_t_uptr_Ruleset__erase(umap_str_t_uptr_Ruleset m, mapit_pair_str_t_uptr_Ruleset it)
{
  __CPROVER_assert(it.valid && it.pos < g_map_n, "UB: erase() of an invalid or end() iterator");
  if (g_in_map && it.pos == g_kpos) { g_in_map = 0; }
  else if (g_in_map && it.pos < g_kpos) g_kpos = g_kpos - 1;
  g_map_n = g_map_n - 1;
  mapit_pair_str_t_uptr_Ruleset nx = it; nx.n = g_map_n; nx.valid = 1;   /* returns the iterator following the erased element */
  return nx;
}
#define CONTRACT_registerRunnable_replace \
  __CPROVER_requires(g_map_n <= VEC_MAX) \
  __CPROVER_assigns(g_in_map, g_inst, g_kpos, g_map_n, g_k_created, g_k_preruns) \
  __CPROVER_ensures(PATH_OF(cgroup) == g_K ? (g_in_map && g_inst != 0 && g_k_created && g_kpos < g_map_n) \
                                           : (g_in_map == __CPROVER_old(g_in_map) && g_inst == __CPROVER_old(g_inst) && g_kpos == __CPROVER_old(g_kpos) && !g_k_created == !__CPROVER_old(g_k_created))) \
  __CPROVER_ensures(g_map_n >= __CPROVER_old(g_map_n) && g_map_n <= __CPROVER_old(g_map_n) + 1 && g_map_n <= VEC_MAX + 1)
uint32_t Ruleset__runOnce(Ruleset *self, OomdContext context)
  __CPROVER_requires(__CPROVER_is_fresh(self, sizeof(*self)) && ghost_exc == 0 && (!self->cgroup_.has || self->cgroup_.val != 0) &&
                     self->detector_groups_.n <= VEC_MAX && self->action_group_.n <= VEC_MAX)
  __CPROVER_requires(g_map_n <= VEC_MAX && (!g_in_map || (g_kpos < g_map_n && g_inst != 0)) && !g_k_visited && g_k_runs == 0 && !g_k_created && g_self_runs == 0)
  __CPROVER_assigns(g_self_runs, g_in_map, g_inst, g_kpos, g_map_n, g_k_visited, g_k_runs, g_k_created, g_k_preruns, g_other, g_rscg, g_resolved_n, g_make_calls, g_dg_copies, g_act_copies, g_try_emplaces, g_forced_sets, g_emplaced_key, g_emplaced_val, g_new_name, g_new_delay, g_new_hook_timeout, g_new_silence, g_new_dod, g_new_dgd, g_new_agd, g_new_ndg, g_new_nact, g_new_inst, g_rel_of_cgroup, g_cur_plugin, g_cur_takes_cgroup, g_cur_init_ok, g_injected_map)
  /* a DISABLED ruleset (drop-in targeted with disable-on-drop-in) evaluates nothing: neither itself nor any per-cgroup
     instance, and keeps its instances; an enabled unscoped ruleset evaluates itself exactly once */ /*@C13,C11,C02*/
  __CPROVER_ensures(!self->enabled_ ? (g_self_runs == 0 && g_k_runs == 0 && __CPROVER_return_value == 0 &&
                                       (g_in_map != 0) == (__CPROVER_old(g_in_map) != 0) && g_inst == __CPROVER_old(g_inst) && g_map_n == __CPROVER_old(g_map_n))
                                    : 1)
  __CPROVER_ensures((self->enabled_ && !self->cgroup_.has) ? (g_self_runs == 1 && g_k_runs == 0) : 1)
  __CPROVER_ensures((self->enabled_ && self->cgroup_.has) ? g_self_runs == 0 : 1)
  /* for a cgroup-scoped, enabled ruleset and ANY cgroup K: */
  /* K matched, opened and carries the filter attribute  <=>  its instance was evaluated exactly once, and survives */ /*@C11*/
  __CPROVER_ensures((self->enabled_ && self->cgroup_.has)
      ? ((g_k_resolved && g_k_open && (self->xattr_filter_ == STR_EMPTY || g_k_tagged))
            ? (g_k_runs == 1 && g_in_map && g_inst != 0)
            : (g_k_runs == 0 && !g_in_map))      /* otherwise K's instance (if any) is discarded, without error */
      : 1)
  /* persistence: an instance that existed and is still wanted is the SAME object (windows, pause, suspended chain kept) */ /*@C11*/
  __CPROVER_ensures((self->enabled_ && self->cgroup_.has && __CPROVER_old(g_in_map) && g_in_map) ? (g_inst == __CPROVER_old(g_inst) && !g_k_created) : 1)
  /* created only when absent */
  __CPROVER_ensures((self->enabled_ && self->cgroup_.has && !__CPROVER_old(g_in_map) && g_in_map) ? g_k_created : 1)
  __CPROVER_ensures(!g_in_map || (g_kpos < g_map_n))
  __CPROVER_ensures(ghost_exc == 0);
#define LOOPC_Ruleset__runOnce_1 \
  __CPROVER_assigns(__begin2, ret, g_in_map, g_inst, g_kpos, g_map_n, g_k_visited, g_k_runs, g_k_created, g_k_preruns, g_other, g_rscg, g_make_calls, g_dg_copies, g_act_copies, g_try_emplaces, g_forced_sets, g_emplaced_key, g_emplaced_val, g_new_name, g_new_delay, g_new_hook_timeout, g_new_silence, g_new_dod, g_new_dgd, g_new_agd, g_new_ndg, g_new_nact, g_new_inst, g_rel_of_cgroup, g_cur_plugin, g_cur_takes_cgroup, g_cur_init_ok, g_injected_map) \
  __CPROVER_loop_invariant(__begin2.i <= __begin2.n && __end2.i == __begin2.n && __begin2.n == g_resolved_n && g_map_n <= VEC_MAX + __begin2.i) \
  __CPROVER_loop_invariant(!g_in_map || (g_kpos < g_map_n && g_inst != 0)) \
  __CPROVER_loop_invariant((g_k_resolved && __begin2.i > g_k_index && g_k_open && (self->xattr_filter_ == STR_EMPTY || g_k_tagged)) \
        ? (g_k_visited && g_k_runs == 1 && g_in_map) : (!g_k_visited && g_k_runs == 0)) \
  __CPROVER_loop_invariant((__CPROVER_loop_entry(g_in_map) && g_in_map) ? (g_inst == __CPROVER_loop_entry(g_inst) && !g_k_created) : 1) \
  __CPROVER_loop_invariant(__CPROVER_loop_entry(g_in_map) ? g_in_map : (g_in_map ? g_k_created : !g_k_created)) \
  __CPROVER_decreases(__begin2.n - __begin2.i)
#define LOOPC_Ruleset__runOnce_2 \
  __CPROVER_assigns(cgroup_it, g_in_map, g_kpos, g_map_n) \
  __CPROVER_loop_invariant(cgroup_it.valid && cgroup_it.pos <= g_map_n && cgroup_it.n == g_map_n && (!g_in_map || (g_kpos < g_map_n && g_inst != 0))) \
  __CPROVER_loop_invariant(g_in_map ? (g_k_visited || g_kpos >= cgroup_it.pos) : 1) \
  __CPROVER_loop_invariant(__CPROVER_loop_entry(g_in_map) ? (g_in_map || !g_k_visited) : !g_in_map) \
  __CPROVER_decreases(g_map_n - cgroup_it.pos)

/* the clock (not read by these functions at the pinned commit; any valid reading, so that a change that makes
   prerun/runOnce depend on the time is decided rather than left without a model) */
tp_t nondet_tp(void);
tp_t ext__now(void) { tp_t t = nondet_tp(); __CPROVER_assume(TP_VALID(t) && !TP_IS_EPOCH(t)); return t; }
/* ---- prerun: every live instance is prerun on every tick ---- */
uint64_t g_prerun_dg, g_prerun_act;
void DetectorGroup__prerun(DetectorGroup dg, OomdContext c) { g_prerun_dg = g_prerun_dg + 1; }
void BasePlugin__prerun(BasePlugin p, OomdContext c) { g_prerun_act = g_prerun_act + 1; }
void Ruleset__prerun(Ruleset *self, OomdContext context)
  __CPROVER_requires(__CPROVER_is_fresh(self, sizeof(*self)) && self->detector_groups_.n <= VEC_MAX && self->action_group_.n <= VEC_MAX && ghost_exc == 0)
  __CPROVER_requires(g_k_preruns == 0 && g_map_n <= VEC_MAX && (!g_in_map || (g_kpos < g_map_n && g_inst != 0)))
  __CPROVER_assigns(g_prerun_dg, g_prerun_act, g_k_preruns)
  __CPROVER_ensures((self->enabled_ && self->cgroup_.has && g_in_map) ? g_k_preruns == 1 : 1) /*@C11*/
  __CPROVER_ensures(ghost_exc == 0);
#define LOOPC_Ruleset__prerun_1 \
  __CPROVER_assigns(__begin2, g_prerun_dg) \
  __CPROVER_loop_invariant(__begin2.i <= __begin2.n && __end2.i == __begin2.n) __CPROVER_decreases(__begin2.n - __begin2.i)
#define LOOPC_Ruleset__prerun_2 \
  __CPROVER_assigns(__begin2, g_prerun_act) \
  __CPROVER_loop_invariant(__begin2.i <= __begin2.n && __end2.i == __begin2.n) __CPROVER_decreases(__begin2.n - __begin2.i)
#define LOOPC_Ruleset__prerun_3 \
  __CPROVER_assigns(__begin2, g_k_preruns) \
  __CPROVER_loop_invariant(__begin2.valid && __begin2.pos <= __begin2.n && __begin2.n == g_map_n && __end2.pos == g_map_n) \
  __CPROVER_loop_invariant(g_k_preruns == ((g_in_map && __begin2.pos > g_kpos) ? 1 : 0)) \
  __CPROVER_decreases(__begin2.n - __begin2.pos)

void Ruleset__registerRunnableRulesetForCgroupPath__note(void);
#define HAVOC_RSC() do { HAVOC(g_K); HAVOC(g_in_map); HAVOC(g_inst); HAVOC(g_map_n); HAVOC(g_kpos); HAVOC(g_k_visited); HAVOC(g_k_runs); HAVOC(g_k_preruns); \
  HAVOC(g_k_created); HAVOC(g_rscg); HAVOC(g_k_resolved); HAVOC(g_k_index); HAVOC(g_k_open); HAVOC(g_k_tagged); HAVOC(g_make_calls); HAVOC(g_dg_copies); \
  HAVOC(g_act_copies); HAVOC(g_try_emplaces); HAVOC(g_forced_sets); HAVOC(ghost_exc); HAVOC(g_self_runs); } while (0)
#define CANARY __CPROVER_assert(0, "canary: contract precondition satisfiable and function exit reachable")
void h_Ruleset__runOnce(void) { Ruleset *self; OomdContext c; HAVOC_RSC(); Ruleset__runOnce(self, c); CANARY; }
void h_Ruleset__registerRunnable(void) { Ruleset *self; OomdContext c; CgroupPath cg; HAVOC_RSC(); g_rel_expected = __CPROVER_uninterpreted_relpath(cg); Ruleset__registerRunnableRulesetForCgroupPath(self, c, cg); CANARY; }
void h_Ruleset__prerun_cgroup(void) { Ruleset *self; OomdContext c; HAVOC_RSC(); Ruleset__prerun(self, c); CANARY; }
