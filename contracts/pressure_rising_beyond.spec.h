/* Contracts for PressureRisingBeyond::run (C08: pressure_rising_beyond)
 *   watched = most pressured cgroup (as pressure_above)
 *   run start r' = (watched.sec_60 > threshold) ? (r if open else now) : none
 *   CONTINUE <=> watched.sec_60 > threshold && floor_sec(now - r') >= duration
 *                && watched.sec_10 > threshold && !(watched.sec_10 < previous_tick.sec_10 * fast_fall_ratio)
 */
#include "pressure_common.h"
#define PRB_BEST(s) ((s)->resource_ == ResourceType__IO ? g_best_io : g_best_mem)
#define PRB_ABOVE60(s) (PRB_BEST(s).sec_60 > (float)(s)->threshold_)

PluginRet PressureRisingBeyond__run(PressureRisingBeyond *self, OomdContext ctx)
  __CPROVER_requires(__CPROVER_is_fresh(self, sizeof(*self)) && ghost_exc == 0)
  __CPROVER_requires(self->resource_ == ResourceType__MEMORY || self->resource_ == ResourceType__IO)
  __CPROVER_requires(TP_VALID(g_last_now) && TP_VALID(self->hit_thres_at_) && TP_LE(self->hit_thres_at_, g_last_now))
  __CPROVER_requires(RP_ZERO(g_best_mem) && RP_ZERO(g_best_io) && g_calls_mem == 0 && g_calls_io == 0 && g_elems == 0)
  __CPROVER_assigns(self->last_pressure_, self->hit_thres_at_, g_last_now, g_best_mem, g_best_io,
                    g_calls_mem, g_calls_io, g_calls_usage, g_elems, g_cur_elem, g_vec_n)
  __CPROVER_ensures(g_elems == g_vec_n)
  __CPROVER_ensures(self->resource_ == ResourceType__IO ? (g_calls_io == g_vec_n && g_calls_mem == 0)
                                                        : (g_calls_mem == g_vec_n && g_calls_io == 0))
  __CPROVER_ensures(PRB_ABOVE60(self)
      ? (TP_IS_EPOCH(__CPROVER_old(self->hit_thres_at_)) ? TP_EQ(self->hit_thres_at_, g_last_now)
                                                        : TP_EQ(self->hit_thres_at_, __CPROVER_old(self->hit_thres_at_)))
      : TP_IS_EPOCH(self->hit_thres_at_))
  __CPROVER_ensures((__CPROVER_return_value == PluginRet__CONTINUE) ==
      (PRB_ABOVE60(self) && SEC_DIFF(g_last_now, self->hit_thres_at_) >= (int64_t)self->duration_ &&
       PRB_BEST(self).sec_10 > (float)self->threshold_ &&
       !(PRB_BEST(self).sec_10 < F_MUL_f(__CPROVER_old(self->last_pressure_.sec_10), self->fast_fall_ratio_))))
  __CPROVER_ensures(__CPROVER_return_value == PluginRet__CONTINUE || __CPROVER_return_value == PluginRet__STOP)
  __CPROVER_ensures(RP_EQ(self->last_pressure_, PRB_BEST(self)))
  __CPROVER_ensures(TP_VALID(self->hit_thres_at_) && TP_LE(self->hit_thres_at_, g_last_now))
  __CPROVER_ensures(ghost_exc == 0);

#define LOOPC_PressureRisingBeyond__run_1 \
  __CPROVER_assigns(__begin1, current_pressure, current_memory_usage, g_best_mem, g_best_io, \
                    g_calls_mem, g_calls_io, g_calls_usage, g_elems, g_cur_elem) \
  __CPROVER_loop_invariant(__begin1.i <= __begin1.n && __begin1.n == __end1.i && __begin1.n == g_vec_n) \
  __CPROVER_loop_invariant(g_elems == __begin1.i) \
  __CPROVER_loop_invariant(self->resource_ == ResourceType__IO \
      ? (g_calls_io == __begin1.i && g_calls_mem == 0) : (g_calls_mem == __begin1.i && g_calls_io == 0)) \
  __CPROVER_loop_invariant(RP_EQ(current_pressure, PRB_BEST(self))) \
  __CPROVER_decreases(__begin1.n - __begin1.i)

void h_PressureRisingBeyond__run(void)
{
  PressureRisingBeyond *self; OomdContext ctx;
  HAVOC(g_last_now); HAVOC(g_best_mem); HAVOC(g_best_io); HAVOC(g_calls_mem); HAVOC(g_calls_io); HAVOC(g_elems); HAVOC(ghost_exc);
  PressureRisingBeyond__run(self, ctx);
  __CPROVER_assert(0, "canary: contract precondition satisfiable and function exit reachable");
}

/* ================= init(): the arguments this plugin declares (C12) =================
 * Names and required flags as documented in docs/core_plugins.md, with one deliberate difference: `cgroup` is declared
 * optional by every plugin except senpai, because a ruleset-level `cgroup` supplies it per instance
 * (Ruleset::registerRunnableRulesetForCgroupPath, unit ruleset_cgroup). */
#include "init_common.h"
DEF_PARSE(PluginArgParser)
uset_CgroupPath PluginArgParser__parseCgroup(PluginConstructionContext c, str_t s);
void PluginArgParser__addArgumentCustom__str_t_uset_CgroupPath_function_t__Bool(PluginArgParser p, str_t name, uset_CgroupPath dest, function_t fn, _Bool required)
{ __CPROVER_assert(fn == (function_t)7, "the cgroup argument is parsed by PluginArgParser::parseCgroup with this plugin's construction context"); REG(name, (const void *)(long)dest, required, 1); }
#define lambda_bind__PressureRisingBeyond__init__lambda_addArgumentCustom(ctx) ((lambda_t)7)
DEF_ADDARG(ResourceType, ResourceType)
DEF_ADDARG(int, int)
void PluginArgParser__addArgument__str_t_float__Bool(PluginArgParser p, str_t name, float *dest, _Bool required) { REG(name, dest, required, 0); }
int PressureRisingBeyond__init(PressureRisingBeyond *self, umap_str_t_str_t args, PluginConstructionContext context)
  __CPROVER_requires(__CPROVER_is_fresh(self, sizeof(*self)) && ghost_exc == 0 && g_reg_n == 0 && g_parse_calls == 0)
  __CPROVER_assigns(REG_ASSIGNS)
  __CPROVER_ensures(INIT_CORE(5)) /*@C12*/
  __CPROVER_ensures(HASREG(STR_cgroup, (long)self->cgroups_, 0) && HASREG(STR_resource, &self->resource_, 1) && HASREG(STR_threshold, &self->threshold_, 1) && HASREG(STR_duration, &self->duration_, 1) &&
                    HASREG(STR_fast_fall_ratio, &self->fast_fall_ratio_, 0)) /*@C12,C08*/
  __CPROVER_ensures(ghost_exc == 0);
void h_PressureRisingBeyond__init(void) { PressureRisingBeyond *self; umap_str_t_str_t a; PluginConstructionContext c; HAVOC_REG(); HAVOC(ghost_exc); PressureRisingBeyond__init(self, a, c); __CPROVER_assert(0, "canary: contract precondition satisfiable and function exit reachable"); }
