/* Contract for Util::parseSizeOrPercent (C12): "N%" evaluates to total*N/100 exactly (the documented
 * integer term, for every 64-bit total) for 0 <= N <= 100 and is rejected otherwise; a bare number is
 * megabytes; anything else goes through parseSize; any exception from the text conversions is a clean -1.
 * Text->number conversion (stoi/stoll/parseSize) is a boundary: exactness of decimal parsing is NOT claimed. */
#include "common.h"
uint64_t __CPROVER_uninterpreted_strlen(str_t);
int __CPROVER_uninterpreted_char_at(str_t, uint64_t);
int nondet_int(void); int64_t nondet_i64(void); uint64_t nondet_u64(void); _Bool nondet_bool(void); str_t nondet_str(void);
int g_pct; _Bool g_pct_parsed; int64_t g_bare; uint64_t g_bare_end; _Bool g_bare_parsed; int64_t g_ps_val; int g_ps_rc; _Bool g_ps_called;
_Bool g_threw;
int64_t g_out;   /* the caller's output variable */
_Bool g_is_pct; uint64_t g_len;   /* facts about the input text, fixed by the harness */
uint64_t str_t__size(str_t s) { return __CPROVER_uninterpreted_strlen(s); }
uint64_t str_t__length(str_t s) { return __CPROVER_uninterpreted_strlen(s); }
char str_t__at(str_t s, uint64_t i) { if (i >= __CPROVER_uninterpreted_strlen(s)) { ghost_exc = EXC_out_of_range; g_threw = 1; return 0; } int c = __CPROVER_uninterpreted_char_at(s, i); __CPROVER_assume(c >= 0 && c <= 127); return (char)c; }
str_t str_t__substr(str_t s, uint64_t pos, uint64_t n) { if (pos > __CPROVER_uninterpreted_strlen(s)) { ghost_exc = EXC_out_of_range; g_threw = 1; } return nondet_str(); }
int ext__stoi(str_t s) { if (nondet_bool()) { ghost_exc = nondet_bool() ? EXC_invalid_argument : EXC_out_of_range; g_threw = 1; return 0; } g_pct = nondet_int(); g_pct_parsed = 1; return g_pct; }
int64_t ext__stoll(str_t s, uint64_t *end) { if (nondet_bool()) { ghost_exc = nondet_bool() ? EXC_invalid_argument : EXC_out_of_range; g_threw = 1; return 0; }
  g_bare = nondet_i64(); g_bare_end = nondet_u64(); g_bare_parsed = 1; *end = g_bare_end; return g_bare; }
int Util__parseSize(str_t s, int64_t *out) { g_ps_called = 1; g_ps_rc = nondet_bool() ? 0 : -1; if (g_ps_rc == 0) { g_ps_val = nondet_i64(); *out = g_ps_val; } return g_ps_rc; }

#define IS_PCT(s) (__CPROVER_uninterpreted_strlen(s) > 0 && (char)__CPROVER_uninterpreted_char_at((s), __CPROVER_uninterpreted_strlen(s) - 1) == '%')
int Util__parseSizeOrPercent(str_t input, int64_t *output, int64_t total)
  __CPROVER_requires(output == &g_out && ghost_exc == 0 && !g_pct_parsed && !g_bare_parsed && !g_ps_called && !g_threw)
  __CPROVER_assigns(g_out, ghost_exc, ghost_exc_caught, g_pct, g_pct_parsed, g_bare, g_bare_end, g_bare_parsed, g_ps_val, g_ps_rc, g_ps_called, g_threw)
  /* never lets an exception out; a conversion that throws is a clean rejection */
  __CPROVER_ensures(ghost_exc == 0 && (g_threw ? __CPROVER_return_value == -1 : 1))
  __CPROVER_ensures(__CPROVER_return_value == 0 || __CPROVER_return_value == -1)
  /* percent form */
  __CPROVER_ensures((!g_threw && g_is_pct) ? (g_pct_parsed && ((g_pct < 0 || g_pct > 100) ? __CPROVER_return_value == -1
        : (__CPROVER_return_value == 0 && g_out == I_DIV_i64(I_MUL_i64(total, (int64_t)g_pct), (int64_t)100)))) : 1)
  /* bare number = megabytes; otherwise parseSize decides and its value is passed through unchanged */
  __CPROVER_ensures((!g_threw && !g_is_pct) ? (g_bare_parsed && (g_bare_end == g_len
        ? ((g_bare < 0 || g_bare > (INT64_MAX >> 20)) ? __CPROVER_return_value == -1     /* out of range: rejected, never wrapped */
                                                       : (__CPROVER_return_value == 0 && g_out == g_bare * 1048576))
        : (g_ps_called && __CPROVER_return_value == g_ps_rc && (g_ps_rc == 0 ? g_out == g_ps_val : 1)))) : 1);
void h_parseSizeOrPercent(void)
{
  str_t in; int64_t *out = &g_out; int64_t total;
  HAVOC(ghost_exc); HAVOC(g_pct_parsed); HAVOC(g_bare_parsed); HAVOC(g_ps_called); HAVOC(g_threw);
  { int c0 = __CPROVER_uninterpreted_char_at(in, __CPROVER_uninterpreted_strlen(in) - 1); g_is_pct = __CPROVER_uninterpreted_strlen(in) > 0 && c0 == '%'; } g_len = __CPROVER_uninterpreted_strlen(in);
  Util__parseSizeOrPercent(in, out, total);
  __CPROVER_assert(0, "canary: contract precondition satisfiable and function exit reachable");
}
