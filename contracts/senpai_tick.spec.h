/* Contracts for Senpai's per-cgroup tick (C18): tick_immediate_backoff, initializeCgroup, tick, hasMemoryHighTmp,
 * readMemhigh, hasMemoryReclaim, calculateSwappinessFactor (+ the `adjust` closure of tick, re-proved here against the
 * weaker contract tick needs; its full contract is in unit senpai).
 *
 *   immediate backoff: nothing is touched while state.ticks counts down; memory is reclaimed at most once per tick, only
 *       when memory AND io pressure validate and (with swap_validation) swap validates, only while usage > floor, and the
 *       amount is trunc_4K(max_probe x (usage - floor)); vm.swappiness is written only when modulate_swappiness is set,
 *       and whenever it was written the LAST value written is the value read at the start of the tick (restored on every
 *       exit, including a failed reclaim);
 *   initializeCgroup: (re)starting to track a cgroup writes exactly its current usage as the limit (nothing in immediate
 *       backoff mode) and the new state is (that limit, pressure total now, interval);
 *   tick: a limit that is not the recorded one re-initialises the state and adjusts nothing; otherwise at most one adjust.
 *
 * writeMemhigh / reclaim / validatePressure / validateSwap / getLimitMin/MaxBytes are proved in units senpai and
 * senpai_limits; here they are ghost stubs that record what they are asked to do. */
#include "common.h"
_Bool nondet_bool(void); int64_t nondet_i64(void); str_t nondet_str(void);
CgroupContext g_cg;
uint64_t g_high_writes, g_reclaims, g_swp_writes, g_tmp_reads, g_high_reads; int64_t g_last_high_value, g_reclaim_size; int g_swp_last;
_Bool g_write_ret, g_reclaim_ret;      /* what the last writeMemhigh / reclaim answered (false: the cgroup is gone or the write failed) */
opt_int64_t g_floor, g_ceil, g_usage, g_memhigh, g_memhigh_tmp; maybe__Bool g_vp, g_vs; opt_dur_us_t g_total; opt_double g_swap_util; SystemContext g_sys;
maybe_vec_str_t g_ctrls; _Bool g_has_mem; uint64_t g_mi; _Bool g_reclaim_file; uint64_t g_exist_checks;

Fs_DirFd CgroupContext__fd(CgroupContext c) { return (Fs_DirFd)c; }
CgroupPath CgroupContext__cgroup(CgroupContext c) { return (CgroupPath)c; }
str_t CgroupPath__absolutePath(CgroupPath p) { return nondet_str(); }
OomdContext CgroupContext__oomd_ctx(CgroupContext c) { return (OomdContext)0; }
SystemContext *OomdContext__getSystemContext(OomdContext c) { return &g_sys; }
opt_int64_t CgroupContext__current_usage(CgroupContext c) { return g_usage; }
opt_int64_t CgroupContext__memory_high(CgroupContext c) { g_high_reads = g_high_reads + 1; return g_memhigh; }
opt_int64_t CgroupContext__memory_high_tmp(CgroupContext c) { g_tmp_reads = g_tmp_reads + 1; return g_memhigh_tmp; }
opt_double CgroupContext__effective_swap_util_pct(CgroupContext c) { return g_swap_util; }
opt_int64_t Senpai__getLimitMinBytes(Senpai *s, CgroupContext c) { return g_floor; }
opt_int64_t Senpai__getLimitMaxBytes(Senpai *s, CgroupContext c) { return g_ceil; }
maybe__Bool Senpai__validatePressure(Senpai *s, CgroupContext c) { return g_vp; }
maybe__Bool Senpai__validateSwap(Senpai *s, CgroupContext c) { return g_vs; }
opt_dur_us_t getPressureTotalSome(CgroupContext c) { return g_total; }     /* ASSUMED not to throw (legacy PSI without total does) */
_Bool Senpai__writeMemhigh(Senpai *s, CgroupContext c, int64_t v)
{ __CPROVER_assert(c == g_cg, "memory.high is written for the cgroup being ticked only"); /*@C18*/
  g_high_writes = g_high_writes + 1; g_last_high_value = v; g_write_ret = nondet_bool(); return g_write_ret; }
_Bool Senpai__reclaim(Senpai *s, CgroupContext c, int64_t size)
{ __CPROVER_assert(c == g_cg, "memory is reclaimed from the cgroup being ticked only"); /*@C18*/
  g_reclaims = g_reclaims + 1; g_reclaim_size = size; g_reclaim_ret = nondet_bool(); return g_reclaim_ret; }
maybe_Unit nondet_maybe_unit(void);
maybe_Unit Fs__setSwappiness(int v) { g_swp_writes = g_swp_writes + 1; g_swp_last = v; return nondet_maybe_unit(); }
maybe_vec_str_t Fs__readControllersAt(Fs_DirFd fd) { return g_ctrls; }
str_t vec_str_t__elem(uint64_t vid, uint64_t i)
{ if (g_has_mem && i == g_mi) return STR_memory; str_t s = nondet_str(); __CPROVER_assume(s != STR_memory); return s; }   /* controller names are distinct */
maybe_Unit Fs__checkExistAt(Fs_DirFd fd, str_t name)
{ __CPROVER_assert((CgroupContext)fd == g_cg && name == STR_memory_reclaim, "probes memory.reclaim in the given cgroup");
  g_exist_checks = g_exist_checks + 1; maybe_Unit r = nondet_maybe_unit(); r.ok = g_reclaim_file; return r; }

#define BOOL01(r) ((r) == 0 || (r) == 1)
#define HAS(o) ((o).has != 0)
#define B56 (1L << 56)
#define ST_EQ(a, b) ((a).limit == (b).limit && (a).last_total.us == (b).last_total.us && (a).cumulative.us == (b).cumulative.us && (a).ticks == (b).ticks && \
                     (a).probe_bytes == (b).probe_bytes && (a).probe_count == (b).probe_count)

/* ---- hasMemoryHighTmp: decided once (memory.high.tmp readable -> yes; only memory.high readable -> no), then cached ---- */
opt__Bool Senpai__hasMemoryHighTmp(Senpai *self, CgroupContext cgroup_ctx)
  __CPROVER_requires(__CPROVER_is_fresh(self, sizeof(*self)) && ghost_exc == 0 && (!HAS(self->has_memory_high_tmp_) || BOOL01(self->has_memory_high_tmp_.val)))
  __CPROVER_assigns(self->has_memory_high_tmp_, g_tmp_reads, g_high_reads)
  __CPROVER_ensures((__CPROVER_old(self->has_memory_high_tmp_.has) != 0)
      ? (HAS(__CPROVER_return_value) && __CPROVER_return_value.val == __CPROVER_old(self->has_memory_high_tmp_.val) &&
         g_tmp_reads == __CPROVER_old(g_tmp_reads) && g_high_reads == __CPROVER_old(g_high_reads))
      : (HAS(g_memhigh_tmp) ? (HAS(__CPROVER_return_value) && __CPROVER_return_value.val == 1)
                            : (HAS(g_memhigh) ? (HAS(__CPROVER_return_value) && __CPROVER_return_value.val == 0) : !HAS(__CPROVER_return_value))))
  __CPROVER_ensures(HAS(self->has_memory_high_tmp_) == HAS(__CPROVER_return_value) && (!HAS(__CPROVER_return_value) || self->has_memory_high_tmp_.val == __CPROVER_return_value.val))
  __CPROVER_ensures(ghost_exc == 0);

/* ---- readMemhigh: the limit currently in force, from the file Senpai writes ---- */
opt_int64_t Senpai__readMemhigh(Senpai *self, CgroupContext cgroup_ctx)
  __CPROVER_requires(__CPROVER_is_fresh(self, sizeof(*self)) && ghost_exc == 0 && (!HAS(self->has_memory_high_tmp_) || BOOL01(self->has_memory_high_tmp_.val)))
  __CPROVER_assigns(self->has_memory_high_tmp_, g_tmp_reads, g_high_reads)
  __CPROVER_ensures(!HAS(self->has_memory_high_tmp_) ? !HAS(__CPROVER_return_value)
      : (self->has_memory_high_tmp_.val ? (HAS(__CPROVER_return_value) == HAS(g_memhigh_tmp) && (!HAS(g_memhigh_tmp) || __CPROVER_return_value.val == g_memhigh_tmp.val))
                                        : (HAS(__CPROVER_return_value) == HAS(g_memhigh) && (!HAS(g_memhigh) || __CPROVER_return_value.val == g_memhigh.val))))
  __CPROVER_ensures((__CPROVER_old(self->has_memory_high_tmp_.has) != 0) ? (HAS(self->has_memory_high_tmp_) && self->has_memory_high_tmp_.val == __CPROVER_old(self->has_memory_high_tmp_.val)) : 1)
  __CPROVER_ensures(ghost_exc == 0);

/* ---- hasMemoryReclaim: decided once, from a cgroup that has the memory controller ---- */
opt__Bool Senpai__hasMemoryReclaim(Senpai *self, CgroupContext cgroup_ctx)
  __CPROVER_requires(__CPROVER_is_fresh(self, sizeof(*self)) && ghost_exc == 0 && cgroup_ctx == g_cg && (!g_ctrls.ok || g_ctrls.val.n <= VEC_MAX) &&
                     (!g_has_mem || (g_ctrls.ok && g_mi < g_ctrls.val.n)) && (!HAS(self->has_memory_reclaim_) || BOOL01(self->has_memory_reclaim_.val)))
  __CPROVER_assigns(self->has_memory_reclaim_, g_exist_checks)
  __CPROVER_ensures((__CPROVER_old(self->has_memory_reclaim_.has) != 0)
      ? (HAS(__CPROVER_return_value) && __CPROVER_return_value.val == __CPROVER_old(self->has_memory_reclaim_.val) && g_exist_checks == __CPROVER_old(g_exist_checks))
      : ((g_ctrls.ok && g_has_mem) ? (HAS(__CPROVER_return_value) && (__CPROVER_return_value.val != 0) == (g_reclaim_file != 0) && g_exist_checks == __CPROVER_old(g_exist_checks) + 1)
                                   : (!HAS(__CPROVER_return_value) && g_exist_checks == __CPROVER_old(g_exist_checks))))
  __CPROVER_ensures(HAS(self->has_memory_reclaim_) == HAS(__CPROVER_return_value))
  __CPROVER_ensures(ghost_exc == 0);
#define LOOPC_Senpai__hasMemoryReclaim_1 \
  __CPROVER_assigns(__begin3, self->has_memory_reclaim_, g_exist_checks) \
  __CPROVER_loop_invariant(__begin3.i <= __begin3.n && __end3.i == __begin3.n && __begin3.n == g_ctrls.val.n && __begin3.vid == g_ctrls.val.vid) \
  __CPROVER_loop_invariant(!HAS(self->has_memory_reclaim_) && g_exist_checks == __CPROVER_loop_entry(g_exist_checks) && (!g_has_mem || __begin3.i <= g_mi)) \
  __CPROVER_decreases(__begin3.n - __begin3.i)

/* ---- calculateSwappinessFactor: 0 when swap must not be used more, else min(1 - rate/threshold, 1 - util/threshold) ---- */
#define SWP_BPS ((g_sys.swapout_bps_60 < g_sys.swapout_bps_300) ? g_sys.swapout_bps_300 : g_sys.swapout_bps_60)
#define SWP_BY_RATE F_SUB_d(1.0, F_DIV_d(SWP_BPS, (double)self->swapout_bps_threshold_))
#define SWP_BY_SIZE F_SUB_d(1.0, F_DIV_d(g_swap_util.val, self->swap_threshold_))
maybe_double Senpai__calculateSwappinessFactor(Senpai *self, CgroupContext cgroup_ctx)
  __CPROVER_requires(__CPROVER_is_fresh(self, sizeof(*self)) && ghost_exc == 0)
  __CPROVER_requires(self->swap_threshold_ == self->swap_threshold_ && self->swapout_bps_threshold_ > 0 && g_sys.swapout_bps_60 >= 0.0 && g_sys.swapout_bps_300 >= 0.0 &&
                     (!HAS(g_swap_util) || g_swap_util.val >= 0.0))       /* ASSUMED: rates and utilisation are non-negative numbers, thresholds are not NaN */
  __CPROVER_assigns()
  __CPROVER_ensures((self->swap_threshold_ <= 0.0 || SWP_BPS >= (double)self->swapout_bps_threshold_)
      ? (__CPROVER_return_value.ok && __CPROVER_return_value.val == 0.0)
      : (!HAS(g_swap_util) ? !__CPROVER_return_value.ok
         : (__CPROVER_return_value.ok &&
            (g_swap_util.val >= self->swap_threshold_ ? __CPROVER_return_value.val == 0.0
               : __CPROVER_equal(__CPROVER_return_value.val, (SWP_BY_SIZE < SWP_BY_RATE) ? SWP_BY_SIZE : SWP_BY_RATE))))) /*@C18*/
  __CPROVER_ensures(ghost_exc == 0);

/* ---- initializeCgroup ---- */
Senpai_CgroupState Senpai_CgroupState__from__int64_t_dur_us_t_int64_t(int64_t start_limit, dur_us_t total, int64_t start_ticks)
{ Senpai_CgroupState s; s.limit = start_limit; s.last_total = total; s.cumulative.us = 0; s.ticks = start_ticks; s.probe_bytes = 0; s.probe_count = 0; return s; }   /* CgroupState constructor + default member initialisers (Senpai.h) */
opt_Senpai_CgroupState Senpai__initializeCgroup(Senpai *self, CgroupContext cgroup_ctx)
  __CPROVER_requires(__CPROVER_is_fresh(self, sizeof(*self)) && ghost_exc == 0 && cgroup_ctx == g_cg && g_high_writes < (1UL << 40))
  __CPROVER_assigns(g_high_writes, g_last_high_value, g_write_ret)
  /* (re)starting to track a cgroup writes its CURRENT USAGE as the limit, once; nothing in immediate-backoff mode */ /*@C18*/
  __CPROVER_ensures(self->immediate_backoff_ ? g_high_writes == __CPROVER_old(g_high_writes)
      : (HAS(g_usage) ? (g_high_writes == __CPROVER_old(g_high_writes) + 1 && g_last_high_value == g_usage.val) : g_high_writes == __CPROVER_old(g_high_writes)))
  __CPROVER_ensures(HAS(__CPROVER_return_value) ? (HAS(g_total) && (self->immediate_backoff_ || HAS(g_usage))) : 1)
  __CPROVER_ensures(HAS(__CPROVER_return_value)
      ? (__CPROVER_return_value.val.limit == (self->immediate_backoff_ ? 0 : g_usage.val) && __CPROVER_return_value.val.last_total.us == g_total.val.us &&
         __CPROVER_return_value.val.cumulative.us == 0 && __CPROVER_return_value.val.ticks == self->interval_ &&
         __CPROVER_return_value.val.probe_bytes == 0 && __CPROVER_return_value.val.probe_count == 0)
      : 1)
  __CPROVER_ensures((self->immediate_backoff_ && HAS(g_total)) ? HAS(__CPROVER_return_value) : 1)
  /* tracking starts iff everything needed was available AND the limit could be written */
  __CPROVER_ensures(!self->immediate_backoff_ ? (HAS(__CPROVER_return_value) == (HAS(g_usage) && g_write_ret && HAS(g_total))) : 1) /*@C18*/
  __CPROVER_ensures(ghost_exc == 0);

/* ---- tick_immediate_backoff ---- */
#define IB_ELIGIBLE (g_vp.ok && g_vp.val && (!self->swap_validation_ || (g_vs.ok && g_vs.val)))
#define IB_SIZE (F2I_i64(F_MUL_d((double)(g_usage.val - g_floor.val), self->max_probe_)) & ~(int64_t)0xFFF)
_Bool Senpai__tick_immediate_backoff(Senpai *self, CgroupContext cgroup_ctx, Senpai_CgroupState *state)
  __CPROVER_requires(__CPROVER_is_fresh(self, sizeof(*self)) && __CPROVER_is_fresh(state, sizeof(*state)) && ghost_exc == 0 && cgroup_ctx == g_cg)
  __CPROVER_requires(g_reclaims == 0 && g_swp_writes == 0 && g_high_writes == 0 && state->ticks >= 0 && state->probe_count < (1UL << 40) &&
                     (!HAS(g_usage) || (g_usage.val >= 0 && g_usage.val <= B56)) && (!HAS(g_floor) || (g_floor.val >= 0 && g_floor.val <= B56)) &&
                     BOOL01(self->swap_validation_) && BOOL01(self->modulate_swappiness_) && (!g_vp.ok || BOOL01(g_vp.val)) && (!g_vs.ok || BOOL01(g_vs.val)))
  __CPROVER_requires(self->swap_threshold_ == self->swap_threshold_ && self->swapout_bps_threshold_ > 0 && g_sys.swapout_bps_60 >= 0.0 && g_sys.swapout_bps_300 >= 0.0 &&
                     (!HAS(g_swap_util) || g_swap_util.val >= 0.0))
  __CPROVER_assigns(*state, g_reclaims, g_reclaim_size, g_reclaim_ret, g_swp_writes, g_swp_last)
  __CPROVER_ensures(BOOL01(__CPROVER_return_value) && g_high_writes == 0)
  /* while the interval counts down nothing is touched */ /*@C18*/
  __CPROVER_ensures(__CPROVER_old(state->ticks) != 0
      ? (__CPROVER_return_value && g_reclaims == 0 && g_swp_writes == 0 && state->ticks == __CPROVER_old(state->ticks) - 1 &&
         state->limit == __CPROVER_old(state->limit) && state->probe_count == __CPROVER_old(state->probe_count) && state->probe_bytes == __CPROVER_old(state->probe_bytes))
      : 1)
  /* at most one reclaim, only when pressure (and swap, if asked) validate and usage is above the floor;
     it asks for trunc_4K(max_probe x (usage - floor)) bytes */ /*@C18*/
  __CPROVER_ensures(g_reclaims <= 1)
  __CPROVER_ensures(g_reclaims == 1 ? (__CPROVER_old(state->ticks) == 0 && IB_ELIGIBLE && HAS(g_floor) && HAS(g_usage) && g_usage.val > g_floor.val && g_reclaim_size == IB_SIZE) : 1)
  /* and it does reclaim whenever all of that holds (unless the swappiness factor is unavailable) */
  __CPROVER_ensures((__CPROVER_old(state->ticks) == 0 && IB_ELIGIBLE && HAS(g_floor) && HAS(g_usage) && g_usage.val > g_floor.val && __CPROVER_return_value) ? g_reclaims == 1 : 1)
  /* an unavailable statistic drops the cgroup (false) without touching anything */ /*@C18,C10*/
  __CPROVER_ensures((__CPROVER_old(state->ticks) == 0 && (!g_vp.ok || (self->swap_validation_ && !g_vs.ok))) ? (!__CPROVER_return_value && g_reclaims == 0 && g_swp_writes == 0) : 1)
  /* vm.swappiness: only when modulation is on, only around a reclaim, and the last value written is the one read this tick */ /*@C18*/
  __CPROVER_ensures(!self->modulate_swappiness_ ? g_swp_writes == 0 : (g_swp_writes == 0 || (g_swp_writes == 2 && g_swp_last == g_sys.swappiness && g_reclaims == 1)))
  __CPROVER_ensures((self->modulate_swappiness_ && g_reclaims == 1) ? g_swp_writes == 2 : 1)
  /* a reclaim that fails (cgroup gone) drops the cgroup from tracking */ /*@C18*/
  __CPROVER_ensures(g_reclaims == 1 ? (__CPROVER_return_value != 0) == (g_reclaim_ret != 0) : 1)
  /* bookkeeping of a successful reclaim */
  __CPROVER_ensures((g_reclaims == 1 && __CPROVER_return_value)
      ? (state->probe_count == __CPROVER_old(state->probe_count) + 1 && state->probe_bytes == __CPROVER_old(state->probe_bytes) + S2U_u64(g_reclaim_size) && state->ticks == self->interval_)
      : 1)
  __CPROVER_ensures(ghost_exc == 0);

/* ---- adjust (closure of tick): the part of its contract tick relies on; full contract in unit senpai ---- */
uint64_t g_adjusts;
_Bool Senpai__tick__lambda_adjust(Senpai *self, CgroupContext cgroup_ctx, Senpai_CgroupState *state, double factor)
  __CPROVER_requires(__CPROVER_is_fresh(self, sizeof(*self)) && __CPROVER_is_fresh(state, sizeof(*state)) && cgroup_ctx == g_cg && ghost_exc == 0 && g_high_writes < (1UL << 40))
  __CPROVER_requires((!HAS(g_floor) || (g_floor.val >= 0 && g_floor.val <= B56)) && (!HAS(g_ceil) || g_ceil.val >= 0))
  __CPROVER_assigns(*state, g_high_writes, g_last_high_value, g_write_ret)
  __CPROVER_ensures(BOOL01(__CPROVER_return_value) && g_high_writes <= __CPROVER_old(g_high_writes) + 1 && g_high_writes >= __CPROVER_old(g_high_writes))
  __CPROVER_ensures(g_high_writes > __CPROVER_old(g_high_writes) ? (__CPROVER_return_value != 0) == (g_write_ret != 0) : 1)
  __CPROVER_ensures((HAS(g_floor) && HAS(g_ceil)) ? g_high_writes == __CPROVER_old(g_high_writes) + 1 : g_high_writes == __CPROVER_old(g_high_writes))
  __CPROVER_ensures(g_high_writes > __CPROVER_old(g_high_writes) ? (g_last_high_value == state->limit && (state->limit & 0xFFF) == 0 && state->cumulative.us == 0 && state->ticks == self->interval_)
                                                                 : (!__CPROVER_return_value && ST_EQ(*state, __CPROVER_old(*state))))
  __CPROVER_ensures(state->last_total.us == __CPROVER_old(state->last_total.us) && state->probe_count == __CPROVER_old(state->probe_count) && state->probe_bytes == __CPROVER_old(state->probe_bytes))
  __CPROVER_ensures(g_high_writes > __CPROVER_old(g_high_writes) ? state->limit >= 0 : 1)
  __CPROVER_ensures(ghost_exc == 0);

/* ---- tick ---- */
#define TK_SEEN (*(self->has_memory_high_tmp_.val ? &g_memhigh_tmp : &g_memhigh))     /* the file Senpai writes is the file it reads back */
_Bool Senpai__tick(Senpai *self, CgroupContext cgroup_ctx, Senpai_CgroupState *state)
  __CPROVER_requires(__CPROVER_is_fresh(self, sizeof(*self)) && __CPROVER_is_fresh(state, sizeof(*state)) && cgroup_ctx == g_cg && ghost_exc == 0 && g_high_writes == 0)
  __CPROVER_requires((!HAS(self->has_memory_high_tmp_) || BOOL01(self->has_memory_high_tmp_.val)) && self->pressure_ms_.ms > 0 && self->pressure_ms_.ms <= (1L << 40) &&
                     state->ticks >= 0 && state->probe_count < (1UL << 40) && state->cumulative.us >= 0 && state->cumulative.us <= (1L << 50) &&
                     state->last_total.us >= 0 && state->last_total.us <= (1L << 50) && (!HAS(g_total) || (g_total.val.us >= 0 && g_total.val.us <= (1L << 50))) &&
                     (!HAS(g_floor) || (g_floor.val >= 0 && g_floor.val <= B56)) && (!HAS(g_ceil) || g_ceil.val >= 0) &&
                     (!HAS(g_memhigh) || g_memhigh.val >= 0) && (!HAS(g_memhigh_tmp) || g_memhigh_tmp.val >= 0) && state->limit >= 0)
  __CPROVER_assigns(*state, self->has_memory_high_tmp_, g_tmp_reads, g_high_reads, g_high_writes, g_last_high_value, g_write_ret)
  __CPROVER_ensures(BOOL01(__CPROVER_return_value) && g_high_writes <= 1)
  /* the limit in force cannot be read: the cgroup is dropped, nothing written */ /*@C18,C10*/
  __CPROVER_ensures(!HAS(self->has_memory_high_tmp_) ? (!__CPROVER_return_value && g_high_writes == 0) : 1)
  /* whatever is written is either the cgroup's current usage (restart) or the adjusted, 4 KiB-aligned state->limit */ /*@C18*/
  __CPROVER_ensures(g_high_writes == 1 ? ((g_last_high_value == state->limit && (state->limit & 0xFFF) == 0) || (HAS(g_usage) && g_last_high_value == g_usage.val)) : 1)
  /* the limit in force is not the recorded one (someone else changed it, or the cgroup was re-created): the state is
     re-initialised from scratch - limit := current usage, written once - and nothing is adjusted from the stale state */ /*@C18*/
  __CPROVER_ensures((HAS(self->has_memory_high_tmp_) && HAS(TK_SEEN) && TK_SEEN.val != __CPROVER_old(state->limit))
      ? (__CPROVER_return_value
           ? (state->limit == (self->immediate_backoff_ ? 0 : g_usage.val) && (self->immediate_backoff_ || HAS(g_usage)) && HAS(g_total) && state->last_total.us == g_total.val.us &&
              state->cumulative.us == 0 && state->ticks == self->interval_ && state->probe_bytes == 0 && state->probe_count == 0 &&
              (self->immediate_backoff_ ? g_high_writes == 0 : (g_high_writes == 1 && g_last_high_value == g_usage.val)))
           : ST_EQ(*state, __CPROVER_old(*state)))
      : 1)
  /* the recorded limit is still in force: pressure total unavailable -> dropped, untouched; else the total is recorded */
  __CPROVER_ensures((HAS(self->has_memory_high_tmp_) && HAS(TK_SEEN) && TK_SEEN.val == __CPROVER_old(state->limit))
      ? (HAS(g_total) ? state->last_total.us == g_total.val.us : (!__CPROVER_return_value && g_high_writes == 0 && ST_EQ(*state, __CPROVER_old(*state))))
      : 1)
  __CPROVER_ensures((HAS(self->has_memory_high_tmp_) && !HAS(TK_SEEN)) ? (!__CPROVER_return_value && g_high_writes == 0) : 1)
  /* a limit that could not be written (adjusted or restarted) drops the cgroup from tracking */ /*@C18*/
  __CPROVER_ensures((g_high_writes == 1 && !g_write_ret) ? !__CPROVER_return_value : 1)
  __CPROVER_ensures((HAS(self->has_memory_high_tmp_) && HAS(TK_SEEN) && TK_SEEN.val == __CPROVER_old(state->limit) && HAS(g_total) && HAS(g_floor) && HAS(g_ceil) && (g_high_writes == 0 || g_write_ret)) ? __CPROVER_return_value : 1)
  __CPROVER_ensures(ghost_exc == 0);

#define HAVOC_ST() do { HAVOC(g_cg); HAVOC(g_floor); HAVOC(g_ceil); HAVOC(g_usage); HAVOC(g_memhigh); HAVOC(g_memhigh_tmp); HAVOC(g_vp); HAVOC(g_vs); HAVOC(g_total); \
  HAVOC(g_swap_util); HAVOC(g_sys); HAVOC(g_ctrls); HAVOC(g_has_mem); HAVOC(g_mi); HAVOC(g_reclaim_file); HAVOC(ghost_exc); HAVOC(g_last_high_value); HAVOC(g_reclaim_size); HAVOC(g_swp_last); HAVOC(g_write_ret); HAVOC(g_reclaim_ret); \
  g_high_writes = 0; g_reclaims = 0; g_swp_writes = 0; g_tmp_reads = 0; g_high_reads = 0; g_exist_checks = 0; g_adjusts = 0; } while (0)
#define CANARY __CPROVER_assert(0, "canary: contract precondition satisfiable and function exit reachable")
void h_hasMemoryHighTmp(void) { Senpai *s; CgroupContext c; HAVOC_ST(); Senpai__hasMemoryHighTmp(s, c); CANARY; }
void h_readMemhigh(void) { Senpai *s; CgroupContext c; HAVOC_ST(); Senpai__readMemhigh(s, c); CANARY; }
void h_hasMemoryReclaim(void) { Senpai *s; CgroupContext c; HAVOC_ST(); Senpai__hasMemoryReclaim(s, c); CANARY; }
void h_calculateSwappinessFactor(void) { Senpai *s; CgroupContext c; HAVOC_ST(); Senpai__calculateSwappinessFactor(s, c); CANARY; }
void h_initializeCgroup(void) { Senpai *s; CgroupContext c; HAVOC_ST(); Senpai__initializeCgroup(s, c); CANARY; }
void h_tick_immediate_backoff(void) { Senpai *s; CgroupContext c; Senpai_CgroupState *st; HAVOC_ST(); Senpai__tick_immediate_backoff(s, c, st); CANARY; }
void h_adjust_weak(void) { Senpai *s; CgroupContext c; Senpai_CgroupState *st; double f; HAVOC_ST(); Senpai__tick__lambda_adjust(s, c, st, f); CANARY; }
void h_tick(void) { Senpai *s; CgroupContext c; Senpai_CgroupState *st; HAVOC_ST(); Senpai__tick(s, c, st); CANARY; }
