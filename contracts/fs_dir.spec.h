/* Fs::readDirFromDIR (C15 "child directories ... with and without d_type support", C10 "directory entries carry no
 * type information"): every non-hidden entry is classified by what it IS (regular file / directory / something else),
 * whether the file system reports d_type or answers DT_UNKNOWN and lstat has to be asked.
 *
 * The directory is a ghost stream of entries; each has a true kind.  readdir reports d_type either truthfully or as
 * DT_UNKNOWN; fstatat reports the mode of the true kind (POSIX file type field).  Ledgers count what was offered and
 * what was pushed; a watched entry g_wi checks that the name lands in the right list. */
#include "common.h"
_Bool nondet_bool(void); int nondet_int(void); unsigned char nondet_uchar(void); str_t nondet_str(void); uint64_t nondet_u64(void);
#define SYS__DT_UNKNOWN 0
#define SYS__DT_DIR 4
#define SYS__DT_REG 8
enum { K_REG = 1, K_DIR = 2, K_LNK = 3, K_OTHER = 4 };
#define MODE_OF(k) ((k) == K_REG ? 0100644u : (k) == K_DIR ? 0040755u : (k) == K_LNK ? 0120777u : 0060660u)    /* S_IFREG / S_IFDIR / S_IFLNK / S_IFBLK */
uint64_t g_left, g_total;          /* entries still to come / in the directory */
uint64_t g_seen, g_reg, g_dir;     /* non-hidden entries offered so far, and how many of them are regular files / directories */
int g_cur_kind; _Bool g_cur_hidden; str_t g_cur_name; dirent_t g_ent; _Bool g_stat_fails;
uint64_t g_wi; str_t g_w_name; int g_w_kind; _Bool g_w_hidden;     /* the watched entry (by ordinal among all entries) */
uint64_t g_ord;
dirent_t *ext__readdir(DIR_t d)
{
  if (g_left == 0) return 0;
  g_left = g_left - 1;
  g_cur_kind = nondet_int(); __CPROVER_assume(g_cur_kind >= K_REG && g_cur_kind <= K_OTHER);
  g_cur_hidden = nondet_bool(); g_cur_name = nondet_str();
  if (g_ord == g_wi) { g_w_name = g_cur_name; g_w_kind = g_cur_kind; g_w_hidden = g_cur_hidden; }
  g_ord = g_ord + 1;
  if (!g_cur_hidden) { g_seen = g_seen + 1; if (g_cur_kind == K_REG) g_reg = g_reg + 1; if (g_cur_kind == K_DIR) g_dir = g_dir + 1; }
  g_ent.d_name = g_cur_name;
  /* d_type: the truth, or DT_UNKNOWN (file systems without d_type support) */
  g_ent.d_type = nondet_bool() ? SYS__DT_UNKNOWN : (g_cur_kind == K_REG ? SYS__DT_REG : g_cur_kind == K_DIR ? SYS__DT_DIR : (g_cur_kind == K_LNK ? 10 : 6));
  return &g_ent;
}
char str_t__char_at(str_t s, uint64_t i) { __CPROVER_assert(s == g_cur_name && i == 0, "first character of the current entry's name"); return g_cur_hidden ? '.' : 'x'; }
int ext__dirfd(DIR_t d) { return 3; }
int ext__fstatat(int fd, str_t name, stat_t *buf, int flags)
{ __CPROVER_assert(name == g_cur_name, "lstat of the current entry"); if (g_stat_fails && nondet_bool()) { ghost_errno = 2; return -1; } buf->st_mode = MODE_OF(g_cur_kind); return 0; }
/* the two result lists: pushes are counted, the watched name is looked for */
uint64_t g_files_pushed, g_dirs_pushed; _Bool g_w_in_files, g_w_in_dirs;
#define IS_FILES_LIST(v) (__CPROVER_POINTER_OFFSET(v) == __builtin_offsetof(Fs_DirEnts, files))
void vec_str_t__push_back(vec_str_t *v, str_t x)
{ __CPROVER_assume(v->n < VEC_MAX); v->n = v->n + 1;
  if (IS_FILES_LIST(v)) { g_files_pushed = g_files_pushed + 1; if (x == g_w_name && g_ord == g_wi + 1) g_w_in_files = 1; }
  else { g_dirs_pushed = g_dirs_pushed + 1; if (x == g_w_name && g_ord == g_wi + 1) g_w_in_dirs = 1; } }
#define WANT_F ((flags & Fs_DirEntFlags__DE_FILE) != 0)
#define WANT_D ((flags & Fs_DirEntFlags__DE_DIR) != 0)
#define LOOPC_Fs__readDirFromDIR_1 \
  __CPROVER_assigns(de, g_left, g_seen, g_reg, g_dir, g_cur_kind, g_cur_hidden, g_cur_name, g_ent, g_ord, g_w_name, g_w_kind, g_w_hidden, g_files_pushed, g_dirs_pushed, g_w_in_files, g_w_in_dirs, ghost_errno) \
  __CPROVER_loop_invariant(ghost_exc == 0 && de.files.n == g_files_pushed && de.dirs.n == g_dirs_pushed && g_files_pushed <= g_seen && g_dirs_pushed <= g_seen && g_seen <= g_ord && g_ord <= g_total && g_left <= g_total && g_ord + g_left == g_total && g_total < VEC_MAX && g_reg + g_dir <= g_seen) \
  /* everything offered so far is in the list of its kind, and only there */ \
  __CPROVER_loop_invariant(g_files_pushed == (WANT_F ? g_reg : 0) && g_dirs_pushed == (WANT_D ? g_dir : 0)) \
  __CPROVER_loop_invariant(g_ord <= g_wi || ((g_w_in_files != 0) == (WANT_F && !g_w_hidden && g_w_kind == K_REG) && (g_w_in_dirs != 0) == (WANT_D && !g_w_hidden && g_w_kind == K_DIR))) \
  __CPROVER_loop_invariant(g_ord > g_wi || (!g_w_in_files && !g_w_in_dirs)) \
  __CPROVER_decreases(g_left)
maybe_Fs_DirEnts Fs__readDirFromDIR(DIR_t d, int flags)
  __CPROVER_requires(ghost_exc == 0 && g_left < VEC_MAX && g_total == g_left && g_seen == 0 && g_reg == 0 && g_dir == 0 && g_ord == 0 && g_files_pushed == 0 && g_dirs_pushed == 0 && !g_w_in_files && !g_w_in_dirs)
  __CPROVER_assigns(g_left, g_seen, g_reg, g_dir, g_cur_kind, g_cur_hidden, g_cur_name, g_ent, g_ord, g_w_name, g_w_kind, g_w_hidden, g_files_pushed, g_dirs_pushed, g_w_in_files, g_w_in_dirs, ghost_errno)
  /* an lstat failure is the only error; otherwise the whole directory was read */
  __CPROVER_ensures(ghost_exc == 0 && (__CPROVER_return_value.ok || g_stat_fails) && (!__CPROVER_return_value.ok || g_left == 0))
  /* exact classification, with or without d_type */
  __CPROVER_ensures(!__CPROVER_return_value.ok || (__CPROVER_return_value.val.files.n == (WANT_F ? g_reg : 0) && __CPROVER_return_value.val.dirs.n == (WANT_D ? g_dir : 0))) /*@C15,C10*/
  __CPROVER_ensures(!__CPROVER_return_value.ok || g_wi >= g_ord ||
     ((g_w_in_files != 0) == (WANT_F && !g_w_hidden && g_w_kind == K_REG) && (g_w_in_dirs != 0) == (WANT_D && !g_w_hidden && g_w_kind == K_DIR))) /*@C15,C10*/;
#define CANARY __CPROVER_assert(0, "canary: contract precondition satisfiable and function exit reachable")
void h_readDirFromDIR(void) { DIR_t d; int f; HAVOC(ghost_exc); HAVOC(g_left); HAVOC(g_total); HAVOC(g_seen); HAVOC(g_reg); HAVOC(g_dir); HAVOC(g_ord); HAVOC(g_files_pushed); HAVOC(g_dirs_pushed); HAVOC(g_w_in_files); HAVOC(g_w_in_dirs);
  HAVOC(g_wi); HAVOC(g_stat_fails); HAVOC(g_w_name); HAVOC(g_w_kind); HAVOC(g_w_hidden); Fs__readDirFromDIR(d, f); CANARY; }
