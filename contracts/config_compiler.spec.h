/* Config2::compileDropIn (C13): a drop-in is compiled as a whole or not at all.  Each drop-in ruleset must name a
 * ruleset of the base config (else nullopt), every compile / merge failure gives nullopt, and a successful result
 * holds exactly one merged ruleset per drop-in ruleset and one hook per drop-in prekill hook.
 *
 * "for every drop-in ruleset" is carried by an arbitrary watched index g_k; "no base ruleset has that name"
 * (g_absent) is instantiated at every access to a base ruleset (all accesses go through the iterator stub). */
#include "common.h"
_Bool nondet_bool(void); int nondet_int(void);
static inline int fresh_handle(void) { int h = nondet_int(); __CPROVER_assume(h >= 1); return h; }
str_t __CPROVER_uninterpreted_rsname(uint64_t vid, uint64_t i);
uint64_t g_k, g_root_vid, g_dropin_vid; str_t g_name_k; _Bool g_absent, g_any_fail;
Config2_IR_Ruleset g_slot_d, g_slot_r;
Config2_IR_Ruleset *vecit_Config2_IR_Ruleset__ref(vecit_Config2_IR_Ruleset it)
{
  __CPROVER_assert(it.i < it.n, "UB: dereference of an end() iterator");
  Config2_IR_Ruleset *p = (it.vid == g_dropin_vid) ? &g_slot_d : &g_slot_r;
  Config2_IR_Ruleset fresh; *p = fresh;
  p->name = __CPROVER_uninterpreted_rsname(it.vid, it.i);
  __CPROVER_assume(p->dgs.n <= VEC_MAX && p->acts.n <= VEC_MAX);
  if (it.vid == g_root_vid && g_absent) __CPROVER_assume(p->name != g_name_k);
  return p;
}
Config2_IR_PrekillHook vecit_Config2_IR_PrekillHook__op_deref(vecit_Config2_IR_PrekillHook it)
{ __CPROVER_assert(it.i < it.n, "UB: dereference of an end() iterator"); return (Config2_IR_PrekillHook)fresh_handle(); }
/* ---- compileRuleset (file-local): a ruleset is rejected (nullptr) or built with exactly the configured numbers; it
 * never throws (C12: "rejected cleanly") ---- */
uint64_t __CPROVER_uninterpreted_strlen(str_t);
int __CPROVER_uninterpreted_stoi(str_t); int __CPROVER_uninterpreted_stoi_throws(str_t);
uint64_t str_t__size(str_t s) { return __CPROVER_uninterpreted_strlen(s); }
_Bool str_t__empty(str_t s) { return __CPROVER_uninterpreted_strlen(s) == 0; }
/* std::stoi: the value, or std::invalid_argument / std::out_of_range */
int ext__stoi(str_t s) { if (__CPROVER_uninterpreted_stoi_throws(s) != 0) ghost_exc = nondet_bool() ? EXC_invalid_argument : EXC_out_of_range; return __CPROVER_uninterpreted_stoi(s); }
#define NUM_OK(s) (__CPROVER_uninterpreted_stoi_throws(s) == 0 && __CPROVER_uninterpreted_stoi(s) >= 0)
void Util__trim(str_t s) { }
uint64_t g_parts_vid, g_bad_i; _Bool g_parts_bad;   /* whether some listed log source (the one at index g_bad_i) is neither "engine" nor "plugins" */
str_t __CPROVER_uninterpreted_part(uint64_t i);
vec_str_t Util__split(str_t s, char c) { vec_str_t v; v.vid = g_parts_vid; __CPROVER_assume(v.n <= VEC_MAX && (!g_parts_bad || g_bad_i < v.n)); return v; }
str_t vec_str_t__elem(uint64_t vid, uint64_t i) { str_t p = __CPROVER_uninterpreted_part(i); if (!g_parts_bad) __CPROVER_assume(p == STR_engine || p == STR_plugins); else if (i == g_bad_i) __CPROVER_assume(p != STR_engine && p != STR_plugins); return p; }
uint64_t g_sub_fails;                           /* ledger: detector groups / actions that failed to compile */
uptr_DetectorGroup ext__compileDetectorGroup(Config2_IR_DetectorGroup dg, PluginConstructionContext c) { if (nondet_bool()) { g_sub_fails = g_sub_fails + 1; return 0; } return (uptr_DetectorGroup)fresh_handle(); }
uptr_BasePlugin ext__compilePlugin(Config2_IR_Action a, PluginConstructionContext c) { if (nondet_bool()) { g_sub_fails = g_sub_fails + 1; return 0; } return (uptr_BasePlugin)fresh_handle(); }
Config2_IR_DetectorGroup vecit_Config2_IR_DetectorGroup__op_deref(vecit_Config2_IR_DetectorGroup it) { __CPROVER_assert(it.i < it.n, "UB: dereference of an end() iterator"); return (Config2_IR_DetectorGroup)fresh_handle(); }
Config2_IR_Action vecit_Config2_IR_Action__op_deref(vecit_Config2_IR_Action it) { __CPROVER_assert(it.i < it.n, "UB: dereference of an end() iterator"); return (Config2_IR_Action)fresh_handle(); }
_Bool Config2_IR_DropIn__get_disable_on_drop_in(Config2_IR_DropIn d) { return nondet_bool(); }
_Bool Config2_IR_DropIn__get_detectorgroups_enabled(Config2_IR_DropIn d) { return nondet_bool(); }
_Bool Config2_IR_DropIn__get_actiongroup_enabled(Config2_IR_DropIn d) { return nondet_bool(); }
str_t PluginConstructionContext__cgroupFs(PluginConstructionContext c) { str_t s; return s; }
/* the Ruleset constructor call: what it is built from */
int g_mk_delay, g_mk_timeout; uint32_t g_mk_silenced; uint64_t g_mk_ndg, g_mk_nact, g_mk_calls; str_t g_mk_name;
uptr_Ruleset ext__make_unique__uptr_Ruleset(str_t name, vec_uptr_DetectorGroup dgs, vec_uptr_BasePlugin acts, _Bool a, _Bool b, _Bool c, uint32_t silenced, int delay, int timeout, str_t xattr, str_t fs, str_t cg)
{ g_mk_calls = g_mk_calls + 1; g_mk_name = name; g_mk_ndg = dgs.n; g_mk_nact = acts.n; g_mk_silenced = silenced; g_mk_delay = delay; g_mk_timeout = timeout; return (uptr_Ruleset)fresh_handle(); }
#define LOOPC_ext__compileRuleset_1 \
  __CPROVER_assigns(__begin2, silenced_logs) \
  __CPROVER_loop_invariant(__begin2.vid == parts.vid && __end2.vid == parts.vid && __begin2.n == parts.n && __end2.n == parts.n && __end2.i == parts.n && __begin2.i <= parts.n) \
  __CPROVER_loop_invariant((silenced_logs & ~(uint32_t)3) == 0 && ghost_exc == 0 && (!g_parts_bad || __begin2.i <= g_bad_i)) \
  __CPROVER_decreases(parts.n - __begin2.i)
#define LOOPC_ext__compileRuleset_2 \
  __CPROVER_assigns(__begin1, detector_groups, g_sub_fails) \
  __CPROVER_loop_invariant(IT_SHAPE(__begin1, __end1, ruleset.dgs) && detector_groups.n == __begin1.i && g_sub_fails == __CPROVER_loop_entry(g_sub_fails) && ghost_exc == 0) \
  __CPROVER_decreases(ruleset.dgs.n - __begin1.i)
#define LOOPC_ext__compileRuleset_3 \
  __CPROVER_assigns(__begin1, actions, g_sub_fails) \
  __CPROVER_loop_invariant(IT_SHAPE(__begin1, __end1, ruleset.acts) && actions.n == __begin1.i && detector_groups.n == ruleset.dgs.n && g_sub_fails == __CPROVER_loop_entry(g_sub_fails) && ghost_exc == 0) \
  __CPROVER_decreases(ruleset.acts.n - __begin1.i)
#define RS_DELAY_OK(r) (__CPROVER_uninterpreted_strlen((r).post_action_delay) == 0 || NUM_OK((r).post_action_delay))
#define RS_TIMEOUT_OK(r) (__CPROVER_uninterpreted_strlen((r).prekill_hook_timeout) == 0 || NUM_OK((r).prekill_hook_timeout))
#define RS_STATIC_OK(r, dropin) (__CPROVER_uninterpreted_strlen((r).name) != 0 && (__CPROVER_uninterpreted_strlen((r).silence_logs) == 0 || !g_parts_bad) && \
                                 ((dropin) || ((r).dgs.n != 0 && (r).acts.n != 0)) && RS_DELAY_OK(r) && RS_TIMEOUT_OK(r))
#define CONTRACT_compileRuleset \
  __CPROVER_requires(ghost_exc == 0 && ruleset.dgs.n <= VEC_MAX && ruleset.acts.n <= VEC_MAX) \
  __CPROVER_assigns(ghost_exc, ghost_exc_caught, g_sub_fails, g_mk_calls, g_mk_name, g_mk_ndg, g_mk_nact, g_mk_silenced, g_mk_delay, g_mk_timeout) \
  /* rejected cleanly: never an exception, whatever the strings hold */ \
  __CPROVER_ensures(ghost_exc == 0) /*@C12*/ \
  /* rejected iff something is wrong with it */ \
  __CPROVER_ensures((__CPROVER_return_value != 0) == (RS_STATIC_OK(ruleset, dropin) && g_sub_fails == __CPROVER_old(g_sub_fails))) /*@C12*/ \
  /* honoured exactly: the ruleset is built from every group and action, with the configured numbers (defaults 15 s / 5 s) */ \
  __CPROVER_ensures(__CPROVER_return_value == 0 || (g_mk_calls == __CPROVER_old(g_mk_calls) + 1 && g_mk_name == ruleset.name && g_mk_ndg == ruleset.dgs.n && g_mk_nact == ruleset.acts.n && \
      g_mk_delay == (__CPROVER_uninterpreted_strlen(ruleset.post_action_delay) == 0 ? 15 : __CPROVER_uninterpreted_stoi(ruleset.post_action_delay)) && \
      g_mk_timeout == (__CPROVER_uninterpreted_strlen(ruleset.prekill_hook_timeout) == 0 ? 5 : __CPROVER_uninterpreted_stoi(ruleset.prekill_hook_timeout)) && \
      (g_mk_silenced & ~(uint32_t)3) == 0)) /*@C12*/
uptr_Ruleset ext__compileRuleset(Config2_IR_Ruleset ruleset, _Bool dropin, PluginConstructionContext context) CONTRACT_compileRuleset;
/* boundary: compilePrekillHook (plugin construction; may fail) and Ruleset::mergeWithDropIn */
uptr_PrekillHook ext__compilePrekillHook(Config2_IR_PrekillHook h, PluginConstructionContext c) { if (nondet_bool()) { g_any_fail = 1; return 0; } return (uptr_PrekillHook)fresh_handle(); }
_Bool Ruleset__mergeWithDropIn(Ruleset r, uptr_Ruleset d) { if (nondet_bool()) { g_any_fail = 1; return 0; } return 1; }

#define CR_GHOSTS ghost_exc, ghost_exc_caught, g_sub_fails, g_mk_calls, g_mk_name, g_mk_ndg, g_mk_nact, g_mk_silenced, g_mk_delay, g_mk_timeout
#define IT_SHAPE(b, e, v) ((b).vid == (v).vid && (e).vid == (v).vid && (b).n == (v).n && (e).n == (v).n && (e).i == (v).n && (b).i <= (v).n)
#define LOOPC_Config2__compileDropIn_1 \
  __CPROVER_assigns(__begin2, ret.rulesets, g_slot_d, g_slot_r, g_any_fail, CR_GHOSTS) \
  __CPROVER_loop_invariant(IT_SHAPE(__begin2, __end2, dropin.rulesets) && ret.rulesets.n == __begin2.i && ret.prekill_hooks.n == 0 && !g_any_fail && ghost_exc == 0 && g_sub_fails == __CPROVER_loop_entry(g_sub_fails)) \
  /* the watched drop-in ruleset cannot be passed if the base config lacks its name */ \
  __CPROVER_loop_invariant(!(g_absent && g_k < __begin2.i)) \
  __CPROVER_decreases(dropin.rulesets.n - __begin2.i)
#define LOOPC_Config2__compileDropIn_2 \
  __CPROVER_assigns(__begin3, g_slot_r, g_any_fail, CR_GHOSTS) \
  __CPROVER_loop_invariant(IT_SHAPE(__begin3, __end3, root.rulesets) && !found_target && ret.rulesets.n == __begin2.i && !g_any_fail && ghost_exc == 0 && g_sub_fails == __CPROVER_loop_entry(g_sub_fails)) \
  __CPROVER_decreases(root.rulesets.n - __begin3.i)
#define LOOPC_Config2__compileDropIn_3 \
  __CPROVER_assigns(__begin2, ret.prekill_hooks, g_any_fail) \
  __CPROVER_loop_invariant(IT_SHAPE(__begin2, __end2, dropin.prekill_hooks) && ret.prekill_hooks.n == __begin2.i && ret.rulesets.n == dropin.rulesets.n && !g_any_fail && ghost_exc == 0) \
  __CPROVER_decreases(dropin.prekill_hooks.n - __begin2.i)
opt_DropInUnit Config2__compileDropIn(Config2_IR_Root root, Config2_IR_Root dropin, PluginConstructionContext context)
  __CPROVER_requires(root.rulesets.vid == g_root_vid && dropin.rulesets.vid == g_dropin_vid && g_root_vid != g_dropin_vid && ghost_exc == 0 && !g_any_fail)
  __CPROVER_requires(root.rulesets.n <= VEC_MAX && dropin.rulesets.n <= VEC_MAX && dropin.prekill_hooks.n <= VEC_MAX)
  __CPROVER_requires(g_name_k == __CPROVER_uninterpreted_rsname(g_dropin_vid, g_k))
  __CPROVER_assigns(g_slot_d, g_slot_r, g_any_fail, CR_GHOSTS)
  /* a drop-in naming a ruleset the base config does not have is rejected as a whole */
  __CPROVER_ensures(!(g_absent && g_k < dropin.rulesets.n) || !__CPROVER_return_value.has) /*@C13*/
  /* any plugin-construction or merge failure rejects the whole drop-in */
  __CPROVER_ensures(!g_any_fail || !__CPROVER_return_value.has) /*@C13,C12*/
  /* ... and so does a detector group or action of the target or of the drop-in ruleset that does not compile */
  __CPROVER_ensures(g_sub_fails == __CPROVER_old(g_sub_fails) || !__CPROVER_return_value.has) /*@C13,C12*/
  /* success: one merged ruleset per drop-in ruleset, one hook per drop-in hook */
  __CPROVER_ensures(!__CPROVER_return_value.has || (__CPROVER_return_value.val.rulesets.n == dropin.rulesets.n && __CPROVER_return_value.val.prekill_hooks.n == dropin.prekill_hooks.n)) /*@C13*/
  __CPROVER_ensures(ghost_exc == 0);
#define CANARY __CPROVER_assert(0, "canary: contract precondition satisfiable and function exit reachable")
void h_compileRuleset(void) { Config2_IR_Ruleset r; _Bool d; PluginConstructionContext c; HAVOC(ghost_exc); HAVOC(g_sub_fails); HAVOC(g_mk_calls); HAVOC(g_parts_vid); HAVOC(g_parts_bad); HAVOC(g_bad_i); ext__compileRuleset(r, d, c); CANARY; }
void h_compileDropIn(void) { Config2_IR_Root r, d; PluginConstructionContext c; HAVOC(g_k); HAVOC(g_root_vid); HAVOC(g_dropin_vid); HAVOC(g_name_k); HAVOC(g_absent); HAVOC(g_any_fail); HAVOC(ghost_exc);
  Config2__compileDropIn(r, d, c); CANARY; }
