/* Config2::compileDropIn (C13): a drop-in is compiled as a whole or not at all.  Each drop-in ruleset must name a
 * ruleset of the base config (else nullopt), every compile / merge failure gives nullopt, and a successful result
 * holds exactly one merged ruleset per drop-in ruleset and one hook per drop-in prekill hook.
 *
 * "for every drop-in ruleset" is carried by an arbitrary watched index g_k; "no base ruleset has that name"
 * (g_absent) is instantiated at every access to a base ruleset (all accesses go through the iterator stub). */
#include "common.h"
_Bool nondet_bool(void); int nondet_int(void);
static inline int fresh_handle(void) { int h = nondet_int(); __CPROVER_assume(h >= 1); return h; }
str_t __CPROVER_uninterpreted_rsname(uint64_t vid, uint64_t i);
uint64_t g_k, g_root_vid, g_dropin_vid; str_t g_name_k; _Bool g_absent, g_any_fail;
Config2_IR_Ruleset g_slot_d, g_slot_r;
Config2_IR_Ruleset *vecit_Config2_IR_Ruleset__ref(vecit_Config2_IR_Ruleset it)
{
  __CPROVER_assert(it.i < it.n, "UB: dereference of an end() iterator");
  Config2_IR_Ruleset *p = (it.vid == g_dropin_vid) ? &g_slot_d : &g_slot_r;
  Config2_IR_Ruleset fresh; *p = fresh;
  p->name = __CPROVER_uninterpreted_rsname(it.vid, it.i);
  if (it.vid == g_root_vid && g_absent) __CPROVER_assume(p->name != g_name_k);
  return p;
}
Config2_IR_PrekillHook vecit_Config2_IR_PrekillHook__op_deref(vecit_Config2_IR_PrekillHook it)
{ __CPROVER_assert(it.i < it.n, "UB: dereference of an end() iterator"); return (Config2_IR_PrekillHook)fresh_handle(); }
/* boundary: the anonymous-namespace compilers (plugin construction; may fail) and Ruleset::mergeWithDropIn */
uptr_Ruleset ext__compileRuleset(Config2_IR_Ruleset rs, _Bool dropin, PluginConstructionContext c) { if (nondet_bool()) { g_any_fail = 1; return 0; } return (uptr_Ruleset)fresh_handle(); }
uptr_PrekillHook ext__compilePrekillHook(Config2_IR_PrekillHook h, PluginConstructionContext c) { if (nondet_bool()) { g_any_fail = 1; return 0; } return (uptr_PrekillHook)fresh_handle(); }
_Bool Ruleset__mergeWithDropIn(Ruleset r, uptr_Ruleset d) { if (nondet_bool()) { g_any_fail = 1; return 0; } return 1; }

#define IT_SHAPE(b, e, v) ((b).vid == (v).vid && (e).vid == (v).vid && (b).n == (v).n && (e).n == (v).n && (e).i == (v).n && (b).i <= (v).n)
#define LOOPC_Config2__compileDropIn_1 \
  __CPROVER_assigns(__begin2, ret.rulesets, g_slot_d, g_slot_r, g_any_fail) \
  __CPROVER_loop_invariant(IT_SHAPE(__begin2, __end2, dropin.rulesets) && ret.rulesets.n == __begin2.i && ret.prekill_hooks.n == 0 && !g_any_fail && ghost_exc == 0) \
  /* the watched drop-in ruleset cannot be passed if the base config lacks its name */ \
  __CPROVER_loop_invariant(!(g_absent && g_k < __begin2.i)) \
  __CPROVER_decreases(dropin.rulesets.n - __begin2.i)
#define LOOPC_Config2__compileDropIn_2 \
  __CPROVER_assigns(__begin3, g_slot_r, g_any_fail) \
  __CPROVER_loop_invariant(IT_SHAPE(__begin3, __end3, root.rulesets) && !found_target && ret.rulesets.n == __begin2.i && !g_any_fail && ghost_exc == 0) \
  __CPROVER_decreases(root.rulesets.n - __begin3.i)
#define LOOPC_Config2__compileDropIn_3 \
  __CPROVER_assigns(__begin2, ret.prekill_hooks, g_any_fail) \
  __CPROVER_loop_invariant(IT_SHAPE(__begin2, __end2, dropin.prekill_hooks) && ret.prekill_hooks.n == __begin2.i && ret.rulesets.n == dropin.rulesets.n && !g_any_fail && ghost_exc == 0) \
  __CPROVER_decreases(dropin.prekill_hooks.n - __begin2.i)
opt_DropInUnit Config2__compileDropIn(Config2_IR_Root root, Config2_IR_Root dropin, PluginConstructionContext context)
  __CPROVER_requires(root.rulesets.vid == g_root_vid && dropin.rulesets.vid == g_dropin_vid && g_root_vid != g_dropin_vid && ghost_exc == 0 && !g_any_fail)
  __CPROVER_requires(root.rulesets.n <= VEC_MAX && dropin.rulesets.n <= VEC_MAX && dropin.prekill_hooks.n <= VEC_MAX)
  __CPROVER_requires(g_name_k == __CPROVER_uninterpreted_rsname(g_dropin_vid, g_k))
  __CPROVER_assigns(g_slot_d, g_slot_r, g_any_fail)
  /* a drop-in naming a ruleset the base config does not have is rejected as a whole */
  __CPROVER_ensures(!(g_absent && g_k < dropin.rulesets.n) || !__CPROVER_return_value.has) /*@C13*/
  /* any plugin-construction or merge failure rejects the whole drop-in */
  __CPROVER_ensures(!g_any_fail || !__CPROVER_return_value.has) /*@C13,C12*/
  /* success: one merged ruleset per drop-in ruleset, one hook per drop-in hook */
  __CPROVER_ensures(!__CPROVER_return_value.has || (__CPROVER_return_value.val.rulesets.n == dropin.rulesets.n && __CPROVER_return_value.val.prekill_hooks.n == dropin.prekill_hooks.n)) /*@C13*/
  __CPROVER_ensures(ghost_exc == 0);
#define CANARY __CPROVER_assert(0, "canary: contract precondition satisfiable and function exit reachable")
void h_compileDropIn(void) { Config2_IR_Root r, d; PluginConstructionContext c; HAVOC(g_k); HAVOC(g_root_vid); HAVOC(g_dropin_vid); HAVOC(g_name_k); HAVOC(g_absent); HAVOC(g_any_fail); HAVOC(ghost_exc);
  Config2__compileDropIn(r, d, c); CANARY; }
