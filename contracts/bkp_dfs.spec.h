/* Contracts for victim selection in BaseKillPlugin (C01 victim containment, C03 order, C04 dry,
 * C05 plugin delay, C06 DEFER->ASYNC_PAUSED, C07 prekill hooks, C17 accounting / return value):
 *   run, tryToKillSomething, resumeTryingToKillSomething, resumeFromPrekillHook,
 *   tryToLogAndKillCgroup, pastPrekillHookTimeout (+ the (de)serialisation lambdas, inlined).
 *
 * The DFS stack (vector<KillCandidate>) is abstract: emplace_back ASSERTS the element invariant
 * (candidate is ALLOWED, pushed in the order that puts the best-ranked sibling on top), back() returns
 * an arbitrary element ASSUMED to satisfy it (LIFO semantics of std::vector: library contract).
 * Facts about a cgroup are uninterpreted functions of its handle (same answer every time).
 */
#include "bkp_common.h"
CgroupPath __CPROVER_uninterpreted_path(CgroupContext);
uint64_t __CPROVER_uninterpreted_id(CgroupContext);
_Bool __CPROVER_uninterpreted_has_id(CgroupContext);
_Bool __CPROVER_uninterpreted_oomgroup(CgroupContext);
_Bool __CPROVER_uninterpreted_populated(CgroupContext);
_Bool __CPROVER_uninterpreted_has_children(CgroupContext);
uint64_t __CPROVER_uninterpreted_rank(CgroupContext);
#define PATH(c) __CPROVER_uninterpreted_path(c)
#define ID(c) __CPROVER_uninterpreted_id(c)
#define HAS_ID(c) __CPROVER_uninterpreted_has_id(c)
#define OOMGROUP(c) __CPROVER_uninterpreted_oomgroup(c)      /* memory.oom.group == 1 */
#define POPULATED(c) __CPROVER_uninterpreted_populated(c)    /* cgroup.events populated (unknown counts as populated) */
#define HAS_CHILDREN(c) __CPROVER_uninterpreted_has_children(c)
#define RANK(c) __CPROVER_uninterpreted_rank(c)              /* position in the ranked sibling list it came from (0 = best) */
/* whether a cgroup may be attacked depends on WHICH cgroup it is: its path and inode id */
_Bool __CPROVER_uninterpreted_allowed_pi(CgroupPath, _Bool, uint64_t);
#undef ALLOWED
#define ALLOWED_PI(p, h, i) __CPROVER_uninterpreted_allowed_pi((p), (h) != 0, (h) ? (i) : 0)
#define ALLOWED(c) ALLOWED_PI(PATH(c), HAS_ID(c), ID(c))
#define SREF_ALLOWED(r) ALLOWED_PI((r).path, (r).id.has, (r).id.val)
/* same path and same inode id = the same cgroup (kernel-unique inode numbers: ASSUMED) */
#define SAME_CGROUP(a, b) (PATH(a) == PATH(b) && HAS_ID(a) && HAS_ID(b) && ID(a) == ID(b))

BaseKillPlugin *g_self;
_Bool g_dfs_mode;   /* set by the DFS harnesses: candidates come straight from the ranking walk */
uint64_t g_vec_n0;
_Bool g_first_target_set; CgroupContext g_first_target;   /* the first victim attacked in this call of run() */
uint64_t g_attempts;               /* calls of tryToKillCgroup (= victims attempted) */
uint64_t g_successes;              /* attempts that signalled something */
CgroupContext g_last_target; int g_last_nr; _Bool g_last_ok;
str_t g_attempt_uuid, g_passed_uuid; _Bool g_passed_dry;
uint64_t g_kills_stat, g_kmsg_records, g_dumps; int g_dump_nr; _Bool g_dump_dry;
int64_t g_live_inv;                /* live PrekillHookInvocation objects owned by this plugin */
_Bool g_inv_in_state;              /* ... of which one is owned by prekillHookState_ */
uint64_t g_hooks_fired; CgroupContext g_hook_fired_for; CgroupPath g_hook_path; _Bool g_hook_has_id; uint64_t g_hook_id;   /* identity of the cgroup the hook was fired for */
_Bool g_past_timeout;              /* answer of the most recent pastPrekillHookTimeout() */
uint64_t g_pause_calls; int64_t g_pause_secs; Ruleset g_pause_on;
opt_Ruleset g_invoking;
ActionContext g_actx;
maybe_int nondet_maybe_int(void); opt__Bool nondet_opt_bool(void); vec_CgroupContext nondet_vec_cg(void); CgroupContext nondet_cg(void);
opt_uptr_PrekillHookInvocation nondet_opt_inv(void); opt_CgroupContext nondet_opt_cg(void); opt_uint64_t nondet_opt_u64(void);
BaseKillPlugin_KillCandidate nondet_kc(void); uint64_t nondet_u64(void);

/* ---- context / cgroup facts ---- */
ActionContext *OomdContext__getActionContext(OomdContext c) { return &g_actx; }
opt_Ruleset OomdContext__getInvokingRuleset(OomdContext c) { return g_invoking; }
CgroupPath CgroupContext__cgroup(CgroupContext cg) { return PATH(cg); }
str_t CgroupPath__relativePath(CgroupPath p) { return (str_t)p; }
opt_uint64_t CgroupContext__id(CgroupContext cg) { opt_uint64_t r; r.has = HAS_ID(cg); r.val = ID(cg); return r; }
opt__Bool CgroupContext__oom_group(CgroupContext cg) { opt__Bool r = nondet_opt_bool(); __CPROVER_assume((r.has ? (r.val != 0) : 0) == OOMGROUP(cg)); return r; }
opt__Bool CgroupContext__is_populated(CgroupContext cg) { opt__Bool r = nondet_opt_bool(); __CPROVER_assume((r.has ? (r.val != 0) : 1) == POPULATED(cg)); return r; }
opt_ResourcePressure nondet_opt_rp(void);
opt_ResourcePressure CgroupContext__mem_pressure(CgroupContext cg) { return nondet_opt_rp(); }
void OomdContext__dump__vec_CgroupContext__Bool(vec_CgroupContext v, _Bool skip) { }
void BaseKillPlugin__ologKillTarget(BaseKillPlugin *self, OomdContext c, CgroupContext t, vec_CgroupContext peers) { }
str_t BaseKillPlugin__generateKillUuid(BaseKillPlugin *self) { str_t u = nondet_str(); g_attempt_uuid = u; return u; }
void incrementStat(str_t key, int d) { __CPROVER_assert(key == STR_oomd_kills && d == 1, "only oomd.kills is bumped, by one"); g_kills_stat = g_kills_stat + 1; }
void OOMD_KMSG_LOG__str_t_str_t(log_t text, str_t tag) { __CPROVER_assert(tag == STR_oomd_kill, "the structured record is tagged 'oomd kill'"); g_kmsg_records = g_kmsg_records + 1; }
void BaseKillPlugin__dumpKillInfo(BaseKillPlugin *self, opt_BaseKillPlugin_KillCandidate c, ActionContext a, str_t uuid, int nr, _Bool dry, opt_str_t err, BaseKillPlugin_KillCgroupStats st)
{ g_dumps = g_dumps + 1; g_dump_nr = nr; g_dump_dry = dry; }
void Ruleset__pause_actions(Ruleset r, dur_s_t d) { g_pause_calls = g_pause_calls + 1; g_pause_secs = d.s; g_pause_on = r; }

/* ---- the kill itself (virtual; its own contract is proved in unit bkp_kill) ---- */
maybe_int BaseKillPlugin__tryToKillCgroup(BaseKillPlugin *self, CgroupContext target, str_t uuid, _Bool dry, BaseKillPlugin_KillCgroupStats *st)
{
  __CPROVER_assert(g_live_inv == 0, "no prekill-hook invocation object is alive when the victim is signalled"); /*@C07*/
  __CPROVER_assert(g_successes == 0, "no further victim is attacked after one from which a process was signalled"); /*@C01,C03*/
  g_attempts = g_attempts + 1; g_last_target = target; g_passed_uuid = uuid; g_passed_dry = dry;
  if (!g_first_target_set) { g_first_target_set = 1; g_first_target = target; }
  maybe_int r = nondet_maybe_int();
  __CPROVER_assume(!r.ok || (r.val >= 0 && r.val <= KILL_BUDGET));
  if (dry) { r.ok = 1; r.val = 1; }
  g_last_ok = r.ok; g_last_nr = r.ok ? r.val : 0;
  if (g_last_nr > 0) g_successes = g_successes + 1;
  return r;
}
str_t exc_t__what(exc_t e) { return nondet_str(); }

/* ---- tryToLogAndKillCgroup: one attempt on one victim, with its accounting ---- */
#define CONTRACT_tryToLogAndKillCgroup \
  /* the DFS never attacks an unpopulated cgroup, nor a cgroup it should have descended into instead */ /*@C03*/ \
  __CPROVER_requires(!g_dfs_mode || (POPULATED(candidate.cgroupCtx) && \
                     !(g_self->recursive_ && !OOMGROUP(candidate.cgroupCtx) && HAS_CHILDREN(candidate.cgroupCtx)))) \
  __CPROVER_requires(self == g_self && g_live_inv == 0 && g_successes == 0 && ghost_exc == 0) \
  __CPROVER_assigns(g_attempts, g_successes, g_last_target, g_last_nr, g_last_ok, g_attempt_uuid, g_passed_uuid, g_passed_dry, g_kills_stat, \
                    g_kmsg_records, g_dumps, g_dump_nr, g_dump_dry, g_first_target_set, g_first_target) \
  __CPROVER_ensures(g_first_target_set && (__CPROVER_old(g_first_target_set) ? g_first_target == __CPROVER_old(g_first_target) : g_first_target == candidate.cgroupCtx)) \
  /* exactly one attempt, on the candidate's cgroup, with this attempt's fresh uuid and the plugin's dry flag */ /*@C01,C04,C17*/ \
  __CPROVER_ensures(g_attempts == __CPROVER_old(g_attempts) + 1 && g_last_target == candidate.cgroupCtx && g_passed_uuid == g_attempt_uuid && \
                    (g_passed_dry != 0) == (self->dry_ != 0)) \
  /* STOP-worthy iff a process was signalled (dry: iff a victim was selected) */ /*@C17,C04*/ \
  __CPROVER_ensures((__CPROVER_return_value != 0) == (g_last_nr > 0) && (__CPROVER_return_value == 0 || __CPROVER_return_value == 1)) \
  __CPROVER_ensures(g_successes == ((g_last_nr > 0) ? 1 : 0)) \
  /* oomd.kills +1 exactly for a wet attempt that signalled something; kmsg record exactly when something was signalled (wet or dry) */ /*@C17,C04*/ \
  __CPROVER_ensures(g_kills_stat == __CPROVER_old(g_kills_stat) + ((g_last_nr > 0 && !self->dry_) ? 1 : 0)) \
  __CPROVER_ensures(g_kmsg_records == __CPROVER_old(g_kmsg_records) + ((g_last_nr > 0) ? 1 : 0)) \
  __CPROVER_ensures(g_dumps == __CPROVER_old(g_dumps) + 1 && g_dump_nr == g_last_nr && (g_dump_dry != 0) == (self->dry_ != 0)) \
  __CPROVER_ensures(ghost_exc == 0)
_Bool BaseKillPlugin__tryToLogAndKillCgroup(BaseKillPlugin *self, OomdContext ctx, BaseKillPlugin_KillCandidate candidate)
  __CPROVER_requires(__CPROVER_is_fresh(self, sizeof(*self))) __CPROVER_requires(ALLOWED(candidate.cgroupCtx)) CONTRACT_tryToLogAndKillCgroup;

/* ---- pastPrekillHookTimeout: the window closes strictly after the deadline fixed when the chain fired ---- */
_Bool BaseKillPlugin__pastPrekillHookTimeout(BaseKillPlugin *self, OomdContext ctx)
  __CPROVER_requires(TP_VALID(g_last_now) && ghost_exc == 0)
  __CPROVER_assigns(g_last_now)
  __CPROVER_ensures((__CPROVER_return_value != 0) == (g_actx.prekill_hook_timeout_ts.has && TP_LT(g_actx.prekill_hook_timeout_ts.val, g_last_now))) /*@C07*/
  __CPROVER_ensures(TP_VALID(g_last_now) && TP_LE(__CPROVER_old(g_last_now), g_last_now) && ghost_exc == 0);

/* ---- abstract DFS stack ---- */
uint64_t g_batch_left;             /* pushes still expected in the current sibling batch (rank of the next push) */
CgroupContext g_batch_root; _Bool g_batch_is_children; BaseKillPlugin_KillCandidate g_cur_kc;
uint64_t g_pushes;
/* order ledger for rebuilding the saved DFS stack after a prekill hook (resumeFromPrekillHook): for TWO arbitrary watched
   indices g_wa < g_wb of the serialised stack: whether each is on the rebuilt stack and at which position; g_ser_i is the
   serialised element being processed.  Candidates may be dropped (a vanished one ends the fallback below it), but the ones
   kept stay IN THE SAME ORDER, so the best-ranked remaining candidate is still on top and fallback continues in rank order. */
_Bool g_rfh_mode, g_a_set, g_b_set; uint64_t g_wa, g_wb, g_pos_a, g_pos_b, g_ser_i;
#define RFH_ORDER_OK(n) ((!g_a_set || g_pos_a < (n)) && (!g_b_set || g_pos_b < (n)) && (!(g_a_set && g_b_set) || g_pos_a < g_pos_b))
#define KC_OK(k) (ALLOWED((k).cgroupCtx))
void vec_BaseKillPlugin_KillCandidate__emplace_back(vec_BaseKillPlugin_KillCandidate *v, BaseKillPlugin_KillCandidate k)
{
  __CPROVER_assert(KC_OK(k), "every kill candidate is a matched cgroup or (recursive) a descendant of one"); /*@C01*/
  if (g_dfs_mode)
  {
    __CPROVER_assert(g_batch_left > 0 && RANK(k.cgroupCtx) == g_batch_left - 1,
                     "siblings are pushed worst-ranked first, so that the best-ranked is tried first and the next-best on failure"); /*@C03*/
    __CPROVER_assert(!g_batch_is_children || k.killRoot == g_batch_root, "a child candidate keeps the kill root of the candidate it descends from");
    g_batch_left = g_batch_left - 1;
  }
  if (g_rfh_mode && g_ser_i == g_wa) { g_a_set = 1; g_pos_a = v->n; }      /* order ledger of resumeFromPrekillHook */
  if (g_rfh_mode && g_ser_i == g_wb) { g_b_set = 1; g_pos_b = v->n; }
  __CPROVER_assume(v->n < VEC_MAX);
  v->n = v->n + 1; g_pushes = g_pushes + 1;
}
/* insertion at an arbitrary position (not used at the pinned commit): same element invariant, the ledger positions shift */
vecit_BaseKillPlugin_KillCandidate vec_BaseKillPlugin_KillCandidate__insert(vec_BaseKillPlugin_KillCandidate *v, vecit_BaseKillPlugin_KillCandidate pos, BaseKillPlugin_KillCandidate k)
{
  __CPROVER_assert(KC_OK(k), "every kill candidate is a matched cgroup or (recursive) a descendant of one"); /*@C01*/
  __CPROVER_assert(!g_dfs_mode, "rank-order ledger of the DFS walk only models emplace_back");
  __CPROVER_assert(pos.i <= v->n, "UB: insert() with an invalid iterator");
  if (g_rfh_mode)
  {
    if (g_a_set && g_pos_a >= pos.i) g_pos_a = g_pos_a + 1;
    if (g_b_set && g_pos_b >= pos.i) g_pos_b = g_pos_b + 1;
    if (g_ser_i == g_wa) { g_a_set = 1; g_pos_a = pos.i; }
    if (g_ser_i == g_wb) { g_b_set = 1; g_pos_b = pos.i; }
  }
  __CPROVER_assume(v->n < VEC_MAX);
  v->n = v->n + 1; g_pushes = g_pushes + 1;
  return pos;
}
void vec_BaseKillPlugin_KillCandidate__clear(vec_BaseKillPlugin_KillCandidate *v)
{ v->n = 0; if (g_rfh_mode) { g_a_set = 0; g_b_set = 0; } }
/* every candidate taken off the stack that can be attacked IS attacked: a populated cgroup that is not descended into (no
   recursive targeting, or memory.oom.group=1, or no children) gets exactly one kill attempt - or its prekill hook is waited for -
   before the next candidate is looked at (C03: "falls back to the next-best candidate ... until one kill succeeds or candidates
   run out"; nothing is passed over silently) */
_Bool g_pending; uint64_t g_pend_att;
#define ATTACKABLE(c) (POPULATED(c) && !(g_self->recursive_ && !OOMGROUP(c) && HAS_CHILDREN(c)))
#define PENDING_SERVED (!g_pending || g_attempts == g_pend_att + 1)
BaseKillPlugin_KillCandidate vec_BaseKillPlugin_KillCandidate__back(vec_BaseKillPlugin_KillCandidate v)
{
  __CPROVER_assert(v.n > 0, "UB: vector::back() on empty vector");
  __CPROVER_assert(PENDING_SERVED, "the previous candidate could be attacked but was passed over"); /*@C03,C01*/
  BaseKillPlugin_KillCandidate k = nondet_kc();
  __CPROVER_assume(KC_OK(k) && k.peers.n <= VEC_MAX);     /* container abstraction: some element that was pushed */
  g_cur_kc = k;
  g_pending = ATTACKABLE(k.cgroupCtx); g_pend_att = g_attempts;
  return k;
}
BaseKillPlugin_KillCandidate g_kc_slot;
BaseKillPlugin_KillCandidate *vecit_BaseKillPlugin_KillCandidate__ref(vecit_BaseKillPlugin_KillCandidate it)
{ __CPROVER_assert(it.i < it.n, "UB: vector iterator dereferenced at or past end()"); g_kc_slot = nondet_kc(); __CPROVER_assume(KC_OK(g_kc_slot)); return &g_kc_slot; }

/* ranking (virtual): a reordered subset of its input; RANK = position in the result */
uint64_t g_rank_vid, g_rank_n; _Bool g_rank_reversed, g_rank_allowed;
vec_CgroupContext BaseKillPlugin__rankForKilling(BaseKillPlugin *self, OomdContext c, vec_CgroupContext in)
{
  vec_CgroupContext r = nondet_vec_cg();
  __CPROVER_assume(r.n <= in.n && r.n <= VEC_MAX);
  g_rank_vid = r.vid; g_rank_n = r.n; g_rank_reversed = 0;
  return r;
}
void ext__reverse(vecit_CgroupContext first, vecit_CgroupContext last)
{
  __CPROVER_assert(first.vid == g_rank_vid && first.i == 0 && last.i == g_rank_n, "the whole ranked list is reversed");
  g_rank_reversed = !g_rank_reversed;
  g_batch_left = g_rank_n;
}
CgroupContext vec_CgroupContext__elem(uint64_t vid, uint64_t i)
{
  CgroupContext h = nondet_cg();
  if (vid == g_rank_vid)
  {
    __CPROVER_assume(RANK(h) == (g_rank_reversed ? g_rank_n - 1 - i : i));
    __CPROVER_assume(!g_rank_allowed || ALLOWED(h));    /* ranking returns a subset of its (allowed) input */
  }
  return h;
}
vec_CgroupContext OomdContext__addChildrenToCacheAndGet(OomdContext c, CgroupContext parent)
{
  __CPROVER_assert(g_self->recursive_ && !OOMGROUP(parent), "oomd only descends with recursive targeting, and never below memory.oom.group=1"); /*@C03*/
  vec_CgroupContext r = nondet_vec_cg();
  __CPROVER_assume(r.n <= VEC_MAX && (r.n > 0) == HAS_CHILDREN(parent));
  __CPROVER_assert(parent == g_cur_kc.cgroupCtx, "children are listed for the candidate just popped");
  g_rank_allowed = ALLOWED(parent);     /* children of an allowed cgroup are allowed when recursive */
  g_batch_root = g_cur_kc.killRoot; g_batch_is_children = 1;
  return r;
}

/* ---- prekill hooks ---- */
opt_uptr_PrekillHookInvocation OomdContext__firePrekillHook(OomdContext c, CgroupContext cg)
{
  __CPROVER_assert(!(g_actx.prekill_hook_timeout_ts.has && TP_LT(g_actx.prekill_hook_timeout_ts.val, g_last_now)),
                   "no hook is fired once the prekill_hook_timeout window (counted from when the chain fired) is over"); /*@C07*/
  __CPROVER_assert(g_live_inv == 0, "a kill action never has two hook invocations outstanding"); /*@C07*/
  opt_uptr_PrekillHookInvocation r = nondet_opt_inv();
  if (r.has) { __CPROVER_assume(r.val != 0); g_live_inv = g_live_inv + 1; }
  g_hooks_fired = g_hooks_fired + 1; g_hook_fired_for = cg; g_hook_path = PATH(cg); g_hook_has_id = HAS_ID(cg); g_hook_id = ID(cg);
  return r;
}
_Bool PrekillHookInvocation__didFinish(PrekillHookInvocation i) { return nondet_bool(); }
void dtor_opt_uptr_PrekillHookInvocation(opt_uptr_PrekillHookInvocation *p)
{ if (p->has && !g_inv_in_state) g_live_inv = g_live_inv - 1; }    /* destructor of the local, unless ownership moved into prekillHookState_ */
void opt_BaseKillPlugin_ActivePrekillHook__op_assign__BaseKillPlugin_ActivePrekillHook(opt_BaseKillPlugin_ActivePrekillHook *o, BaseKillPlugin_ActivePrekillHook v)
{ o->has = 1; o->val = v; g_inv_in_state = 1; }                    /* std::move(*hookInvocation): the state now owns the invocation */
void opt_BaseKillPlugin_ActivePrekillHook__op_assign__nullopt_t(opt_BaseKillPlugin_ActivePrekillHook *o, nullopt_t n)
{ if (o->has && g_inv_in_state) { g_live_inv = g_live_inv - 1; g_inv_in_state = 0; } o->has = 0; }   /* destroys the owned invocation */
vec_BaseKillPlugin_SerializedCgroupRef BaseKillPlugin__resumeTryingToKillSomething__lambda_serializePeerGroup(vec_CgroupContext p)
{ vec_BaseKillPlugin_SerializedCgroupRef r; r.n = p.n; return r; }   /* opaque (logging only) */
vec_CgroupContext BaseKillPlugin__resumeFromPrekillHook__lambda_deserializePeerGroup(vec_BaseKillPlugin_SerializedCgroupRef p)
{ vec_CgroupContext r = nondet_vec_cg(); __CPROVER_assume(r.n <= p.n && r.n <= VEC_MAX); return r; }   /* opaque (logging only) */
void vec_BaseKillPlugin_SerializedKillCandidate__emplace_back(vec_BaseKillPlugin_SerializedKillCandidate *v, BaseKillPlugin_SerializedKillCandidate k)
{ __CPROVER_assert(SREF_ALLOWED(k.target), "the saved fallback candidates are the allowed ones still on the stack"); /*@C01*/
  __CPROVER_assume(v->n < VEC_MAX); v->n = v->n + 1; }
opt_CgroupContext OomdContext__addToCacheAndGet__CgroupPath(OomdContext c, CgroupPath p)
{ opt_CgroupContext r = nondet_opt_cg(); if (r.has) __CPROVER_assume(PATH(r.val) == p); return r; }   /* whatever cgroup is at that path NOW */
BaseKillPlugin_SerializedKillCandidate g_skc_slot;
BaseKillPlugin_SerializedKillCandidate nondet_skc(void);
BaseKillPlugin_SerializedKillCandidate *vecit_BaseKillPlugin_SerializedKillCandidate__ref(vecit_BaseKillPlugin_SerializedKillCandidate it)
{ __CPROVER_assert(it.i < it.n, "UB: vector iterator dereferenced at or past end()"); g_ser_i = it.i; g_skc_slot = nondet_skc();
  __CPROVER_assume(SREF_ALLOWED(g_skc_slot.target)); return &g_skc_slot; }   /* container abstraction: serialised from an ALLOWED candidate */

/* ---- resumeTryingToKillSomething ---- */
#define KILLRESULT_OK(r) ((r) == BaseKillPlugin_KillResult__SUCCESS || (r) == BaseKillPlugin_KillResult__FAILED || (r) == BaseKillPlugin_KillResult__DEFER)
#define DFS_ASSIGNS self->prekillHookState_, g_attempts, g_successes, g_last_target, g_last_nr, g_last_ok, g_attempt_uuid, g_passed_uuid, g_passed_dry, \
  g_kills_stat, g_kmsg_records, g_dumps, g_dump_nr, g_dump_dry, g_live_inv, g_inv_in_state, g_hooks_fired, g_hook_fired_for, g_hook_path, g_hook_has_id, g_hook_id, g_past_timeout, \
  g_batch_left, g_batch_root, g_batch_is_children, g_cur_kc, g_pushes, g_rank_vid, g_rank_n, g_rank_reversed, g_rank_allowed, g_kc_slot, g_last_now, g_cur, g_skc_slot, g_first_target_set, g_first_target, g_ser_i, g_a_set, g_pos_a, g_b_set, g_pos_b, g_pending, g_pend_att
CgroupContext g_cur;
_Bool BaseKillPlugin__pastPrekillHookTimeout__stub_note;
#define CONTRACT_resumeTrying \
  __CPROVER_requires(self == g_self && !self->prekillHookState_.has && g_live_inv == 0 && !g_inv_in_state && g_successes == 0 && ghost_exc == 0 && \
                     nextBestOptionStack.n <= VEC_MAX && TP_VALID(g_last_now) && !g_pending && g_attempts <= (1UL << 40)) \
  /* called from resumeFromPrekillHook: the stack handed over is the saved one, order preserved */ /*@C03*/ \
  __CPROVER_requires(!g_rfh_mode || RFH_ORDER_OK(nextBestOptionStack.n)) \
  __CPROVER_assigns(DFS_ASSIGNS) \
  __CPROVER_ensures(KILLRESULT_OK(__CPROVER_return_value)) \
  /* the last candidate looked at was attacked too (or its hook is being waited for) */ /*@C03,C01*/ \
  __CPROVER_ensures(PENDING_SERVED || self->prekillHookState_.has) \
  /* SUCCESS iff the last attempt signalled something; nothing is attacked after it */ /*@C01,C03,C17*/ \
  __CPROVER_ensures((__CPROVER_return_value == BaseKillPlugin_KillResult__SUCCESS) == (g_successes == 1) && g_successes <= 1) \
  /* DEFER iff a fired hook is still running: it is stored, it is the only live invocation, and the stored victim IS the cgroup the hook was fired for */ /*@C06,C07,C01*/ \
  __CPROVER_ensures(__CPROVER_old(g_first_target_set) ? (g_first_target_set && g_first_target == __CPROVER_old(g_first_target)) : 1) \
  __CPROVER_ensures((__CPROVER_return_value == BaseKillPlugin_KillResult__DEFER) == (self->prekillHookState_.has != 0)) \
  __CPROVER_ensures(self->prekillHookState_.has ? (g_live_inv == 1 && g_inv_in_state && \
        SREF_ALLOWED(self->prekillHookState_.val.intendedVictim.target) && \
        self->prekillHookState_.val.intendedVictim.target.path == g_hook_path && \
        (self->prekillHookState_.val.intendedVictim.target.id.has != 0) == (g_hook_has_id != 0) && \
        (!g_hook_has_id || self->prekillHookState_.val.intendedVictim.target.id.val == g_hook_id)) \
      : (g_live_inv == 0 && !g_inv_in_state)) \
  __CPROVER_ensures(ghost_exc == 0)
BaseKillPlugin_KillResult BaseKillPlugin__resumeTryingToKillSomething(BaseKillPlugin *self, OomdContext ctx, vec_BaseKillPlugin_KillCandidate nextBestOptionStack, _Bool hasTriedToKillSomethingAlready)
  __CPROVER_requires(__CPROVER_is_fresh(self, sizeof(*self))) CONTRACT_resumeTrying;

#define LOOPC_BaseKillPlugin__resumeTryingToKillSomething_1 \
  __CPROVER_assigns(nextBestOptionStack, firstKillCandidate, hasTriedToKillSomethingAlready, DFS_ASSIGNS) \
  __CPROVER_loop_invariant(nextBestOptionStack.n <= VEC_MAX && !self->prekillHookState_.has && g_live_inv == 0 && !g_inv_in_state && g_successes == 0) \
  __CPROVER_loop_invariant(__CPROVER_loop_entry(g_first_target_set) ? (g_first_target_set && g_first_target == __CPROVER_loop_entry(g_first_target)) : 1) \
  __CPROVER_loop_invariant(TP_VALID(g_last_now) && PENDING_SERVED)
#define LOOPC_BaseKillPlugin__resumeTryingToKillSomething_2 \
  __CPROVER_assigns(__begin4, nextBestOptionStack, g_batch_left, g_pushes) \
  __CPROVER_loop_invariant(__begin4.i <= __begin4.n && __end4.i == __begin4.n && __begin4.n == g_rank_n && __begin4.vid == g_rank_vid && \
                           g_batch_left == g_rank_n - __begin4.i && nextBestOptionStack.n <= VEC_MAX) \
  __CPROVER_decreases(__begin4.n - __begin4.i)
#define LOOPC_BaseKillPlugin__resumeTryingToKillSomething_3 \
  __CPROVER_assigns(__begin4, self->prekillHookState_.val.nextBestOptionStack, g_kc_slot) \
  __CPROVER_loop_invariant(__begin4.i <= __begin4.n && __end4.i == __begin4.n && self->prekillHookState_.has && g_live_inv == 1 && g_inv_in_state && \
        self->prekillHookState_.val.nextBestOptionStack.n <= VEC_MAX && \
        self->prekillHookState_.val.intendedVictim.target.path == g_hook_path && \
        (self->prekillHookState_.val.intendedVictim.target.id.has != 0) == (g_hook_has_id != 0) && \
        (!g_hook_has_id || self->prekillHookState_.val.intendedVictim.target.id.val == g_hook_id)) \
  __CPROVER_decreases(__begin4.n - __begin4.i)


/* ---- tryToKillSomething: rank the matched cgroups, then walk ---- */
#define CONTRACT_tryToKillSomething \
  __CPROVER_requires(self == g_self && !self->prekillHookState_.has && g_live_inv == 0 && !g_inv_in_state && g_successes == 0 && ghost_exc == 0 && \
                     initialCgroups.n <= VEC_MAX && TP_VALID(g_last_now) && g_rank_allowed && !g_batch_is_children && !g_pending && g_attempts <= (1UL << 40)) \
  __CPROVER_assigns(DFS_ASSIGNS) \
  __CPROVER_ensures(KILLRESULT_OK(__CPROVER_return_value)) \
  __CPROVER_ensures((__CPROVER_return_value == BaseKillPlugin_KillResult__SUCCESS) == (g_successes == 1) && g_successes <= 1) \
  __CPROVER_ensures((__CPROVER_return_value == BaseKillPlugin_KillResult__DEFER) == (self->prekillHookState_.has != 0)) \
  __CPROVER_ensures(self->prekillHookState_.has ? (g_live_inv == 1 && g_inv_in_state) : (g_live_inv == 0 && !g_inv_in_state)) \
  __CPROVER_ensures(ghost_exc == 0)
BaseKillPlugin_KillResult BaseKillPlugin__tryToKillSomething(BaseKillPlugin *self, OomdContext ctx, vec_CgroupContext initialCgroups)
  __CPROVER_requires(__CPROVER_is_fresh(self, sizeof(*self))) CONTRACT_tryToKillSomething;
#define LOOPC_BaseKillPlugin__tryToKillSomething_1 \
  __CPROVER_assigns(__begin1, nextBestOptionStack, g_batch_left, g_pushes) \
  __CPROVER_loop_invariant(__begin1.i <= __begin1.n && __end1.i == __begin1.n && __begin1.n == g_rank_n && __begin1.vid == g_rank_vid && \
                           g_batch_left == g_rank_n - __begin1.i && nextBestOptionStack.n == __begin1.i) \
  __CPROVER_decreases(__begin1.n - __begin1.i)

/* ---- resumeFromPrekillHook ---- */
_Bool g_entry_finished, g_entry_past;   /* what the hook / the clock said when run() resumed */
#define CONTRACT_resumeFromPrekillHook \
  __CPROVER_requires(self == g_self && self->prekillHookState_.has && g_live_inv == 1 && g_inv_in_state && g_successes == 0 && ghost_exc == 0 && \
                     self->prekillHookState_.val.hookInvocation != 0 && self->prekillHookState_.val.nextBestOptionStack.n <= VEC_MAX && \
                     SREF_ALLOWED(self->prekillHookState_.val.intendedVictim.target) && /* state invariant: serialised from ALLOWED candidates */ \
                     TP_VALID(g_last_now) && g_attempts == 0 && !g_dfs_mode) \
  __CPROVER_requires(!g_rfh_mode || (g_wa < g_wb && !g_a_set && !g_b_set)) \
  __CPROVER_assigns(DFS_ASSIGNS) \
  __CPROVER_ensures(KILLRESULT_OK(__CPROVER_return_value)) \
  __CPROVER_ensures((__CPROVER_return_value == BaseKillPlugin_KillResult__SUCCESS) == (g_successes == 1) && g_successes <= 1) \
  __CPROVER_ensures((__CPROVER_return_value == BaseKillPlugin_KillResult__DEFER) == (self->prekillHookState_.has != 0)) \
  __CPROVER_ensures(self->prekillHookState_.has ? (g_live_inv == 1 && g_inv_in_state) : (g_live_inv == 0 && !g_inv_in_state)) \
  __CPROVER_ensures(ghost_exc == 0)
BaseKillPlugin_KillResult BaseKillPlugin__resumeFromPrekillHook(BaseKillPlugin *self, OomdContext ctx)
  __CPROVER_requires(__CPROVER_is_fresh(self, sizeof(*self))) CONTRACT_resumeFromPrekillHook
  /* the first victim attacked after the wait is the very cgroup the hook was fired for: same path AND same inode id
     (a removed or re-created cgroup is never killed) */ /*@C07,C01*/
  __CPROVER_ensures(g_first_target_set ? (PATH(g_first_target) == __CPROVER_old(self->prekillHookState_.val.intendedVictim.target.path) &&
        __CPROVER_old(self->prekillHookState_.val.intendedVictim.target.id.has) && HAS_ID(g_first_target) &&
        ID(g_first_target) == __CPROVER_old(self->prekillHookState_.val.intendedVictim.target.id.val)) : 1);
#define LOOPC_BaseKillPlugin__resumeFromPrekillHook_1 \
  __CPROVER_assigns(__begin1, nextBestOptionStack, g_skc_slot, g_batch_left, g_pushes, g_ser_i, g_a_set, g_pos_a, g_b_set, g_pos_b) \
  __CPROVER_loop_invariant(__begin1.i <= __begin1.n && __end1.i == __begin1.n && nextBestOptionStack.n <= VEC_MAX) \
  __CPROVER_loop_invariant(!g_rfh_mode || (RFH_ORDER_OK(nextBestOptionStack.n) && (!g_a_set || __begin1.i > g_wa) && (!g_b_set || __begin1.i > g_wb))) /*@C03*/ \
  __CPROVER_decreases(__begin1.n - __begin1.i)

/* ---- run ---- */
PluginRet BaseKillPlugin__run(BaseKillPlugin *self, OomdContext ctx)
  __CPROVER_requires(__CPROVER_is_fresh(self, sizeof(*self)) && self == g_self && g_successes == 0 && ghost_exc == 0 && TP_VALID(g_last_now) && g_pause_calls == 0)
  __CPROVER_requires(self->prekillHookState_.has ? (g_live_inv == 1 && g_inv_in_state && self->prekillHookState_.val.hookInvocation != 0 &&
                                                    SREF_ALLOWED(self->prekillHookState_.val.intendedVictim.target) &&
                                                    self->prekillHookState_.val.nextBestOptionStack.n <= VEC_MAX) : (g_live_inv == 0 && !g_inv_in_state))
  __CPROVER_requires(g_attempts == 0 && !g_dfs_mode)
  __CPROVER_requires(!self->postActionDelay_.has || self->postActionDelay_.val >= 0)
  __CPROVER_assigns(DFS_ASSIGNS, g_pause_calls, g_pause_secs, g_pause_on, g_vec_n0)
  /* ASYNC_PAUSED only while a prekill hook is outstanding; otherwise STOP iff something was signalled and !always_continue */ /*@C06,C07,C17*/
  __CPROVER_ensures((__CPROVER_return_value == PluginRet__ASYNC_PAUSED) == (self->prekillHookState_.has != 0))
  __CPROVER_ensures(!self->prekillHookState_.has ? (__CPROVER_return_value == ((g_successes == 1 && !self->alwaysContinue_) ? PluginRet__STOP : PluginRet__CONTINUE)) : 1)
  /* on STOP the action's own post_action_delay overrides the ruleset's, through the invoking ruleset */ /*@C05*/
  __CPROVER_ensures((__CPROVER_return_value == PluginRet__STOP && self->postActionDelay_.has && g_invoking.has)
        ? (g_pause_calls == 1 && g_pause_secs == self->postActionDelay_.val && g_pause_on == g_invoking.val) : g_pause_calls == 0)
  __CPROVER_ensures(self->prekillHookState_.has ? (g_live_inv == 1 && g_inv_in_state) : (g_live_inv == 0 && !g_inv_in_state))
  __CPROVER_ensures(ghost_exc == 0);
vec_CgroupContext OomdContext__addToCacheAndGet__uset_CgroupPath(OomdContext c, uset_CgroupPath set)
{ vec_CgroupContext v = nondet_vec_cg(); __CPROVER_assume(v.n <= VEC_MAX); g_vec_n0 = v.n; g_rank_allowed = 1; g_batch_is_children = 0; return v; }   /* the matched cgroups: ALLOWED by definition */

#define HAVOC_DFS() do { g_rfh_mode = 0; g_pending = 0; HAVOC(g_attempts); HAVOC(g_successes); HAVOC(g_last_target); HAVOC(g_last_nr); HAVOC(g_kills_stat); HAVOC(g_kmsg_records); \
  HAVOC(g_dumps); HAVOC(g_live_inv); HAVOC(g_inv_in_state); HAVOC(g_hooks_fired); HAVOC(g_hook_fired_for); HAVOC(g_batch_left); HAVOC(g_batch_root); \
  HAVOC(g_batch_is_children); HAVOC(g_rank_vid); HAVOC(g_rank_n); HAVOC(g_rank_reversed); HAVOC(g_rank_allowed); HAVOC(g_last_now); HAVOC(g_actx); \
  HAVOC(g_invoking); HAVOC(g_pause_calls); HAVOC(ghost_exc); HAVOC(g_first_target_set); } while (0)
#define CANARY __CPROVER_assert(0, "canary: contract precondition satisfiable and function exit reachable")
void h_tryToLogAndKillCgroup(void) { BaseKillPlugin *self; OomdContext c; BaseKillPlugin_KillCandidate k; HAVOC_DFS(); g_self = self; g_dfs_mode = 0; BaseKillPlugin__tryToLogAndKillCgroup(self, c, k); CANARY; }
void h_pastPrekillHookTimeout(void) { BaseKillPlugin *self; OomdContext c; HAVOC_DFS(); BaseKillPlugin__pastPrekillHookTimeout(self, c); CANARY; }
void h_resumeTryingToKillSomething(void) { BaseKillPlugin *self; OomdContext c; vec_BaseKillPlugin_KillCandidate st; _Bool tried; HAVOC_DFS(); g_self = self; g_dfs_mode = 1; BaseKillPlugin__resumeTryingToKillSomething(self, c, st, tried); CANARY; }
void h_tryToKillSomething(void) { BaseKillPlugin *self; OomdContext c; vec_CgroupContext init; HAVOC_DFS(); g_self = self; g_dfs_mode = 1; BaseKillPlugin__tryToKillSomething(self, c, init); CANARY; }
void h_resumeFromPrekillHook(void) { BaseKillPlugin *self; OomdContext c; HAVOC_DFS(); HAVOC(g_wa); HAVOC(g_wb); HAVOC(g_ser_i); HAVOC(g_pos_a); HAVOC(g_pos_b); g_a_set = 0; g_b_set = 0; g_rfh_mode = 1; g_self = self; g_dfs_mode = 0; g_first_target_set = 0; BaseKillPlugin__resumeFromPrekillHook(self, c); CANARY; }
void h_run(void) { BaseKillPlugin *self; OomdContext c; HAVOC_DFS(); g_self = self; g_dfs_mode = 0; BaseKillPlugin__run(self, c); CANARY; }
