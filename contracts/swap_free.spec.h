/* Contracts for SwapFree::run (C08: swap_free)
 *   CONTINUE <=> (swaptotal - swapused) < swaptotal * threshold_pct / 100  &&  swapout_bps >= swapout_bps_threshold
 * (same integer term as documented; requires 0 <= pct <= 100 and swaptotal <= 2^56 so the product is exact)
 */
#include "common.h"
SystemContext g_sys;
SystemContext *OomdContext__getSystemContext(OomdContext c) { return &g_sys; }

PluginRet SwapFree__run(SwapFree *self, OomdContext ctx)
  __CPROVER_requires(__CPROVER_is_fresh(self, sizeof(*self)) && ghost_exc == 0)
  __CPROVER_requires(self->threshold_pct_ >= 0 && self->threshold_pct_ <= 100 && g_sys.swaptotal <= (1UL << 56) && g_sys.swapused <= g_sys.swaptotal)
  __CPROVER_assigns()
  __CPROVER_ensures((__CPROVER_return_value == PluginRet__CONTINUE) ==
      ((g_sys.swaptotal - g_sys.swapused) < I_DIV_u64(I_MUL_u64(g_sys.swaptotal, (uint64_t)self->threshold_pct_), (uint64_t)100) &&
       g_sys.swapout_bps >= (double)self->swapout_bps_threshold_))
  __CPROVER_ensures(__CPROVER_return_value == PluginRet__CONTINUE || __CPROVER_return_value == PluginRet__STOP)
  __CPROVER_ensures(ghost_exc == 0);

void h_SwapFree__run(void)
{
  SwapFree *self; OomdContext ctx;
  HAVOC(g_sys); HAVOC(ghost_exc);
  SwapFree__run(self, ctx);
  __CPROVER_assert(0, "canary: contract precondition satisfiable and function exit reachable");
}

/* ================= init(): the arguments this plugin declares (C12) ================= */
#include "init_common.h"
DEF_PARSE(PluginArgParser)
DEF_ADDARG(int, int)
void PluginArgParser__addArgument__str_t_int64_t__Bool(PluginArgParser p, str_t name, int64_t *dest, _Bool required) { REG(name, dest, required, 0); }
int SwapFree__init(SwapFree *self, umap_str_t_str_t args, PluginConstructionContext ctx)
  __CPROVER_requires(__CPROVER_is_fresh(self, sizeof(*self)) && ghost_exc == 0 && g_reg_n == 0 && g_parse_calls == 0)
  __CPROVER_assigns(REG_ASSIGNS)
  __CPROVER_ensures(INIT_CORE(2)) /*@C12*/
  __CPROVER_ensures(HASREG(STR_threshold_pct, &self->threshold_pct_, 1) && HASREG(STR_swapout_bps_threshold, &self->swapout_bps_threshold_, 0)) /*@C12,C08*/
  __CPROVER_ensures(ghost_exc == 0);
void h_SwapFree__init(void) { SwapFree *self; umap_str_t_str_t a; PluginConstructionContext c; HAVOC_REG(); HAVOC(ghost_exc); SwapFree__init(self, a, c); __CPROVER_assert(0, "canary: contract precondition satisfiable and function exit reachable"); }
