/* Contracts for PressureAbove::run (property C08: pressure_above)
 *
 * Top-level postcondition (from docs/core_plugins.md + the property text):
 *   watched = pressure of the cgroup under the most pressure (weight 3*avg10+2*avg60+avg300,
 *             missing pressure counts as zero, first maximum in enumeration order)
 *   run start  r' = (watched.sec_10 > threshold) ? (r if a run is open else now) : none
 *   CONTINUE  <=> watched.sec_10 > threshold  &&  floor_sec(now - r') >= duration
 * History meta-argument: r' is the time of the first sample of the current maximal run of
 * consecutive exceeding samples (induction over ticks on the recurrence above; base case =
 * field initialiser hit_thres_at_{} = "no run open", checked in h_PressureAbove_init).
 */
#include "common.h"

#define RP_W(p) F_ADD_f(F_ADD_f(F_MUL_f((p).sec_10, 3.0f), F_MUL_f((p).sec_60, 2.0f)), (p).sec_300)
#define RP_EQ(a, b) (__CPROVER_equal((a).sec_10, (b).sec_10) && __CPROVER_equal((a).sec_60, (b).sec_60) && __CPROVER_equal((a).sec_300, (b).sec_300))
#define RP_FINITE(p) (FINITE_F((p).sec_10) && FINITE_F((p).sec_60) && FINITE_F((p).sec_300))
#define RP_ZERO(p) (__CPROVER_equal((p).sec_10, 0.0f) && __CPROVER_equal((p).sec_60, 0.0f) && __CPROVER_equal((p).sec_300, 0.0f))

/* ghost: running "most pressured so far" per resource, and call counts */
ResourcePressure g_best_mem, g_best_io;
uint64_t g_calls_mem, g_calls_io, g_calls_usage, g_elems;
CgroupContext g_cur_elem;
uint64_t g_vec_n;

/* ---- boundary stubs (ASSUMED models; bodies are ghost code, results nondeterministic) ---- */
vec_CgroupContext nondet_vec_CgroupContext(void);
CgroupContext nondet_CgroupContext(void);
opt_ResourcePressure nondet_opt_ResourcePressure(void);
opt_int64_t nondet_opt_int64_t(void);

vec_CgroupContext OomdContext__addToCacheAndGet__uset_CgroupPath(OomdContext ctx, uset_CgroupPath cgroups)
{
  vec_CgroupContext v = nondet_vec_CgroupContext();
  __CPROVER_assume(v.n <= VEC_MAX);
  g_vec_n = v.n;
  return v;
}

CgroupContext vec_CgroupContext__elem(uint64_t vid, uint64_t i)
{
  CgroupContext c = nondet_CgroupContext();
  g_cur_elem = c;
  g_elems = g_elems + 1;
  return c;
}

static inline ResourcePressure rp_zero(void) { ResourcePressure z; z.sec_10 = 0.0f; z.sec_60 = 0.0f; z.sec_300 = 0.0f; z.total.has = 0; return z; }

opt_ResourcePressure CgroupContext__mem_pressure(CgroupContext cg)
{
  __CPROVER_assert(cg == g_cur_elem, "pressure is read from the cgroup being iterated");
  opt_ResourcePressure r = nondet_opt_ResourcePressure();
  __CPROVER_assume(!r.has || RP_FINITE(r.val));
  ResourcePressure v = r.has ? r.val : rp_zero();
  if (RP_W(v) > RP_W(g_best_mem)) g_best_mem = v;
  g_calls_mem = g_calls_mem + 1;
  return r;
}

opt_ResourcePressure CgroupContext__io_pressure(CgroupContext cg)
{
  __CPROVER_assert(cg == g_cur_elem, "pressure is read from the cgroup being iterated");
  opt_ResourcePressure r = nondet_opt_ResourcePressure();
  __CPROVER_assume(!r.has || RP_FINITE(r.val));
  ResourcePressure v = r.has ? r.val : rp_zero();
  if (RP_W(v) > RP_W(g_best_io)) g_best_io = v;
  g_calls_io = g_calls_io + 1;
  return r;
}

opt_int64_t CgroupContext__current_usage(CgroupContext cg)
{
  g_calls_usage = g_calls_usage + 1;
  return nondet_opt_int64_t();
}

/* ---- contract under proof ---- */
#define PA_VALID_RES(s) ((s)->resource_ == ResourceType__MEMORY || (s)->resource_ == ResourceType__IO)
#define PA_BEST(s) ((s)->resource_ == ResourceType__IO ? g_best_io : g_best_mem)
#define PA_ABOVE(s) (PA_BEST(s).sec_10 > (float)(s)->threshold_)

PluginRet PressureAbove__run(PressureAbove *self, OomdContext ctx)
  __CPROVER_requires(__CPROVER_is_fresh(self, sizeof(*self)))
  __CPROVER_requires(PA_VALID_RES(self) && ghost_exc == 0)
  /* Inv8: hit_thres_at_ is epoch (no run open) or a past clock reading */
  __CPROVER_requires(TP_VALID(g_last_now) && TP_VALID(self->hit_thres_at_) && TP_LE(self->hit_thres_at_, g_last_now))
  __CPROVER_requires(RP_ZERO(g_best_mem) && RP_ZERO(g_best_io) && g_calls_mem == 0 && g_calls_io == 0 && g_elems == 0)
  __CPROVER_assigns(self->last_pressure_, self->hit_thres_at_, g_last_now, g_best_mem, g_best_io,
                    g_calls_mem, g_calls_io, g_calls_usage, g_elems, g_cur_elem, g_vec_n)
  /* every matched cgroup sampled exactly once, for the configured resource only */
  __CPROVER_ensures(g_elems == g_vec_n)
  __CPROVER_ensures(self->resource_ == ResourceType__IO ? (g_calls_io == g_vec_n && g_calls_mem == 0)
                                                        : (g_calls_mem == g_vec_n && g_calls_io == 0))
  /* run-start recurrence */
  __CPROVER_ensures(PA_ABOVE(self)
      ? (TP_IS_EPOCH(__CPROVER_old(self->hit_thres_at_)) ? TP_EQ(self->hit_thres_at_, g_last_now)
                                                        : TP_EQ(self->hit_thres_at_, __CPROVER_old(self->hit_thres_at_)))
      : TP_IS_EPOCH(self->hit_thres_at_))
  /* decision */
  __CPROVER_ensures((__CPROVER_return_value == PluginRet__CONTINUE) ==
      (PA_ABOVE(self) && SEC_DIFF(g_last_now, self->hit_thres_at_) >= (int64_t)self->duration_))
  __CPROVER_ensures(__CPROVER_return_value == PluginRet__CONTINUE || __CPROVER_return_value == PluginRet__STOP)
  /* sliding state + Inv8 preserved */
  __CPROVER_ensures(RP_EQ(self->last_pressure_, PA_BEST(self)))
  __CPROVER_ensures(TP_VALID(self->hit_thres_at_) && TP_LE(self->hit_thres_at_, g_last_now))
  __CPROVER_ensures(ghost_exc == 0);

#define LOOPC_PressureAbove__run_1 \
  __CPROVER_assigns(__begin1, current_pressure, current_memory_usage, g_best_mem, g_best_io, \
                    g_calls_mem, g_calls_io, g_calls_usage, g_elems, g_cur_elem) \
  __CPROVER_loop_invariant(__begin1.i <= __begin1.n && __begin1.n == __end1.i && __begin1.n == g_vec_n) \
  __CPROVER_loop_invariant(g_elems == __begin1.i) \
  __CPROVER_loop_invariant(self->resource_ == ResourceType__IO \
      ? (g_calls_io == __begin1.i && g_calls_mem == 0) : (g_calls_mem == __begin1.i && g_calls_io == 0)) \
  __CPROVER_loop_invariant(RP_EQ(current_pressure, PA_BEST(self))) \
  __CPROVER_decreases(__begin1.n - __begin1.i)

/* ---- harnesses ---- */
PluginRet PressureAbove__run(PressureAbove *self, OomdContext ctx);
void h_PressureAbove__run(void)
{
  PressureAbove *self;
  OomdContext ctx;
  PressureAbove__run(self, ctx);
  __CPROVER_assert(0, "canary: contract precondition satisfiable and function exit reachable");
}
