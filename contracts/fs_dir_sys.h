/* C views of <dirent.h> / <sys/stat.h> as far as Fs::readDirFromDIR uses them */
typedef struct dirent_t { str_t d_name; unsigned char d_type; } dirent_t;
typedef struct stat_t { unsigned int st_mode; } stat_t;
static inline stat_t stat_t__ctor0(void) { stat_t s; return s; }     /* `struct stat buf;` is uninitialised */
