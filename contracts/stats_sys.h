/* C views of the system types Stats.cpp uses (ASSUMED layout facts: sun_path holds 108 bytes on Linux) */
typedef struct sockaddr_un_t { unsigned short sun_family; str_t sun_path; } sockaddr_un_t;
typedef sockaddr_un_t sockaddr_t;
#define SUN_PATH_SIZE 108
