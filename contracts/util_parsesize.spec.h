/* Util::parseSize (C12): "<number>[kmgt]..." terms summed into a byte count.  The text handling (lower-casing,
 * blank removal, find_first_of, substr, stold) is a boundary: the stubs deliver any text positions and any long
 * double the C library may return - including NaN, infinities and 1e30.  Under contract is the ARITHMETIC the
 * function does with those numbers, evaluated bit-precisely (this unit is built with -DACXX_FLOAT_PRECISE):
 * no undefined float->integer conversion, no wrap of the 64-bit total, NaN/inf never accepted, the result is the
 * signed total. */
#include "common.h"
_Bool nondet_bool(void); uint64_t nondet_u64(void); double nondet_double(void); char nondet_char(void);
#define npos 0xffffffffffffffffUL
#define ext__tolower ((function_t)1)
#define ext__isspace ((function_t)2)
uint64_t g_len;                      /* length of the cleaned text */
vecit_str_t str_t__begin(str_t s) { vecit_str_t it; it.vid = 7; it.i = 0; it.n = g_len; return it; }
vecit_str_t str_t__end(str_t s) { vecit_str_t it; it.vid = 7; it.i = g_len; it.n = g_len; return it; }
void ext__transform(vecit_str_t a, vecit_str_t b, vecit_str_t c, function_t f) { }
vecit_str_t ext__remove_if__vecit_str_t_vecit_str_t_function_t(vecit_str_t a, vecit_str_t b, function_t f) { vecit_str_t r = a; r.i = nondet_u64(); __CPROVER_assume(r.i <= b.i); return r; }
int64_t vecit_str_t__op_sub(vecit_str_t a, vecit_str_t b) { return (int64_t)(a.i - b.i); }
void str_t__erase(str_t s, uint64_t from) { __CPROVER_assert(from <= g_len, "erase position within the string (else std::out_of_range)"); g_len = from; }
uint64_t str_t__length(str_t s) { return g_len; }
char str_t__op_index__uint64_t(str_t s, uint64_t i) { __CPROVER_assert(i <= g_len, "UB: string operator[] past size()"); return nondet_char(); }
uint64_t str_t__find_first_of(str_t s, str_t set, uint64_t pos) { uint64_t r = nondet_u64(); __CPROVER_assume(r == npos || (r >= pos && r < g_len)); return r; }
uint64_t g_num_len;
str_t nondet_str(void);
str_t str_t__substr(str_t s, uint64_t pos, uint64_t n) { if (pos > g_len) ghost_exc = EXC_out_of_range; g_num_len = n < g_len - pos ? n : g_len - pos; return nondet_str(); }
/* s.c_str()[i]: any character; index size() is the terminator; beyond that is UB */
char str_t__char_at(str_t s, uint64_t i) { __CPROVER_assert(i <= g_len, "UB: read past the terminator of c_str()"); char c = nondet_char(); if (i == g_len) c = 0; return c; }
_Bool g_saw_nonfinite;
/* std::stold: any long double (NaN / +-inf / huge included) and how many characters it consumed, or an exception */
double ext__stold(str_t s, uint64_t *end) { if (nondet_bool()) { ghost_exc = nondet_bool() ? EXC_invalid_argument : EXC_out_of_range; return 0.0; }
  double v = nondet_double(); *end = nondet_u64(); if (!(v == v) || v > 1.7976931348623157e308 || v < -1.7976931348623157e308) g_saw_nonfinite = 1; return v; }
#define LOOPC_Util__parseSize_1 \
  __CPROVER_assigns(pos, size, ghost_exc, ghost_exc_caught, g_num_len, g_saw_nonfinite, __ret) \
  __CPROVER_loop_invariant(ghost_exc == 0 && size < (1UL << 62) + 1024 && !g_saw_nonfinite)
int Util__parseSize(str_t input, int64_t *output)
  __CPROVER_requires(__CPROVER_is_fresh(output, sizeof(*output)) && ghost_exc == 0 && !g_saw_nonfinite && g_len <= (1UL << 32))
  __CPROVER_assigns(*output, ghost_exc, ghost_exc_caught, g_len, g_num_len, g_saw_nonfinite)
  __CPROVER_ensures((__CPROVER_return_value == 0 || __CPROVER_return_value == -1) && ghost_exc == 0)     /* rejected cleanly */ /*@C12*/
  __CPROVER_ensures(!g_saw_nonfinite || __CPROVER_return_value == -1)                                     /* NaN / infinity is not a size */ /*@C12*/
  __CPROVER_ensures(__CPROVER_return_value != 0 || (*output > -(1L << 62) - 1024 && *output < (1L << 62) + 1024)) /* the total never wraps */ /*@C12*/;
#define CANARY __CPROVER_assert(0, "canary: contract precondition satisfiable and function exit reachable")
void h_parseSize(void) { str_t s; int64_t *o; HAVOC(g_len); HAVOC(g_num_len); HAVOC(g_saw_nonfinite); HAVOC(ghost_exc); Util__parseSize(s, o); CANARY; }
