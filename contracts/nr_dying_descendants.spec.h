/* Contracts for NrDyingDescendants::run (C08: nr_dying_descendants)
 *   CONTINUE <=> some matched cgroup has nr_dying_descendants <= count (lte) resp. > count (!lte);
 *   a cgroup whose cgroup.stat is unavailable never matches.
 */
#include "detector_stubs.h"
opt_int64_t nondet_opt_int64_t(void);
_Bool g_any; NrDyingDescendants *g_self;
opt_int64_t CgroupContext__nr_dying_descendants(CgroupContext cg)
{
  __CPROVER_assert(cg == g_cur_elem, "cgroup.stat is read from the cgroup being iterated");
  opt_int64_t r = nondet_opt_int64_t();
  if (r.has && (g_self->lte_ ? r.val <= g_self->count_ : r.val > g_self->count_)) g_any = 1;
  return r;
}
PluginRet NrDyingDescendants__run(NrDyingDescendants *self, OomdContext ctx)
  __CPROVER_requires(__CPROVER_is_fresh(self, sizeof(*self)) && self == g_self && ghost_exc == 0 && !g_any && g_elems == 0)
  __CPROVER_assigns(g_any, g_elems, g_cur_elem, g_vec_n)
  __CPROVER_ensures((__CPROVER_return_value == PluginRet__CONTINUE) == g_any)
  __CPROVER_ensures(__CPROVER_return_value == PluginRet__CONTINUE || __CPROVER_return_value == PluginRet__STOP)
  __CPROVER_ensures(g_any || g_elems == g_vec_n)
  __CPROVER_ensures(ghost_exc == 0);
#define LOOPC_NrDyingDescendants__run_1 \
  __CPROVER_assigns(__begin1, g_any, g_elems, g_cur_elem) \
  __CPROVER_loop_invariant(__begin1.i <= __begin1.n && __begin1.n == __end1.i && __begin1.n == g_vec_n && g_elems == __begin1.i && !g_any) \
  __CPROVER_decreases(__begin1.n - __begin1.i)
void h_NrDyingDescendants__run(void)
{
  NrDyingDescendants *self; OomdContext ctx;
  HAVOC(g_any); HAVOC(g_elems); HAVOC(ghost_exc);
  g_self = self;
  NrDyingDescendants__run(self, ctx);
  __CPROVER_assert(0, "canary: contract precondition satisfiable and function exit reachable");
}

/* ================= init(): the arguments this plugin declares (C12) =================
 * Names and required flags as documented in docs/core_plugins.md, with one deliberate difference: `cgroup` is declared
 * optional by every plugin except senpai, because a ruleset-level `cgroup` supplies it per instance
 * (Ruleset::registerRunnableRulesetForCgroupPath, unit ruleset_cgroup). */
#include "init_common.h"
DEF_PARSE(PluginArgParser)
uset_CgroupPath PluginArgParser__parseCgroup(PluginConstructionContext c, str_t s);
void PluginArgParser__addArgumentCustom__str_t_uset_CgroupPath_function_t__Bool(PluginArgParser p, str_t name, uset_CgroupPath dest, function_t fn, _Bool required)
{ __CPROVER_assert(fn == (function_t)7, "the cgroup argument is parsed by PluginArgParser::parseCgroup with this plugin's construction context"); REG(name, (const void *)(long)dest, required, 1); }
#define lambda_bind__NrDyingDescendants__init__lambda_addArgumentCustom(ctx) ((lambda_t)7)
void PluginArgParser__addArgument__str_t__Bool__Bool(PluginArgParser p, str_t name, _Bool *dest, _Bool required) { REG(name, dest, required, 0); }
int64_t PluginArgParser__parseUnsignedInt(str_t s);
void PluginArgParser__addArgumentCustom__str_t_int64_t_function_t__Bool(PluginArgParser p, str_t name, int64_t *dest, function_t fn, _Bool required)
{ __CPROVER_assert(fn == (function_t)PluginArgParser__parseUnsignedInt, "`count` is read by parseUnsignedInt (non-negative integers only)"); REG(name, dest, required, 1); }
int NrDyingDescendants__init(NrDyingDescendants *self, umap_str_t_str_t args, PluginConstructionContext context)
  __CPROVER_requires(__CPROVER_is_fresh(self, sizeof(*self)) && ghost_exc == 0 && g_reg_n == 0 && g_parse_calls == 0)
  __CPROVER_assigns(REG_ASSIGNS)
  __CPROVER_ensures(INIT_CORE(4)) /*@C12*/
  __CPROVER_ensures(HASREG(STR_cgroup, (long)self->cgroups_, 0) && HASREG(STR_count, &self->count_, 1) && HASREG(STR_lte, &self->lte_, 0) && HASREG(STR_debug, &self->debug_, 0)) /*@C12,C08*/
  __CPROVER_ensures(ghost_exc == 0);
void h_NrDyingDescendants__init(void) { NrDyingDescendants *self; umap_str_t_str_t a; PluginConstructionContext c; HAVOC_REG(); HAVOC(ghost_exc); NrDyingDescendants__init(self, a, c); __CPROVER_assert(0, "canary: contract precondition satisfiable and function exit reachable"); }
