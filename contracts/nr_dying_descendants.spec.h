/* Contracts for NrDyingDescendants::run (C08: nr_dying_descendants)
 *   CONTINUE <=> some matched cgroup has nr_dying_descendants <= count (lte) resp. > count (!lte);
 *   a cgroup whose cgroup.stat is unavailable never matches.
 */
#include "detector_stubs.h"
opt_int64_t nondet_opt_int64_t(void);
_Bool g_any; NrDyingDescendants *g_self;
opt_int64_t CgroupContext__nr_dying_descendants(CgroupContext cg)
{
  __CPROVER_assert(cg == g_cur_elem, "cgroup.stat is read from the cgroup being iterated");
  opt_int64_t r = nondet_opt_int64_t();
  if (r.has && (g_self->lte_ ? r.val <= g_self->count_ : r.val > g_self->count_)) g_any = 1;
  return r;
}
PluginRet NrDyingDescendants__run(NrDyingDescendants *self, OomdContext ctx)
  __CPROVER_requires(__CPROVER_is_fresh(self, sizeof(*self)) && self == g_self && ghost_exc == 0 && !g_any && g_elems == 0)
  __CPROVER_assigns(g_any, g_elems, g_cur_elem, g_vec_n)
  __CPROVER_ensures((__CPROVER_return_value == PluginRet__CONTINUE) == g_any)
  __CPROVER_ensures(__CPROVER_return_value == PluginRet__CONTINUE || __CPROVER_return_value == PluginRet__STOP)
  __CPROVER_ensures(g_any || g_elems == g_vec_n)
  __CPROVER_ensures(ghost_exc == 0);
#define LOOPC_NrDyingDescendants__run_1 \
  __CPROVER_assigns(__begin1, g_any, g_elems, g_cur_elem) \
  __CPROVER_loop_invariant(__begin1.i <= __begin1.n && __begin1.n == __end1.i && __begin1.n == g_vec_n && g_elems == __begin1.i && !g_any) \
  __CPROVER_decreases(__begin1.n - __begin1.i)
void h_NrDyingDescendants__run(void)
{
  NrDyingDescendants *self; OomdContext ctx;
  HAVOC(g_any); HAVOC(g_elems); HAVOC(ghost_exc);
  g_self = self;
  NrDyingDescendants__run(self, ctx);
  __CPROVER_assert(0, "canary: contract precondition satisfiable and function exit reachable");
}
