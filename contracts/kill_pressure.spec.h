/* KillPressure (C09): rank by the mean of the 10 s and 60 s pressure of the configured resource.
 * The source keeps the mean in an `int`: DOC_KEY is the mean truncated to an integer (the property's
 * observation clause tolerates rounding; the truncation is recorded in DESIGN.md). */
#define KEY_T int
#define KEY_GT(x, y) ((x) > (y))
#define KEY_OK(x) 1
int __CPROVER_uninterpreted_key_i32(lambda_t, CgroupContext);
#define lambda_t__op_call__CgroupContext(k, c) __CPROVER_uninterpreted_key_i32(k, c)
KillPressure g_plugin;   /* the plugin instance whose closure is ranked with */
#define g_self (&g_plugin)
#ifdef UNIT_SORT
#define KEYF(k, c) __CPROVER_uninterpreted_key_i32(k, c)
#else
int KillPressure__rankForKilling__lambda_sortDescWithKillPrefs(KillPressure *self, CgroupContext cgroup_ctx);
#define KEYF(k, c) KillPressure__rankForKilling__lambda_sortDescWithKillPrefs(g_self, c)   /* the closure captured `this` */
#endif
int __CPROVER_uninterpreted_psi_has(int, CgroupContext); float __CPROVER_uninterpreted_psi10(int, CgroupContext); float __CPROVER_uninterpreted_psi60(int, CgroupContext);
float __CPROVER_uninterpreted_psi300(int, CgroupContext);
static inline opt_ResourcePressure psi_of(int res, CgroupContext c)
{ opt_ResourcePressure o; o.has = __CPROVER_uninterpreted_psi_has(res, c) != 0; o.val.sec_10 = __CPROVER_uninterpreted_psi10(res, c); o.val.sec_60 = __CPROVER_uninterpreted_psi60(res, c);
  o.val.sec_300 = __CPROVER_uninterpreted_psi300(res, c); return o; }
opt_ResourcePressure CgroupContext__io_pressure(CgroupContext c) { return psi_of(ResourceType__IO, c); }
opt_ResourcePressure CgroupContext__mem_pressure(CgroupContext c) { return psi_of(ResourceType__MEMORY, c); }
#define MEAN_OF(res, c) F2I_i32(F_ADD_f(F_DIV_f(__CPROVER_uninterpreted_psi10(res, c), (float)2), F_DIV_f(__CPROVER_uninterpreted_psi60(res, c), (float)2)))
#define DOC_KEY(c) ((g_self->resource_ == ResourceType__IO || g_self->resource_ == ResourceType__MEMORY) && __CPROVER_uninterpreted_psi_has(g_self->resource_, c) != 0 ? MEAN_OF(g_self->resource_, c) : 0)
#include "kill_sort.h"
#include "kill_sort_proofs.h"
#define LAMBDA_ID__KillPressure__rankForKilling__lambda_sortDescWithKillPrefs ((lambda_t)1)
int KillPressure__rankForKilling__lambda_sortDescWithKillPrefs(KillPressure *self, CgroupContext cgroup_ctx)
  __CPROVER_requires(self == g_self && ghost_exc == 0) __CPROVER_assigns()
  __CPROVER_ensures(__CPROVER_return_value == DOC_KEY(cgroup_ctx) && ghost_exc == 0) /*@C09*/;
#define DOC_BETTER(x, f) (PREF(x) > PREF(f) || (PREF(x) == PREF(f) && DOC_KEY(x) > DOC_KEY(f)))
vec_CgroupContext KillPressure__rankForKilling(KillPressure *self, OomdContext *ctx, vec_CgroupContext cgroups)
  __CPROVER_requires(self == g_self && cgroups.n <= VEC_MAX && ghost_exc == 0)
  __CPROVER_assigns(g_copied, g_sorted, g_copy_vid, g_copy_src)
  __CPROVER_ensures(__CPROVER_return_value.n == cgroups.n && ghost_exc == 0) /*@C09*/
  __CPROVER_ensures(cgroups.n == 0 || (g_s0 < cgroups.n && vec_CgroupContext__elem(__CPROVER_return_value.vid, 0) == ELEM(cgroups.vid, g_s0))) /*@C09*/
  __CPROVER_ensures(cgroups.n == 0 || g_w >= cgroups.n || !DOC_BETTER(ELEM(cgroups.vid, g_w), vec_CgroupContext__elem(__CPROVER_return_value.vid, 0))) /*@C09*/;
void h_key(void) { CgroupContext c; HAVOC_SORT(); HAVOC(g_plugin); KillPressure__rankForKilling__lambda_sortDescWithKillPrefs(g_self, c); CANARY; }
void h_rank(void) { OomdContext *x; vec_CgroupContext v; HAVOC_SORT(); HAVOC(g_plugin); KillPressure__rankForKilling(g_self, x, v); CANARY; }
