/* Shared ghost model + contracts for OomdContext::sortDescWithKillPrefs (C09): the ranking every kill plugin
 * uses.  Included by one unit per plugin TU (each TU holds its own instantiation of the template, with the
 * plugin's key type).  The including spec defines
 *   KEY_T            C type of the plugin's key
 *   KEY_GT(x, y)     `x > y` on that type, as C++ evaluates it (tuple keys: lexicographic)
 *   KEY_OK(x)        the key is ordered (floats: not NaN) - std::sort needs a strict weak ordering
 *   KEYF(k, c)       the key of cgroup c under key functor k
 *
 * Per-cgroup facts are uninterpreted functions of the context handle: within a tick every accessor returns
 * one fixed value (that is C15's per-tick cache, proved in unit cgroup_context).
 *
 * std::sort is ASSUMED (ghost_sort below): the result is a permutation of the input and no later element
 * compares before an earlier one.  The universally quantified statement is carried by prophecy indices the
 * harness leaves arbitrary: g_s0 (where the first element came from), g_w (a watched input element), g_pw
 * (where the watched element lands). */
#include "common.h"
_Bool nondet_bool(void); uint64_t nondet_u64(void);
int __CPROVER_uninterpreted_pref_has(CgroupContext);
int __CPROVER_uninterpreted_pref_val(CgroupContext);
#define PREF_HAS(c) (__CPROVER_uninterpreted_pref_has(c) != 0)
#define PREF_VAL(c) __CPROVER_uninterpreted_pref_val(c)
#define PREF(c) (PREF_HAS(c) ? PREF_VAL(c) : KillPreference__NORMAL)
opt_KillPreference CgroupContext__kill_preference(CgroupContext c)
{ opt_KillPreference o; o.has = PREF_HAS(c); o.val = PREF_VAL(c);
  __CPROVER_assume(o.val == KillPreference__PREFER || o.val == KillPreference__NORMAL || o.val == KillPreference__AVOID); return o; }
/* x ranks strictly before f */
#define BETTER(k, x, f) (PREF(x) > PREF(f) || (PREF(x) == PREF(f) && KEY_GT(KEYF(k, x), KEYF(k, f))))

/* vector contents */
CgroupContext __CPROVER_uninterpreted_elem(uint64_t vid, uint64_t i);
CgroupContext __CPROVER_uninterpreted_elem_sorted(uint64_t i);
#define ELEM(vid, i) __CPROVER_uninterpreted_elem(vid, i)
uint64_t g_copy_vid, g_copy_src, g_s0, g_w, g_pw; _Bool g_copied, g_sorted;
vec_CgroupContext vec_CgroupContext__copy(vec_CgroupContext v)
{ vec_CgroupContext r;   /* the latest copy is the one that may be permuted in place */ r.vid = nondet_u64(); __CPROVER_assume(r.vid != v.vid); r.n = v.n;
  g_copied = 1; g_sorted = 0; g_copy_vid = r.vid; g_copy_src = v.vid; return r; }
CgroupContext vec_CgroupContext__elem(uint64_t vid, uint64_t i)
{ if (g_copied && vid == g_copy_vid) return g_sorted ? __CPROVER_uninterpreted_elem_sorted(i) : ELEM(g_copy_src, i); return ELEM(vid, i); }

#ifndef KEY_PRE
#define KEY_PRE(k, c) 1      /* the key functor is total (never throws) */
#endif
#define SORT_CONTRACT(k) \
  __CPROVER_requires(cgroups.n <= VEC_MAX && ghost_exc == 0) \
  /* no try/catch around the sort: the key functor must be defined on every element handed in */ \
  __CPROVER_requires(g_w >= cgroups.n || KEY_PRE(k, ELEM(cgroups.vid, g_w))) /*@C09,C10*/ \
  __CPROVER_requires(g_w >= cgroups.n || (KEY_OK(KEYF(k, ELEM(cgroups.vid, g_w))))) \
  __CPROVER_requires(g_s0 >= cgroups.n || (KEY_OK(KEYF(k, ELEM(cgroups.vid, g_s0))))) \
  __CPROVER_assigns(g_copied, g_sorted, g_copy_vid, g_copy_src) \
  __CPROVER_ensures(__CPROVER_return_value.n == cgroups.n && ghost_exc == 0) \
  /* the first choice is one of the given cgroups ... */ \
  __CPROVER_ensures(cgroups.n == 0 || (g_s0 < cgroups.n && vec_CgroupContext__elem(__CPROVER_return_value.vid, 0) == ELEM(cgroups.vid, g_s0))) /*@C09*/ \
  /* ... and no given cgroup ranks strictly before it: higher kill preference first, then larger key */ \
  __CPROVER_ensures(cgroups.n == 0 || g_w >= cgroups.n || !BETTER(k, ELEM(cgroups.vid, g_w), vec_CgroupContext__elem(__CPROVER_return_value.vid, 0))) /*@C09*/
/* Util::filter (std::copy_if into a fresh vector) is ASSUMED: an order-preserving sub-sequence holding exactly
 * the elements for which the predicate is true.  Prophecy indices: the output element at index g_s0 (the one
 * the following sort will put first) came from input index g_fs0; the watched input element g_fw, if it
 * passes, sits at output index g_w (the index the sort contract watches). */
uint64_t g_fs0, g_fw;
#define DEFINE_GHOST_FILTER(pred, PREDCALL) \
  vec_CgroupContext ghost_filter__##pred(vec_CgroupContext v) \
  { vec_CgroupContext r; r.vid = nondet_u64(); r.n = nondet_u64(); __CPROVER_assume(r.vid != v.vid && r.n <= v.n); \
    if (g_s0 < r.n) { CgroupContext c = vec_CgroupContext__elem(v.vid, g_fs0); __CPROVER_assume(g_fs0 < v.n && ELEM(r.vid, g_s0) == c); __CPROVER_assume(PREDCALL(c)); } \
    if (g_fw < v.n) { CgroupContext c = vec_CgroupContext__elem(v.vid, g_fw); if (PREDCALL(c)) __CPROVER_assume(g_w < r.n && ELEM(r.vid, g_w) == c); } \
    if (g_w < r.n) { CgroupContext c = ELEM(r.vid, g_w); __CPROVER_assume(PREDCALL(c)); }   /* every kept element satisfies the predicate */ \
    return r; }
#define Util__filter__vec_CgroupContext_lambda_t(v, pred) ghost_filter__##pred(v)
/* call sites pass the lifted key lambda by name; its identity becomes the functor handle */
#define OomdContext__sortDescWithKillPrefs__vec_CgroupContext_lambda_t(v, keyfn) OomdContext__sortDescWithKillPrefs(v, LAMBDA_ID__##keyfn)
#define HAVOC_SORT() do { HAVOC(g_copy_vid); HAVOC(g_copy_src); HAVOC(g_s0); HAVOC(g_w); HAVOC(g_pw); HAVOC(g_copied); HAVOC(g_sorted); HAVOC(g_fs0); HAVOC(g_fw); HAVOC(ghost_exc); } while (0)
#define CANARY __CPROVER_assert(0, "canary: contract precondition satisfiable and function exit reachable")
