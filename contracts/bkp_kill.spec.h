/* Contracts for the kill mechanics of BaseKillPlugin (C01 containment, C04 dry-run, C17 accounting):
 *   tryToKillPids, getAndTryToKillPids, tryToKillCgroup, reportKill{Uuid,Initiation,Completion}ToXattr,
 *   getxattr/setxattr, reapProcess, reapCgroupRecursively.
 * Every libc / Fs boundary call is ghost code whose assertions ARE the containment statement: the
 * only pids signalled / reaped are FROM_PROCS, the only fds and paths written belong to the victim.
 */
#include "bkp_common.h"
str_t g_victim_path;               /* absolutePath of the victim */
str_t g_gx_str; int g_gx_val;      /* string <-> integer link of the most recent getxattr result */
_Bool g_xa_numeric[6]; _Bool g_gx_numeric;   /* whether a pre-existing value reads as an int at all (user.* xattrs are writable by the cgroup's owner) */
str_t g_ts_str; int g_ts_val;      /* string <-> integer link of the most recent to_string result */
opt_vec_str_t nondet_opt_vec_str_t(void); opt_CgroupContext nondet_opt_CgroupContext(void);
maybe_vec_str_t nondet_maybe_vec_str_t(void); maybe_vec_int nondet_maybe_vec_int(void);
maybe_str_t nondet_maybe_str_t(void); maybe_Unit nondet_maybe_Unit(void); maybe_int64_t nondet_maybe_i64(void);
maybe__Bool nondet_maybe_bool(void);

/* ---- identity of fds and paths ---- */
Fs_DirFd CgroupContext__fd(CgroupContext cg) { return (Fs_DirFd)cg; }
int Fs_Fd__fd__(Fs_DirFd d) { return (int)d; }
CgroupPath CgroupContext__cgroup(CgroupContext cg) { return (CgroupPath)cg; }
str_t CgroupPath__absolutePath(CgroupPath p) { return (str_t)p; }     /* injective: path <-> cgroup */
str_t CgroupPath__relativePath(CgroupPath p) { return (str_t)p; }
OomdContext CgroupContext__oomd_ctx(CgroupContext cg) { return (OomdContext)0; }

/* ---- children (cached list of names; each child resolved through the context) ---- */
opt_vec_str_t CgroupContext__children(CgroupContext cg)
{
  opt_vec_str_t r = nondet_opt_vec_str_t();
  __CPROVER_assume(!r.has || r.val.n <= VEC_MAX);
  return r;
}
str_t vec_str_t__elem(uint64_t vid, uint64_t i) { return nondet_str(); }
opt_CgroupContext OomdContext__addChildToCacheAndGet(OomdContext c, CgroupContext parent, str_t name)
{
  opt_CgroupContext r = nondet_opt_CgroupContext();
  if (r.has) __CPROVER_assume(!WITHIN(g_victim, parent) || WITHIN(g_victim, r.val));   /* a child of a cgroup within the victim is within the victim */
  return r;
}

/* ---- cgroup.procs streaming ---- */
int g_procs_fd; _Bool g_procs_open;
int ext__openat(int dirfd, str_t name, int flags)
{
  __CPROVER_assert(WITHIN(g_victim, CG_OF_FD(dirfd)), "cgroup.procs is opened relative to the victim's (or a descendant's) directory fd"); /*@C01*/
  __CPROVER_assert(name == STR_cgroup_procs && flags == 0, "only cgroup.procs is opened, read-only"); /*@C01*/
  int fd = nondet_int();
  __CPROVER_assume(fd >= -1);
  if (fd >= 0) { g_procs_fd = fd; g_procs_open = 1; }
  return fd;
}
FILE_t ext__fdopen(int fd, str_t mode) { __CPROVER_assert(fd == g_procs_fd, "fdopen on the fd just opened"); return (FILE_t)(nondet_bool() ? 1 : 0); }
int ext__close(int fd) { return 0; }
int ext__fclose(FILE_t f) { __CPROVER_assert(f != 0, "UB: fclose(NULL)"); return 0; }
void ext__free(void *p) { }
int64_t ext__getline(str_t *line, uint64_t *len, FILE_t fp)
{
  __CPROVER_assert(fp != 0, "UB: getline on a NULL stream (fdopen failed)");
  int64_t r = nondet_i64();
  __CPROVER_assume(r >= -1 && r <= 64);
  if (r >= 0) *line = (str_t)7;      /* PROCS_LINE: a non-null buffer holding one line of cgroup.procs */
  return r;
}
int ext__stoi(str_t s);              /* below */
uint64_t g_pids_pushed, g_pos_pids;   /* g_pos_pids: positive pids handed out by the queue */
vec_int nondet_vec_int(void);
void vec_int__push_back(vec_int *v, int x)
{
  __CPROVER_assert(FROM_PROCS(x), "only pids read from the victim's cgroup.procs are queued for killing"); /*@C01*/
  __CPROVER_assume(v->n < VEC_MAX);
  v->n = v->n + 1;
}
int vec_int__elem(uint64_t vid, uint64_t i)
{
  int p = nondet_int();
  __CPROVER_assume(FROM_PROCS(p));   /* container abstraction: every queued pid passed the assertion in push_back / came from getPidsAt */
  if (p > 0) g_pos_pids = g_pos_pids + 1;
  return p;
}
maybe_vec_str_t Fs__readFileByLine__str_t_char(str_t path) { maybe_vec_str_t r = nondet_maybe_vec_str_t(); __CPROVER_assume(!r.ok || r.val.n <= VEC_MAX); return r; }
str_t str_t__op_add(str_t a, str_t b) { return nondet_str(); }
str_t ext__to_string__int(int v);    /* below */

/* ---- kill(2) ---- */
int ext__kill(int pid, int sig)
{
  __CPROVER_assert(pid > 0, "kill(2) is only called with a positive pid (0 / negative would signal oomd's own process group or everything)"); /*@C01*/
  __CPROVER_assert(sig == SIGKILL_NO, "the only signal sent is SIGKILL"); /*@C01*/
  __CPROVER_assert(FROM_PROCS(pid), "only pids listed in cgroup.procs of the victim or its descendants are signalled"); /*@C01*/
  __CPROVER_assume(g_kill_calls < KILL_BUDGET);
  g_kill_calls = g_kill_calls + 1;
  g_side_effects = g_side_effects + 1;
  int r = nondet_bool() ? 0 : -1;
  if (r == 0) g_kill_ok = g_kill_ok + 1;
  else { int e = nondet_int(); __CPROVER_assume(e != 0); ghost_errno = e; }     /* a failed kill(2) sets errno (ESRCH: the process already exited, EPERM) */
  return r;
}

/* ---- tryToKillPids: returns exactly the number of successful kill(2) calls ---- */
int BaseKillPlugin__tryToKillPids(BaseKillPlugin *self, vec_int pids)
  __CPROVER_requires(pids.n <= VEC_MAX && g_kill_ok <= g_kill_calls && g_kill_calls <= KILL_BUDGET && ghost_exc == 0)
  __CPROVER_assigns(g_kill_calls, g_kill_ok, g_side_effects, g_ts_str, g_ts_val, g_pos_pids, ghost_errno)
  __CPROVER_ensures(__CPROVER_return_value >= 0 && (uint64_t)__CPROVER_return_value == g_kill_ok - __CPROVER_old(g_kill_ok)) /*@C17,C01*/
  __CPROVER_ensures(g_kill_calls - __CPROVER_old(g_kill_calls) == g_pos_pids - __CPROVER_old(g_pos_pids))     /* every queued positive pid signalled exactly once, nothing else */ /*@C01,C17*/
  __CPROVER_ensures(g_kill_ok <= g_kill_calls && g_kill_calls <= KILL_BUDGET && ghost_exc == 0);
#define LOOPC_BaseKillPlugin__tryToKillPids_1 \
  __CPROVER_assigns(__begin1, nrKilled, g_kill_calls, g_kill_ok, g_side_effects, g_ts_str, g_ts_val, g_pos_pids, ghost_errno) \
  __CPROVER_loop_invariant(__begin1.i <= __begin1.n && __begin1.n == pids.n && __end1.i == __begin1.n) \
  __CPROVER_loop_invariant(nrKilled >= 0 && (uint64_t)nrKilled == g_kill_ok - __CPROVER_loop_entry(g_kill_ok) && (uint64_t)nrKilled <= __begin1.i) \
  __CPROVER_loop_invariant(g_kill_calls - __CPROVER_loop_entry(g_kill_calls) == g_pos_pids - __CPROVER_loop_entry(g_pos_pids) && \
                           g_kill_calls - __CPROVER_loop_entry(g_kill_calls) <= __begin1.i && g_kill_ok <= g_kill_calls && g_kill_calls <= KILL_BUDGET) \
  __CPROVER_decreases(__begin1.n - __begin1.i)

/* ---- getAndTryToKillPids: kills the pids of `target` and, recursively, of its cached children ---- */
#define PROCS_LINE ((str_t)7)      /* the getline buffer: one line of the victim's cgroup.procs */
int ext__stoi(str_t s)
{
  int v = nondet_int();
  if (s == PROCS_LINE) { __CPROVER_assume(FROM_PROCS(v)); return v; }   /* the number on a line of the victim's cgroup.procs */
  if (s == STR_0) return 0;
  if (s == g_gx_str) { if (!g_gx_numeric) ghost_exc = nondet_bool() ? EXC_invalid_argument : EXC_out_of_range; return g_gx_val; }   /* a pre-existing xattr value read as an integer: std::stoi throws on text that is not an int */
  return v;
}
#define CONTRACT_getAndTryToKillPids \
  __CPROVER_requires(WITHIN(g_victim, target) && g_kill_ok <= g_kill_calls && g_kill_calls <= KILL_BUDGET && ghost_exc == 0) \
  __CPROVER_assigns(g_kill_calls, g_kill_ok, g_side_effects, g_procs_fd, g_procs_open, ghost_errno, g_ts_str, g_ts_val, g_pos_pids) \
  __CPROVER_ensures(g_kill_ok >= __CPROVER_old(g_kill_ok) && g_kill_ok <= g_kill_calls && g_kill_calls <= KILL_BUDGET) \
  /* the count returned is the number of SIGKILLs that went through: it decides whether the attempt counts as a kill (C01: stop at the first victim signalled) */ \
  __CPROVER_ensures(__CPROVER_return_value >= 0 && (uint64_t)__CPROVER_return_value == g_kill_ok - __CPROVER_old(g_kill_ok)) /*@C17,C01*/ \
  __CPROVER_ensures(g_kill_ok <= g_kill_calls && g_kill_calls <= KILL_BUDGET && ghost_exc == 0)
int BaseKillPlugin__getAndTryToKillPids(BaseKillPlugin *self, CgroupContext target) CONTRACT_getAndTryToKillPids;
int BaseKillPlugin__getAndTryToKillPids__rec(BaseKillPlugin *self, CgroupContext target) CONTRACT_getAndTryToKillPids;   /* the recursive call, by contract */
#define LOOPC_BaseKillPlugin__getAndTryToKillPids_1 \
  __CPROVER_assigns(read, line, len, pids, nrKilled, g_kill_calls, g_kill_ok, g_side_effects, g_ts_str, g_ts_val, g_pos_pids, ghost_errno) \
  __CPROVER_loop_invariant(pids.n < 20 && nrKilled >= 0 && (uint64_t)nrKilled == g_kill_ok - __CPROVER_loop_entry(g_kill_ok)) \
  __CPROVER_loop_invariant(g_kill_ok <= g_kill_calls && g_kill_calls <= KILL_BUDGET)
#define LOOPC_BaseKillPlugin__getAndTryToKillPids_2 \
  __CPROVER_assigns(__begin2, nrKilled, g_kill_calls, g_kill_ok, g_side_effects, g_procs_fd, g_procs_open, ghost_errno, g_ts_str, g_ts_val, g_pos_pids) \
  __CPROVER_loop_invariant(__begin2.i <= __begin2.n && __end2.i == __begin2.n && __begin2.n <= VEC_MAX) \
  __CPROVER_loop_invariant(nrKilled >= 0 && (uint64_t)nrKilled <= g_kill_ok && \
      g_kill_ok - (uint64_t)nrKilled == __CPROVER_loop_entry(g_kill_ok) - (uint64_t)__CPROVER_loop_entry(nrKilled) && \
      g_kill_ok <= g_kill_calls && g_kill_calls <= KILL_BUDGET) \
  __CPROVER_decreases(__begin2.n - __begin2.i)

/* ---- xattrs: abstract store of integer counters / strings per attribute of the victim ---- */
enum { XA_OOMS_T, XA_OOMS_U, XA_KILL_T, XA_KILL_U, XA_UUID_T, XA_UUID_U, XA_N };
#define xa_index(a) \
  ((a) == STR_trusted_oomd_ooms ? XA_OOMS_T : (a) == STR_user_oomd_ooms ? XA_OOMS_U : (a) == STR_trusted_oomd_kill ? XA_KILL_T : \
   (a) == STR_user_oomd_kill ? XA_KILL_U : (a) == STR_trusted_oomd_kill_uuid ? XA_UUID_T : (a) == STR_user_oomd_kill_uuid ? XA_UUID_U : XA_N)
_Bool g_xa_present[XA_N];          /* attribute readable and non-empty before the attempt */
int g_xa_prev[XA_N];               /* its integer value (pre-existing values are read as integers) */
uint64_t g_xa_sets[XA_N];          /* setxattr calls per attribute */
int g_xa_written[XA_N];            /* last integer written */
str_t g_xa_written_str[XA_N];      /* last string written */
maybe_str_t Fs__getxattr(str_t path, str_t attr)
{
  __CPROVER_assert(path == g_victim_path, "xattrs are read from the victim's path only"); /*@C01*/
  int i = xa_index(attr);
  __CPROVER_assert(i < XA_N, "only the six oomd attributes are touched");
  maybe_str_t r;
  r.err = 0;
  if (g_xa_present[i]) { r.ok = 1; r.val = nondet_str(); __CPROVER_assume(r.val != STR_EMPTY && r.val != STR_0 && r.val != PROCS_LINE); g_gx_str = r.val; g_gx_val = g_xa_prev[i]; g_gx_numeric = g_xa_numeric[i] != 0; }
  else if (nondet_bool()) { r.ok = 1; r.val = STR_EMPTY; }
  else { r.ok = 0; r.err = EXC_system_error; }
  return r;
}
maybe_Unit Fs__setxattr(str_t path, str_t attr, str_t val)
{
  __CPROVER_assert(path == g_victim_path, "xattrs are written on the victim's path only"); /*@C01*/
  int i = xa_index(attr);
  __CPROVER_assert(i < XA_N, "only the six oomd attributes are touched");
  g_xa_sets[i] = g_xa_sets[i] + 1;
  g_xa_written_str[i] = val;
  if (val == g_ts_str) g_xa_written[i] = g_ts_val;
  g_side_effects = g_side_effects + 1;
  maybe_Unit r = nondet_maybe_Unit();
  return r;
}
/* reading a pre-existing value as an integer (digits assumed: the attribute is oomd's own) */
#undef ext__stoi_xattr
static inline int stoi_model(str_t s) { return s == STR_0 ? 0 : (s == g_gx_str ? g_gx_val : nondet_int()); }
str_t ext__to_string__int(int v) { str_t s = nondet_str(); __CPROVER_assume(s != STR_EMPTY); g_ts_str = s; g_ts_val = v; return s; }

#define XA_WF (g_xa_prev[XA_OOMS_T] >= 0 && g_xa_prev[XA_OOMS_T] < (1 << 30) && g_xa_prev[XA_OOMS_U] >= 0 && g_xa_prev[XA_OOMS_U] < (1 << 30) && \
               g_xa_prev[XA_KILL_T] >= 0 && g_xa_prev[XA_KILL_T] < (1 << 30) && g_xa_prev[XA_KILL_U] >= 0 && g_xa_prev[XA_KILL_U] < (1 << 30))
#define XA_BASE(i) ((g_xa_present[i] && g_xa_numeric[i]) ? g_xa_prev[i] : 0)     /* absent, or not a count: counting starts over */
#define XA_KEEP(i) (g_xa_sets[i] == __CPROVER_old(g_xa_sets[i]) && g_xa_written[i] == __CPROVER_old(g_xa_written[i]) && g_xa_written_str[i] == __CPROVER_old(g_xa_written_str[i]))
#define XA_ASSIGNS g_xa_sets, g_xa_written, g_xa_written_str, g_gx_str, g_gx_val, g_gx_numeric, g_ts_str, g_ts_val, g_side_effects, ghost_exc, ghost_exc_caught

str_t BaseKillPlugin__getxattr(BaseKillPlugin *self, str_t path, str_t attr)
  __CPROVER_requires(path == g_victim_path && xa_index(attr) < XA_N && ghost_exc == 0)
  __CPROVER_assigns(g_gx_str, g_gx_val, g_gx_numeric)
  __CPROVER_ensures(g_xa_present[xa_index(attr)] ? (__CPROVER_return_value == g_gx_str && g_gx_val == g_xa_prev[xa_index(attr)] && (g_gx_numeric != 0) == (g_xa_numeric[xa_index(attr)] != 0) &&
                                                   __CPROVER_return_value != STR_EMPTY && __CPROVER_return_value != STR_0 && __CPROVER_return_value != ((str_t)7))
                                                 : __CPROVER_return_value == STR_EMPTY)
  __CPROVER_ensures(ghost_exc == 0);
#define XA_SET_EFFECT(i) (xa_index(attr) == (i) \
   ? (g_xa_sets[i] == __CPROVER_old(g_xa_sets[i]) + 1 && g_xa_written_str[i] == val && (val == g_ts_str ? g_xa_written[i] == g_ts_val : 1)) \
   : (g_xa_sets[i] == __CPROVER_old(g_xa_sets[i]) && g_xa_written[i] == __CPROVER_old(g_xa_written[i]) && g_xa_written_str[i] == __CPROVER_old(g_xa_written_str[i])))
_Bool BaseKillPlugin__setxattr(BaseKillPlugin *self, str_t path, str_t attr, str_t val)
  __CPROVER_requires(path == g_victim_path && xa_index(attr) < XA_N && ghost_exc == 0)
  __CPROVER_assigns(g_xa_sets, g_xa_written, g_xa_written_str, g_side_effects)
  __CPROVER_ensures(XA_SET_EFFECT(XA_OOMS_T) && XA_SET_EFFECT(XA_OOMS_U) && XA_SET_EFFECT(XA_KILL_T) && XA_SET_EFFECT(XA_KILL_U) &&
                    XA_SET_EFFECT(XA_UUID_T) && XA_SET_EFFECT(XA_UUID_U))
  __CPROVER_ensures((__CPROVER_return_value == 0 || __CPROVER_return_value == 1) && g_side_effects == __CPROVER_old(g_side_effects) + 1 && ghost_exc == 0);

/* oomd_ooms += 1 on both names, each from its own previous value */
void BaseKillPlugin__reportKillInitiationToXattr(BaseKillPlugin *self, str_t cgroupPath)
  __CPROVER_requires(cgroupPath == g_victim_path && XA_WF && ghost_exc == 0)
  __CPROVER_assigns(XA_ASSIGNS)
  __CPROVER_ensures(g_xa_sets[XA_OOMS_T] == __CPROVER_old(g_xa_sets[XA_OOMS_T]) + 1 && g_xa_written[XA_OOMS_T] == XA_BASE(XA_OOMS_T) + 1) /*@C17*/
  __CPROVER_ensures(g_xa_sets[XA_OOMS_U] == __CPROVER_old(g_xa_sets[XA_OOMS_U]) + 1 && g_xa_written[XA_OOMS_U] == XA_BASE(XA_OOMS_U) + 1) /*@C17*/
  __CPROVER_ensures(XA_KEEP(XA_KILL_T) && XA_KEEP(XA_KILL_U) && XA_KEEP(XA_UUID_T) && XA_KEEP(XA_UUID_U))
  __CPROVER_ensures(g_side_effects == __CPROVER_old(g_side_effects) + 2 && ghost_exc == 0);
/* oomd_kill += numProcsKilled on both names, each from its own previous value */
void BaseKillPlugin__reportKillCompletionToXattr(BaseKillPlugin *self, str_t cgroupPath, int numProcsKilled)
  __CPROVER_requires(cgroupPath == g_victim_path && XA_WF && numProcsKilled >= 0 && numProcsKilled <= KILL_BUDGET && ghost_exc == 0)
  __CPROVER_assigns(XA_ASSIGNS)
  __CPROVER_ensures(g_xa_sets[XA_KILL_T] == __CPROVER_old(g_xa_sets[XA_KILL_T]) + 1 && g_xa_written[XA_KILL_T] == XA_BASE(XA_KILL_T) + numProcsKilled) /*@C17*/
  __CPROVER_ensures(g_xa_sets[XA_KILL_U] == __CPROVER_old(g_xa_sets[XA_KILL_U]) + 1 && g_xa_written[XA_KILL_U] == XA_BASE(XA_KILL_U) + numProcsKilled) /*@C17*/
  __CPROVER_ensures(XA_KEEP(XA_OOMS_T) && XA_KEEP(XA_OOMS_U) && XA_KEEP(XA_UUID_T) && XA_KEEP(XA_UUID_U))
  __CPROVER_ensures(g_side_effects == __CPROVER_old(g_side_effects) + 2 && ghost_exc == 0);
/* oomd_kill_uuid = killUuid on both names */
void BaseKillPlugin__reportKillUuidToXattr(BaseKillPlugin *self, str_t cgroupPath, str_t killUuid)
  __CPROVER_requires(cgroupPath == g_victim_path && ghost_exc == 0)
  __CPROVER_assigns(XA_ASSIGNS)
  __CPROVER_ensures(g_xa_sets[XA_UUID_T] == __CPROVER_old(g_xa_sets[XA_UUID_T]) + 1 && g_xa_written_str[XA_UUID_T] == killUuid) /*@C17*/
  __CPROVER_ensures(g_xa_sets[XA_UUID_U] == __CPROVER_old(g_xa_sets[XA_UUID_U]) + 1 && g_xa_written_str[XA_UUID_U] == killUuid) /*@C17*/
  __CPROVER_ensures(XA_KEEP(XA_KILL_T) && XA_KEEP(XA_KILL_U) && XA_KEEP(XA_OOMS_T) && XA_KEEP(XA_OOMS_U))
  __CPROVER_ensures(g_side_effects == __CPROVER_old(g_side_effects) + 2 && ghost_exc == 0);

/* ---- reaping ---- */
uint64_t g_reaps;
int ext__pidfd_open(int pid, uint32_t flags)
{
  __CPROVER_assert(FROM_PROCS(pid), "only pids of the victim's subtree are reaped"); /*@C01*/
  __CPROVER_assume(g_reaps < KILL_BUDGET);
  g_reaps = g_reaps + 1;
  g_side_effects = g_side_effects + 1;
  int r = nondet_int(); __CPROVER_assume(r >= -1); return r;
}
int ext__process_mrelease(int pidfd, uint32_t flags) { g_side_effects = g_side_effects + 1; return nondet_bool() ? 0 : -1; }
maybe_vec_int Fs__getPidsAt(Fs_DirFd fd)
{
  __CPROVER_assert(WITHIN(g_victim, CG_OF_FD(fd)), "pids to reap are listed from the victim's subtree"); /*@C01*/
  maybe_vec_int r = nondet_maybe_vec_int(); __CPROVER_assume(!r.ok || r.val.n <= VEC_MAX); return r;
}
_Bool BaseKillPlugin__reapProcess(BaseKillPlugin *self, int pid)
  __CPROVER_requires(FROM_PROCS(pid) && g_reaps <= KILL_BUDGET && ghost_exc == 0)
  __CPROVER_assigns(g_side_effects, ghost_errno, g_reaps)
  __CPROVER_ensures((__CPROVER_return_value == 0 || __CPROVER_return_value == 1) && g_reaps == __CPROVER_old(g_reaps) + 1 && g_reaps <= KILL_BUDGET && ghost_exc == 0);
#define CONTRACT_reapCgroupRecursively \
  __CPROVER_requires(WITHIN(g_victim, target) && g_reaps <= KILL_BUDGET && ghost_exc == 0) \
  __CPROVER_assigns(g_side_effects, ghost_errno, g_reaps, g_pos_pids) \
  __CPROVER_ensures(g_reaps >= __CPROVER_old(g_reaps) && g_reaps <= KILL_BUDGET) \
  __CPROVER_ensures(__CPROVER_return_value >= 0 && (uint64_t)__CPROVER_return_value <= g_reaps - __CPROVER_old(g_reaps) && ghost_exc == 0)
int BaseKillPlugin__reapCgroupRecursively(BaseKillPlugin *self, CgroupContext target) CONTRACT_reapCgroupRecursively;
int BaseKillPlugin__reapCgroupRecursively__rec(BaseKillPlugin *self, CgroupContext target) CONTRACT_reapCgroupRecursively;
#define LOOPC_BaseKillPlugin__reapCgroupRecursively_1 \
  __CPROVER_assigns(__begin2, reaped, g_side_effects, ghost_errno, g_reaps, g_pos_pids) \
  __CPROVER_loop_invariant(__begin2.i <= __begin2.n && __end2.i == __begin2.n && __begin2.n <= VEC_MAX && reaped >= 0 && reaped <= KILL_BUDGET && \
      g_reaps <= KILL_BUDGET && __CPROVER_loop_entry(g_reaps) <= KILL_BUDGET && __CPROVER_loop_entry(reaped) >= 0 && __CPROVER_loop_entry(reaped) <= KILL_BUDGET && \
      (int64_t)__CPROVER_loop_entry(g_reaps) - (int64_t)__CPROVER_loop_entry(reaped) >= 0 && \
      (int64_t)g_reaps - (int64_t)reaped >= (int64_t)__CPROVER_loop_entry(g_reaps) - (int64_t)__CPROVER_loop_entry(reaped)) \
  __CPROVER_decreases(__begin2.n - __begin2.i)
#define LOOPC_BaseKillPlugin__reapCgroupRecursively_2 \
  __CPROVER_assigns(__begin2, reaped, g_side_effects, ghost_errno, g_reaps, g_pos_pids) \
  __CPROVER_loop_invariant(__begin2.i <= __begin2.n && __end2.i == __begin2.n && __begin2.n <= VEC_MAX && reaped >= 0 && reaped <= KILL_BUDGET && \
      g_reaps <= KILL_BUDGET && __CPROVER_loop_entry(g_reaps) <= KILL_BUDGET && __CPROVER_loop_entry(reaped) >= 0 && __CPROVER_loop_entry(reaped) <= KILL_BUDGET && \
      (int64_t)__CPROVER_loop_entry(g_reaps) - (int64_t)__CPROVER_loop_entry(reaped) >= 0 && \
      (int64_t)g_reaps - (int64_t)reaped >= (int64_t)__CPROVER_loop_entry(g_reaps) - (int64_t)__CPROVER_loop_entry(reaped)) \
  __CPROVER_decreases(__begin2.n - __begin2.i)

/* ---- tryToKillCgroup ---- */
uint64_t g_ctl_writes; _Bool g_kill_file_written; int64_t g_pids_current; _Bool g_pids_current_ok;
int BaseKillPlugin__dumpMemoryStat(BaseKillPlugin *self, CgroupContext target)
{ __CPROVER_assert(target == g_victim, "memory.stat dumped for the victim"); return nondet_int(); }
maybe_Unit Fs__writeFreezeAt(Fs_DirFd fd, int v)
{
  __CPROVER_assert(CG_OF_FD(fd) == g_victim, "cgroup.freeze is written in the victim's directory only"); /*@C01*/
  g_ctl_writes = g_ctl_writes + 1; g_side_effects = g_side_effects + 1;
  return nondet_maybe_Unit();
}
maybe_int64_t Fs__readPidsCurrentAt(Fs_DirFd fd)
{
  maybe_int64_t r = nondet_maybe_i64(); __CPROVER_assume(!r.ok || (r.val >= 0 && r.val <= KILL_BUDGET));
  g_pids_current_ok = r.ok; g_pids_current = r.val; return r;
}
maybe__Bool Fs__readIsPopulatedAt(Fs_DirFd fd) { return nondet_maybe_bool(); }
maybe_Unit Fs__writeKillAt(Fs_DirFd fd)
{
  __CPROVER_assert(CG_OF_FD(fd) == g_victim, "cgroup.kill is written in the victim's directory only"); /*@C01*/
  g_ctl_writes = g_ctl_writes + 1; g_side_effects = g_side_effects + 1;
  maybe_Unit r = nondet_maybe_Unit();
  if (r.ok) g_kill_file_written = 1;
  return r;
}
int ext__getMsSince(tp_t t) { int r = nondet_int(); __CPROVER_assume(r >= 0); return r; }
void ext__sleep_for(dur_s_t d) { }

maybe_int BaseKillPlugin__tryToKillCgroup(BaseKillPlugin *self, CgroupContext target, str_t killUuid, _Bool dry, BaseKillPlugin_KillCgroupStats *stats)
  __CPROVER_requires(__CPROVER_is_fresh(self, sizeof(*self)) && __CPROVER_is_fresh(stats, sizeof(*stats)) && target == g_victim && WITHIN(g_victim, g_victim))
  __CPROVER_requires(g_victim_path == (str_t)g_victim && XA_WF && ghost_exc == 0 && g_kill_ok == 0 && g_kill_calls == 0 && !g_kill_file_written && TP_VALID(g_last_now))
  __CPROVER_requires(g_xa_sets[XA_OOMS_T] == 0 && g_xa_sets[XA_OOMS_U] == 0 && g_xa_sets[XA_KILL_T] == 0 && g_xa_sets[XA_KILL_U] == 0 &&
                     g_xa_sets[XA_UUID_T] == 0 && g_xa_sets[XA_UUID_U] == 0 && g_side_effects <= (1UL << 40) && g_reaps == 0)
  __CPROVER_assigns(*stats, XA_ASSIGNS, g_kill_calls, g_kill_ok, g_procs_fd, g_procs_open, ghost_errno, g_ctl_writes, g_kill_file_written,
                    g_pids_current, g_pids_current_ok, g_last_now, g_reaps, g_pos_pids)
  /* dry run: reports one "kill", touches nothing */ /*@C04*/
  __CPROVER_ensures(dry ? (__CPROVER_return_value.ok && __CPROVER_return_value.val == 1 && g_side_effects == __CPROVER_old(g_side_effects) &&
                           g_kill_calls == 0 && g_ctl_writes == __CPROVER_old(g_ctl_writes) && g_xa_sets[XA_UUID_T] == 0 && g_xa_sets[XA_OOMS_T] == 0 &&
                           g_xa_sets[XA_KILL_T] == 0) : 1)
  /* wet run: uuid and ooms always recorded (once each, both names) */ /*@C17*/
  __CPROVER_ensures(!dry ? (g_xa_sets[XA_UUID_T] == 1 && g_xa_sets[XA_UUID_U] == 1 && g_xa_written_str[XA_UUID_T] == killUuid && g_xa_written_str[XA_UUID_U] == killUuid &&
                            g_xa_sets[XA_OOMS_T] == 1 && g_xa_sets[XA_OOMS_U] == 1 && g_xa_written[XA_OOMS_T] == XA_BASE(XA_OOMS_T) + 1 &&
                            g_xa_written[XA_OOMS_U] == XA_BASE(XA_OOMS_U) + 1) : 1)
  /* wet, signal path: the result is the number of successful SIGKILLs, and oomd_kill grew by exactly that */ /*@C17*/
  __CPROVER_ensures((!dry && !self->kernelKill_) ? (__CPROVER_return_value.ok && (uint64_t)__CPROVER_return_value.val == g_kill_ok &&
                            g_xa_sets[XA_KILL_T] == 1 && g_xa_sets[XA_KILL_U] == 1 &&
                            g_xa_written[XA_KILL_T] == XA_BASE(XA_KILL_T) + __CPROVER_return_value.val &&
                            g_xa_written[XA_KILL_U] == XA_BASE(XA_KILL_U) + __CPROVER_return_value.val && g_ctl_writes == __CPROVER_old(g_ctl_writes)) : 1)
  /* wet, cgroup.kill path: no signal is sent by oomd; once cgroup.kill was written the attempt counts as a kill (>= 1) */ /*@C01,C17*/
  __CPROVER_ensures((!dry && self->kernelKill_) ? (g_kill_calls == 0 &&
                            ((__CPROVER_return_value.ok && g_kill_file_written) ? (__CPROVER_return_value.val >= 1 &&
                                 __CPROVER_return_value.val == ((g_pids_current_ok && g_pids_current > 0) ? (int)g_pids_current : 1)) : 1) &&
                            (!g_kill_file_written ? (!__CPROVER_return_value.ok || __CPROVER_return_value.val == 0) : 1)) : 1)
  __CPROVER_ensures(ghost_exc == 0);
#define LOOPC_BaseKillPlugin__tryToKillCgroup_1 \
  __CPROVER_assigns(tries, nrKilled, lastNrKilled, g_kill_calls, g_kill_ok, g_side_effects, g_procs_fd, g_procs_open, ghost_errno, g_ts_str, g_ts_val, g_pos_pids) \
  __CPROVER_loop_invariant(0 <= tries && tries <= 10 && lastNrKilled >= 0 && nrKilled >= lastNrKilled && (uint64_t)nrKilled == g_kill_ok) \
  __CPROVER_loop_invariant(g_kill_ok <= g_kill_calls && g_kill_calls <= KILL_BUDGET) \
  __CPROVER_decreases(tries)

#define HAVOC_KILL() do { HAVOC(g_victim); HAVOC(g_victim_path); HAVOC(g_side_effects); HAVOC(g_kill_calls); HAVOC(g_kill_ok); HAVOC(g_pos_pids); HAVOC(g_procs_fd); \
  __CPROVER_havoc_object(g_xa_present); __CPROVER_havoc_object(g_xa_numeric); __CPROVER_havoc_object(g_xa_prev); __CPROVER_havoc_object(g_xa_sets); __CPROVER_havoc_object(g_xa_written); __CPROVER_havoc_object(g_xa_written_str); HAVOC(g_gx_str); HAVOC(g_gx_val); \
  HAVOC(g_ts_str); HAVOC(g_ts_val); HAVOC(g_ctl_writes); HAVOC(g_reaps); HAVOC(g_kill_file_written); HAVOC(g_last_now); HAVOC(ghost_exc); HAVOC(ghost_errno); } while (0)
#define CANARY __CPROVER_assert(0, "canary: contract precondition satisfiable and function exit reachable")
void h_tryToKillPids(void) { BaseKillPlugin *self; vec_int p; HAVOC_KILL(); BaseKillPlugin__tryToKillPids(self, p); CANARY; }
void h_getAndTryToKillPids(void) { BaseKillPlugin *self; CgroupContext t; HAVOC_KILL(); BaseKillPlugin__getAndTryToKillPids(self, t); CANARY; }
void h_getxattr(void) { BaseKillPlugin *self; str_t p, a; HAVOC_KILL(); BaseKillPlugin__getxattr(self, p, a); CANARY; }
void h_setxattr(void) { BaseKillPlugin *self; str_t p, a, v; HAVOC_KILL(); BaseKillPlugin__setxattr(self, p, a, v); CANARY; }
void h_reportKillInitiationToXattr(void) { BaseKillPlugin *self; str_t p; HAVOC_KILL(); BaseKillPlugin__reportKillInitiationToXattr(self, p); CANARY; }
void h_reportKillCompletionToXattr(void) { BaseKillPlugin *self; str_t p; int n; HAVOC_KILL(); BaseKillPlugin__reportKillCompletionToXattr(self, p, n); CANARY; }
void h_reportKillUuidToXattr(void) { BaseKillPlugin *self; str_t p, u; HAVOC_KILL(); BaseKillPlugin__reportKillUuidToXattr(self, p, u); CANARY; }
void h_reapProcess(void) { BaseKillPlugin *self; int pid; HAVOC_KILL(); BaseKillPlugin__reapProcess(self, pid); CANARY; }
void h_reapCgroupRecursively(void) { BaseKillPlugin *self; CgroupContext t; HAVOC_KILL(); BaseKillPlugin__reapCgroupRecursively(self, t); CANARY; }
void h_tryToKillCgroup(void) { BaseKillPlugin *self; CgroupContext t; str_t u; _Bool dry; BaseKillPlugin_KillCgroupStats *st; HAVOC_KILL(); BaseKillPlugin__tryToKillCgroup(self, t, u, dry, st); CANARY; }
