/* Contracts for CgroupPath (C16): prefix/pattern matching, the fs-root filter of resolveWildcard,
 * equality through the absolute path, parent of root.
 * Strings are interned handles; path components, characters and lengths are uninterpreted functions of
 * the handle, so the contracts state the documented predicate for EVERY component sequence. */
#include "common.h"
#ifndef STR__
#define STR__ ((str_t)(13133979)) /* "*" (same interning as the extractor; defined here in case the code no longer uses the literal) */
#endif
str_t __CPROVER_uninterpreted_vstr(uint64_t, uint64_t);
uint64_t __CPROVER_uninterpreted_len(str_t);
int __CPROVER_uninterpreted_chr(str_t, uint64_t);
_Bool __CPROVER_uninterpreted_starts(str_t, str_t);      /* first string begins with the second */
#define EL(v, i) __CPROVER_uninterpreted_vstr((v).vid, (i))
_Bool nondet_bool(void); uint64_t nondet_u64(void); str_t nondet_str(void); maybe_vec_str_t nondet_maybe_vec_str(void);
uint64_t g_last_i;
str_t vec_str_t__elem(uint64_t vid, uint64_t i)
{
  g_last_i = i;
  str_t s = __CPROVER_uninterpreted_vstr(vid, i);
  /* the literal "*" is the one-character string '*' (link between the interned literal and its characters) */
  __CPROVER_assume((s == STR__) == (__CPROVER_uninterpreted_len(s) == 1 && __CPROVER_uninterpreted_chr(s, 0) == '*'));
  __CPROVER_assume(__CPROVER_uninterpreted_len(s) >= 1);     /* Util::split never yields an empty component */
  return s;
}
char str_t__front(str_t s) { __CPROVER_assert(__CPROVER_uninterpreted_len(s) > 0, "UB: front() of an empty string");
  int c = __CPROVER_uninterpreted_chr(s, 0); __CPROVER_assume(c >= 0 && c <= 127); return (char)c; }
char str_t__back(str_t s) { __CPROVER_assert(__CPROVER_uninterpreted_len(s) > 0, "UB: back() of an empty string");
  int c = __CPROVER_uninterpreted_chr(s, __CPROVER_uninterpreted_len(s) - 1); __CPROVER_assume(c >= 0 && c <= 127); return (char)c; }

/* hasDescendantWithPrefixMatching(pattern): true exactly when every component up to the shorter length is
 * equal or the pattern's component is the one-whole-component wildcard "*" */
#define MATCH_AT(s, p, i) (EL((s)->cgroup_path_, (i)) == EL((p).cgroup_path_, (i)) || EL((p).cgroup_path_, (i)) == STR__)
uint64_t g_k;   /* an arbitrary component index (universal statement via one arbitrary index) */
str_t g_sk, g_pk; CgroupPath *g_selfp; uint64_t g_pvid;   /* components number g_k of the path and of the pattern (fixed by the harness) */
_Bool CgroupPath__hasDescendantWithPrefixMatching(CgroupPath *self, CgroupPath pattern)
  __CPROVER_requires(self == g_selfp && pattern.cgroup_path_.vid == g_pvid && self->cgroup_path_.n <= VEC_MAX && pattern.cgroup_path_.n <= VEC_MAX && ghost_exc == 0)
  __CPROVER_assigns(g_last_i)
  __CPROVER_ensures((__CPROVER_return_value && g_k < self->cgroup_path_.n && g_k < pattern.cgroup_path_.n) ? (g_sk == g_pk || g_pk == STR__) : 1)
  __CPROVER_ensures(!__CPROVER_return_value ? (g_last_i < self->cgroup_path_.n && g_last_i < pattern.cgroup_path_.n && !MATCH_AT(self, pattern, g_last_i)) : 1)
  __CPROVER_ensures((__CPROVER_return_value == 0 || __CPROVER_return_value == 1) && ghost_exc == 0);
#define LOOPC_CgroupPath__hasDescendantWithPrefixMatching_1 \
  __CPROVER_assigns(i, g_last_i) \
  __CPROVER_loop_invariant(i <= prefix_len && prefix_len <= self->cgroup_path_.n && prefix_len <= pattern.cgroup_path_.n && \
     (prefix_len == self->cgroup_path_.n || prefix_len == pattern.cgroup_path_.n)) \
  __CPROVER_loop_invariant(g_k < i ? (g_sk == g_pk || g_pk == STR__) : 1) \
  __CPROVER_decreases(prefix_len - i)

/* resolveWildcard: of the directories glob(3) returns, exactly those under the cgroup-fs root are kept:
 * the path IS the root, or continues after the root with '/' (a sibling whose name merely starts with the
 * root's name is not under it) */
str_t g_cur; uint64_t g_should, g_emitted; str_t g_fs;
#define UNDER_ROOT(p, fs) (__CPROVER_uninterpreted_starts((p), (fs)) && \
   (__CPROVER_uninterpreted_len(p) == __CPROVER_uninterpreted_len(fs) || __CPROVER_uninterpreted_chr((p), __CPROVER_uninterpreted_len(fs)) == '/'))
maybe_vec_str_t Fs__glob(str_t pattern, _Bool dir_only) { maybe_vec_str_t r = nondet_maybe_vec_str(); __CPROVER_assume(!r.ok || r.val.n <= VEC_MAX); return r; }
str_t vecit_str_t__op_deref(vecit_str_t it)
{
  __CPROVER_assert(it.i < it.n, "UB: vector iterator dereferenced at or past end()");
  str_t p = nondet_str();
  __CPROVER_assume(__CPROVER_uninterpreted_len(p) >= __CPROVER_uninterpreted_len(g_fs) || !__CPROVER_uninterpreted_starts(p, g_fs));
  g_cur = p;
  if (UNDER_ROOT(p, g_fs)) g_should = g_should + 1;
  return p;
}
uint64_t str_t__size(str_t s) { return __CPROVER_uninterpreted_len(s); }
uint64_t str_t__find(str_t hay, str_t needle) { uint64_t r = nondet_u64(); __CPROVER_assume((r == 0) == __CPROVER_uninterpreted_starts(hay, needle)); return r; }
_Bool Util__startsWith(str_t prefix, str_t s) { return __CPROVER_uninterpreted_starts(s, prefix); }
char str_t__op_index__uint64_t(str_t s, uint64_t i)
{ __CPROVER_assert(i <= __CPROVER_uninterpreted_len(s), "UB: string operator[] beyond size()");   /* s[size()] is the terminator */
  int c = __CPROVER_uninterpreted_chr(s, i); __CPROVER_assume(c >= 0 && c <= 127); return (char)c; }
str_t str_t__substr(str_t s, uint64_t pos) { if (pos > __CPROVER_uninterpreted_len(s)) ghost_exc = EXC_out_of_range; return nondet_str(); }
str_t str_t__substr__2(str_t s, uint64_t pos, uint64_t n) { if (pos > __CPROVER_uninterpreted_len(s)) ghost_exc = EXC_out_of_range; return nondet_str(); }
void vec_CgroupPath__emplace_back(vec_CgroupPath *v, str_t fs, str_t rel)
{
  __CPROVER_assert(UNDER_ROOT(g_cur, g_fs), "only directories under the cgroup-fs root (at a '/' boundary) are returned"); /*@C16*/
  __CPROVER_assert(fs == g_fs, "the resolved path keeps the configured cgroup-fs root");
  g_emitted = g_emitted + 1; __CPROVER_assume(v->n < VEC_MAX); v->n = v->n + 1;
}
str_t CgroupPath__absolutePath(CgroupPath *p);
vec_CgroupPath CgroupPath__resolveWildcard(CgroupPath *self)
  __CPROVER_requires(__CPROVER_is_fresh(self, sizeof(*self)) && self->cgroup_fs_ == g_fs && g_should == 0 && g_emitted == 0 && ghost_exc == 0)
  __CPROVER_assigns(g_cur, g_should, g_emitted, ghost_exc)
  __CPROVER_ensures(g_emitted == g_should && __CPROVER_return_value.n == g_emitted)   /* exactly the directories under the root */ /*@C16*/
  __CPROVER_ensures(ghost_exc == 0);
#define LOOPC_CgroupPath__resolveWildcard_1 \
  __CPROVER_assigns(__begin1, ret, g_cur, g_should, g_emitted, ghost_exc) \
  __CPROVER_loop_invariant(__begin1.i <= __begin1.n && __end1.i == __begin1.n && __begin1.n <= VEC_MAX && g_emitted == g_should && ret.n == g_emitted && \
                           g_emitted <= __begin1.i && ghost_exc == 0) \
  __CPROVER_decreases(__begin1.n - __begin1.i)

/* equality is equality of absolute paths; parent of the root is an error, not UB */
str_t CgroupPath__absolutePath(CgroupPath *p) { return p->absolute_cache_; }
_Bool CgroupPath__op_eq(CgroupPath *self, CgroupPath other)
  __CPROVER_requires(__CPROVER_is_fresh(self, sizeof(*self)))
  __CPROVER_assigns()
  __CPROVER_ensures((__CPROVER_return_value != 0) == (self->absolute_cache_ == other.absolute_cache_));
_Bool CgroupPath__op_ne(CgroupPath *self, CgroupPath other)
  __CPROVER_requires(__CPROVER_is_fresh(self, sizeof(*self)))
  __CPROVER_assigns()
  __CPROVER_ensures((__CPROVER_return_value != 0) == (self->absolute_cache_ != other.absolute_cache_));
_Bool CgroupPath__isRoot(CgroupPath *self)
  __CPROVER_requires(__CPROVER_is_fresh(self, sizeof(*self)))
  __CPROVER_assigns()
  __CPROVER_ensures((__CPROVER_return_value != 0) == (self->cgroup_path_.n == 0));
uint64_t g_recomputes;
void CgroupPath__recomputeReadCache(CgroupPath *p) { g_recomputes = g_recomputes + 1; }
CgroupPath CgroupPath__getParent(CgroupPath *self)
  __CPROVER_requires(__CPROVER_is_fresh(self, sizeof(*self)) && self->cgroup_path_.n <= VEC_MAX && ghost_exc == 0 && g_recomputes == 0)
  __CPROVER_assigns(ghost_exc, g_recomputes)
  __CPROVER_ensures(self->cgroup_path_.n == 0 ? ghost_exc == EXC_invalid_argument
      : (ghost_exc == 0 && __CPROVER_return_value.cgroup_path_.n == self->cgroup_path_.n - 1 && __CPROVER_return_value.cgroup_fs_ == self->cgroup_fs_ && g_recomputes == 1));
#define CANARY __CPROVER_assert(0, "canary: contract precondition satisfiable and function exit reachable")
void h_hasDescendant(void) { CgroupPath obj; CgroupPath pat; HAVOC(g_k); HAVOC(g_last_i); HAVOC(ghost_exc); g_selfp = &obj; g_pvid = pat.cgroup_path_.vid;
  g_sk = EL(obj.cgroup_path_, g_k); g_pk = EL(pat.cgroup_path_, g_k); CgroupPath__hasDescendantWithPrefixMatching(&obj, pat); CANARY; }
void h_resolveWildcard(void) { CgroupPath *self; HAVOC(g_fs); HAVOC(g_should); HAVOC(g_emitted); HAVOC(ghost_exc); CgroupPath__resolveWildcard(self); CANARY; }
void h_op_eq(void) { CgroupPath *self; CgroupPath o; CgroupPath__op_eq(self, o); CANARY; }
void h_op_ne(void) { CgroupPath *self; CgroupPath o; CgroupPath__op_ne(self, o); CANARY; }
void h_isRoot(void) { CgroupPath *self; CgroupPath__isRoot(self); CANARY; }
void h_getParent(void) { CgroupPath *self; HAVOC(ghost_exc); HAVOC(g_recomputes); CgroupPath__getParent(self); CANARY; }
