/* Contracts for raw cgroup-file readers (C10 robustness, C15 values, C03 kill preference):
 *   readMemcurrentAt / readSwapCurrentAt / readPidsCurrentAt: error or the integer on the first line; an EMPTY
 *       file (any number of lines >= 0 is possible) must not be indexed (undefined behaviour);
 *   readMinMaxLowHighFromLines and readMemlowAt / readMemhighAt / readMemmaxAt / readMemminAt / readSwapMaxAt: a limit
 *       file must be EXACTLY one line - anything else is an error result and line 0 is never indexed; the line
 *       "max" is INT64_MAX, any other line is its number; the file opened is the one the accessor is named after;
 *   readMemhightmpFromLines / readMemhightmpAt: exactly one line of exactly two space-separated tokens, else an error result
 *       and no token is indexed; token 0 "max" is INT64_MAX, otherwise token 0's number (not the whole line's);
 *   readMempressureAt / readIopressureAt: open memory.pressure / io.pressure of THIS cgroup, parse exactly those lines for the
 *       requested kind (some/full) once, return the parser's verdict unchanged; unreadable -> error, parser not consulted;
 *   readRootMempressure: /proc/pressure/memory, and /proc/mempressure only when that is unreadable; error only when both are;
 *   readRootIopressure: /proc/pressure/io only;
 *   readControllersAt: unreadable or empty cgroup.controllers is an error result; otherwise the tokens of its first line;
 *   readMemoryOomGroupAt: true exactly when the file is the single line "1"; never indexes;
 *   readKillPreferenceAt: PREFER if either prefer attribute is present (checked before any avoid attribute),
 *       AVOID if only an avoid attribute is, NORMAL otherwise; an xattr probe error is an error result. */
#include "common.h"
_Bool nondet_bool(void); int64_t nondet_i64(void); maybe_vec_str_t nondet_lines(void); maybe__Bool nondet_maybe_bool(void); str_t nondet_str(void);
#define TOKENS_VID 555     /* identity of the vector Util::split returns; file contents are some other vector */
maybe_vec_str_t g_lines; int64_t g_first_num; str_t g_opened;
_Bool g_single_one;      /* the file consists of exactly the one line "1" */
maybe_Fs_Fd Fs_Fd__openat(Fs_DirFd d, str_t name) { g_opened = name; maybe_Fs_Fd r; r.ok = nondet_bool(); r.err = 0; return r; }
maybe_vec_str_t Fs__readFileByLine__maybe_Fs_Fd(maybe_Fs_Fd fd)
{
  maybe_vec_str_t r = nondet_lines();
  __CPROVER_assume(!r.ok || (r.val.n <= VEC_MAX && r.val.vid != TOKENS_VID));
  if (!fd.ok) r.ok = 0;
  g_lines = r;
  return r;
}
str_t g_first_line;     /* the text of line 0 (compared with "max" by the limit readers) */
str_t g_tok0; uint64_t g_ntok; int64_t g_tok_num;   /* memory.high.tmp: first token of the line, number of space-separated tokens, the number printed as token 0 */
str_t vec_str_t__elem(uint64_t vid, uint64_t i) { if (vid == TOKENS_VID) return i == 0 ? g_tok0 : (str_t)(88000 + i); return i == 0 ? g_first_line : (str_t)(77000 + i); }
vec_str_t Util__split(str_t s, char c)
{
  __CPROVER_assert(s == g_first_line && c == ' ', "the only line is split at spaces");
  vec_str_t v; v.vid = TOKENS_VID; v.n = g_ntok; return v;
}
int64_t ext__stoll(str_t s) { return s == g_tok0 ? g_tok_num : g_first_num; }      /* the number printed on that line (kernel prints decimal integers: ASSUMED) */
vec_str_t vec_str_t__from_list1(str_t a) { vec_str_t v; v.n = 1; v.vid = 424242; return v; }
_Bool vec_str_t__op_eq(vec_str_t a, vec_str_t b) { __CPROVER_assert(b.vid == 424242, "compared with the literal list {\"1\"}"); return g_single_one && a.n == 1; }
#define READER_CONTRACT(file) \
  __CPROVER_requires(ghost_exc == 0) \
  __CPROVER_assigns(g_lines, g_opened) \
  __CPROVER_ensures(g_opened == (file)) \
  /* unavailable (unreadable OR EMPTY) -> error result; otherwise the first line's number */ /*@C10,C15*/ \
  __CPROVER_ensures((!g_lines.ok || g_lines.val.n == 0) ? !__CPROVER_return_value.ok : (__CPROVER_return_value.ok && __CPROVER_return_value.val == g_first_num)) \
  __CPROVER_ensures(ghost_exc == 0)
maybe_int64_t Fs__readMemcurrentAt(Fs_DirFd dirfd) READER_CONTRACT(STR_memory_current);
maybe_int64_t Fs__readSwapCurrentAt(Fs_DirFd dirfd) READER_CONTRACT(STR_memory_swap_current);
maybe_int64_t Fs__readPidsCurrentAt(Fs_DirFd dirfd) READER_CONTRACT(STR_pids_current);
maybe__Bool Fs__readMemoryOomGroupAt(Fs_DirFd dirfd)
  __CPROVER_requires(ghost_exc == 0)
  __CPROVER_assigns(g_lines, g_opened)
  __CPROVER_ensures(g_opened == STR_memory_oom_group)
  __CPROVER_ensures(!g_lines.ok ? !__CPROVER_return_value.ok
                                : (__CPROVER_return_value.ok && (__CPROVER_return_value.val != 0) == (g_single_one && g_lines.val.n == 1))) /*@C10,C15*/
  __CPROVER_ensures(ghost_exc == 0);

/* limit files: memory.low / high / max / min / swap.max */
#define LIMIT_VALUE (g_first_line == STR_max ? INT64_MAX : g_first_num)
maybe_int64_t Fs__readMinMaxLowHighFromLines(vec_str_t lines)
  __CPROVER_requires(ghost_exc == 0 && lines.n <= VEC_MAX && lines.vid != TOKENS_VID && g_tok0 != g_first_line)
  __CPROVER_assigns()
  /* exactly one line or an error; "max" is the largest value, anything else the printed number */ /*@C10,C15,C18*/
  __CPROVER_ensures(lines.n != 1 ? !__CPROVER_return_value.ok : (__CPROVER_return_value.ok && __CPROVER_return_value.val == LIMIT_VALUE))
  __CPROVER_ensures(ghost_exc == 0);
#define LIMIT_READER_CONTRACT(file) \
  __CPROVER_requires(ghost_exc == 0 && g_tok0 != g_first_line) \
  __CPROVER_assigns(g_lines, g_opened) \
  __CPROVER_ensures(g_opened == (file)) \
  /* unreadable, empty or multi-line -> error result; otherwise the limit on the only line */ /*@C10,C15,C18*/ \
  __CPROVER_ensures((!g_lines.ok || g_lines.val.n != 1) ? !__CPROVER_return_value.ok : (__CPROVER_return_value.ok && __CPROVER_return_value.val == LIMIT_VALUE)) \
  __CPROVER_ensures(ghost_exc == 0)
maybe_int64_t Fs__readMemlowAt(Fs_DirFd dirfd) LIMIT_READER_CONTRACT(STR_memory_low);
maybe_int64_t Fs__readMemhighAt(Fs_DirFd dirfd) LIMIT_READER_CONTRACT(STR_memory_high);
maybe_int64_t Fs__readMemmaxAt(Fs_DirFd dirfd) LIMIT_READER_CONTRACT(STR_memory_max);
maybe_int64_t Fs__readMemminAt(Fs_DirFd dirfd) LIMIT_READER_CONTRACT(STR_memory_min);
maybe_int64_t Fs__readSwapMaxAt(Fs_DirFd dirfd) LIMIT_READER_CONTRACT(STR_memory_swap_max);

/* memory.high.tmp: "<limit> <timeout>" */
#define TMP_VALUE (g_tok0 == STR_max ? INT64_MAX : g_tok_num)
maybe_int64_t Fs__readMemhightmpFromLines(vec_str_t lines)
  __CPROVER_requires(ghost_exc == 0 && lines.n <= VEC_MAX && lines.vid != TOKENS_VID && g_ntok <= VEC_MAX && g_tok0 != g_first_line)
  __CPROVER_assigns()
  /*@C10,C15,C18*/
  __CPROVER_ensures((lines.n != 1 || g_ntok != 2) ? !__CPROVER_return_value.ok : (__CPROVER_return_value.ok && __CPROVER_return_value.val == TMP_VALUE))
  __CPROVER_ensures(ghost_exc == 0);
maybe_int64_t Fs__readMemhightmpAt(Fs_DirFd dirfd)
  __CPROVER_requires(ghost_exc == 0 && g_ntok <= VEC_MAX && g_tok0 != g_first_line)
  __CPROVER_assigns(g_lines, g_opened)
  __CPROVER_ensures(g_opened == STR_memory_high_tmp)
  /*@C10,C15,C18*/
  __CPROVER_ensures((!g_lines.ok || g_lines.val.n != 1 || g_ntok != 2) ? !__CPROVER_return_value.ok : (__CPROVER_return_value.ok && __CPROVER_return_value.val == TMP_VALUE))
  __CPROVER_ensures(ghost_exc == 0);

/* PSI files of a cgroup: the wrappers choose the file and hand its lines and the requested kind (some/full) to the parser */
maybe_ResourcePressure g_psi; uint64_t g_psi_vid, g_psi_n; Fs_PressureType g_psi_type; uint64_t g_psi_calls;
maybe_ResourcePressure Fs__readRespressureFromLines(vec_str_t lines, Fs_PressureType type)
{ g_psi_calls = g_psi_calls + 1; g_psi_vid = lines.vid; g_psi_n = lines.n; g_psi_type = type; return g_psi; }
#define PSI_READER_CONTRACT(file) \
  __CPROVER_requires(ghost_exc == 0 && g_psi_calls == 0) \
  __CPROVER_assigns(g_lines, g_opened, g_psi_vid, g_psi_n, g_psi_type, g_psi_calls) \
  __CPROVER_ensures(g_opened == (file)) \
  /* unreadable -> error result without parsing; else exactly the parser's verdict on THIS file's lines for the requested kind */ /*@C10,C15,C08*/ \
  __CPROVER_ensures(!g_lines.ok ? (!__CPROVER_return_value.ok && g_psi_calls == 0) \
      : (g_psi_calls == 1 && g_psi_vid == g_lines.val.vid && g_psi_n == g_lines.val.n && g_psi_type == type && \
         __CPROVER_return_value.ok == g_psi.ok && (g_psi.ok ? __CPROVER_return_value.val == g_psi.val : 1))) \
  __CPROVER_ensures(ghost_exc == 0)
maybe_ResourcePressure Fs__readMempressureAt(Fs_DirFd dirfd, Fs_PressureType type) PSI_READER_CONTRACT(STR_memory_pressure);
maybe_ResourcePressure Fs__readIopressureAt(Fs_DirFd dirfd, Fs_PressureType type) PSI_READER_CONTRACT(STR_io_pressure);

/* root PSI: /proc/pressure/memory with the pre-4.20 /proc/mempressure as fallback; /proc/pressure/io */
maybe_vec_str_t g_f1, g_f2;      /* contents of the primary file asked for, and of /proc/mempressure */
str_t g_primary; uint64_t g_r1, g_r2;
maybe_vec_str_t Fs__readFileByLine__str_t_char(str_t path)
{
  if (path == STR__proc_mempressure) { g_r2 = g_r2 + 1; return g_f2; }
  __CPROVER_assert(path == STR__proc_pressure_memory || path == STR__proc_pressure_io, "only the PSI files of the root are read");
  g_primary = path; g_r1 = g_r1 + 1; return g_f1;
}
#define PSI_VERDICT_ON(f) (g_psi_calls == 1 && g_psi_vid == (f).val.vid && g_psi_n == (f).val.n && g_psi_type == type && \
         __CPROVER_return_value.ok == g_psi.ok && (g_psi.ok ? __CPROVER_return_value.val == g_psi.val : 1))
maybe_ResourcePressure Fs__readRootMempressure(Fs_PressureType type)
  __CPROVER_requires(ghost_exc == 0 && g_psi_calls == 0 && g_r1 == 0 && g_r2 == 0)
  __CPROVER_assigns(g_primary, g_r1, g_r2, g_psi_vid, g_psi_n, g_psi_type, g_psi_calls)
  __CPROVER_ensures(g_primary == STR__proc_pressure_memory && g_r1 == 1)
  /* the modern file wins; the legacy file is consulted only when the modern one is unreadable; error only when both are */ /*@C10,C15,C08*/
  __CPROVER_ensures(g_f1.ok ? (g_r2 == 0 && PSI_VERDICT_ON(g_f1))
                            : (g_r2 == 1 && (g_f2.ok ? PSI_VERDICT_ON(g_f2) : (!__CPROVER_return_value.ok && g_psi_calls == 0))))
  __CPROVER_ensures(ghost_exc == 0);
maybe_ResourcePressure Fs__readRootIopressure(Fs_PressureType type)
  __CPROVER_requires(ghost_exc == 0 && g_psi_calls == 0 && g_r1 == 0 && g_r2 == 0)
  __CPROVER_assigns(g_primary, g_r1, g_r2, g_psi_vid, g_psi_n, g_psi_type, g_psi_calls)
  __CPROVER_ensures(g_primary == STR__proc_pressure_io && g_r1 == 1 && g_r2 == 0) /*@C10,C15,C08*/
  __CPROVER_ensures(g_f1.ok ? PSI_VERDICT_ON(g_f1) : (!__CPROVER_return_value.ok && g_psi_calls == 0))
  __CPROVER_ensures(ghost_exc == 0);

/* cgroup.controllers: the space-separated names on the first line */
maybe_vec_str_t Fs__readControllersAt(Fs_DirFd dirfd)
  __CPROVER_requires(ghost_exc == 0 && g_ntok <= VEC_MAX)
  __CPROVER_assigns(g_lines, g_opened)
  __CPROVER_ensures(g_opened == STR_cgroup_controllers)
  /* unreadable or EMPTY -> error result (line 0 never indexed); otherwise the tokens of line 0 */ /*@C10,C15*/
  __CPROVER_ensures((!g_lines.ok || g_lines.val.n == 0) ? !__CPROVER_return_value.ok
      : (__CPROVER_return_value.ok && __CPROVER_return_value.val.vid == TOKENS_VID && __CPROVER_return_value.val.n == g_ntok))
  __CPROVER_ensures(ghost_exc == 0);

/* xattr probes */
maybe__Bool g_tp, g_up, g_ta, g_ua;   /* trusted.oomd_prefer, user.oomd_prefer, trusted.oomd_avoid, user.oomd_avoid */
uint64_t g_probes;
maybe__Bool Fs__hasxattrAt(Fs_DirFd fd, str_t name)
{
  g_probes = g_probes + 1;
  if (name == STR_trusted_oomd_prefer) return g_tp;
  if (name == STR_user_oomd_prefer) return g_up;
  if (name == STR_trusted_oomd_avoid) return g_ta;
  __CPROVER_assert(name == STR_user_oomd_avoid, "only the four oomd preference attributes are probed");
  return g_ua;
}
#define HAS(m) ((m).ok && (m).val)
maybe_KillPreference Fs__readKillPreferenceAt(Fs_DirFd path)
  __CPROVER_requires(ghost_exc == 0)
  __CPROVER_assigns(g_probes)
  /* when all four probes can be answered: prefer wins over avoid whatever the namespace */ /*@C03,C15*/
  __CPROVER_ensures((g_tp.ok && g_up.ok && g_ta.ok && g_ua.ok)
      ? (__CPROVER_return_value.ok && __CPROVER_return_value.val == ((g_tp.val || g_up.val) ? KillPreference__PREFER
                                                                  : ((g_ta.val || g_ua.val) ? KillPreference__AVOID : KillPreference__NORMAL))) : 1)
  /* a prefer mark that can be read always yields PREFER-or-error, never AVOID / NORMAL */
  __CPROVER_ensures((__CPROVER_return_value.ok && (HAS(g_tp) || (g_tp.ok && HAS(g_up)))) ? __CPROVER_return_value.val == KillPreference__PREFER : 1)
  __CPROVER_ensures(ghost_exc == 0);
#define CANARY __CPROVER_assert(0, "canary: contract precondition satisfiable and function exit reachable")
#define HAVOC_FR() do { HAVOC(g_lines);  HAVOC(g_first_num); HAVOC(g_first_line); HAVOC(g_tok0); HAVOC(g_ntok); HAVOC(g_tok_num); HAVOC(g_single_one); HAVOC(g_tp); HAVOC(g_up); HAVOC(g_ta); HAVOC(g_ua); HAVOC(ghost_exc); __CPROVER_assume(g_tok0 != g_first_line); } while (0)
void h_readMemcurrentAt(void) { Fs_DirFd d; HAVOC_FR(); Fs__readMemcurrentAt(d); CANARY; }
void h_readSwapCurrentAt(void) { Fs_DirFd d; HAVOC_FR(); Fs__readSwapCurrentAt(d); CANARY; }
void h_readPidsCurrentAt(void) { Fs_DirFd d; HAVOC_FR(); Fs__readPidsCurrentAt(d); CANARY; }
void h_readMemoryOomGroupAt(void) { Fs_DirFd d; HAVOC_FR(); Fs__readMemoryOomGroupAt(d); CANARY; }
void h_readKillPreferenceAt(void) { Fs_DirFd d; HAVOC_FR(); Fs__readKillPreferenceAt(d); CANARY; }
void h_readMinMaxLowHighFromLines(void) { vec_str_t l; HAVOC_FR(); Fs__readMinMaxLowHighFromLines(l); CANARY; }
void h_readMemlowAt(void) { Fs_DirFd d; HAVOC_FR(); Fs__readMemlowAt(d); CANARY; }
void h_readMemhighAt(void) { Fs_DirFd d; HAVOC_FR(); Fs__readMemhighAt(d); CANARY; }
void h_readMemmaxAt(void) { Fs_DirFd d; HAVOC_FR(); Fs__readMemmaxAt(d); CANARY; }
void h_readMemminAt(void) { Fs_DirFd d; HAVOC_FR(); Fs__readMemminAt(d); CANARY; }
void h_readSwapMaxAt(void) { Fs_DirFd d; HAVOC_FR(); Fs__readSwapMaxAt(d); CANARY; }
void h_readMemhightmpFromLines(void) { vec_str_t l; HAVOC_FR(); Fs__readMemhightmpFromLines(l); CANARY; }
void h_readMemhightmpAt(void) { Fs_DirFd d; HAVOC_FR(); Fs__readMemhightmpAt(d); CANARY; }
void h_readMempressureAt(void) { Fs_DirFd d; Fs_PressureType t; HAVOC_FR(); HAVOC(g_psi); g_psi_calls = 0; Fs__readMempressureAt(d, t); CANARY; }
void h_readIopressureAt(void) { Fs_DirFd d; Fs_PressureType t; HAVOC_FR(); HAVOC(g_psi); g_psi_calls = 0; Fs__readIopressureAt(d, t); CANARY; }
#define HAVOC_ROOT() do { HAVOC_FR(); HAVOC(g_psi); HAVOC(g_f1); HAVOC(g_f2); g_psi_calls = 0; g_r1 = 0; g_r2 = 0; } while (0)
void h_readRootMempressure(void) { Fs_PressureType t; HAVOC_ROOT(); Fs__readRootMempressure(t); CANARY; }
void h_readRootIopressure(void) { Fs_PressureType t; HAVOC_ROOT(); Fs__readRootIopressure(t); CANARY; }
void h_readControllersAt(void) { Fs_DirFd d; HAVOC_FR(); Fs__readControllersAt(d); CANARY; }
