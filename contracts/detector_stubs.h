/* detector_stubs.h — boundary shared by the simple detectors: the list of matched cgroups
 * (any length) and per-element bookkeeping.  ASSUMED. */
#include "common.h"
uint64_t g_vec_n, g_elems;
CgroupContext g_cur_elem;
vec_CgroupContext nondet_vec_CgroupContext(void);
CgroupContext nondet_CgroupContext(void);
_Bool nondet_bool(void);
str_t nondet_str(void);

vec_CgroupContext OomdContext__addToCacheAndGet__uset_CgroupPath(OomdContext ctx, uset_CgroupPath cgroups)
{
  vec_CgroupContext v = nondet_vec_CgroupContext();
  __CPROVER_assume(v.n <= VEC_MAX);
  g_vec_n = v.n;
  return v;
}
CgroupContext vec_CgroupContext__elem(uint64_t vid, uint64_t i)
{
  CgroupContext c = nondet_CgroupContext();
  g_cur_elem = c;
  g_elems = g_elems + 1;
  return c;
}
#define BYTES_OK(x) ((x) >= 0 && (x) <= (1L << 56))   /* byte counts reported by the kernel */
