/* Fs::hasxattrAt and Fs::glob (C11: a ruleset instance exists exactly for the matching cgroups that CARRY the filter
 * attribute; C16: wildcard resolution yields exactly the existing DIRECTORIES that match; C03/C15: prefer/avoid marks are
 * read as "attribute present").
 *   hasxattrAt: true iff the attribute exists - whatever its value, the empty value included (setfattr -n NAME dir);
 *               false iff it is absent (ENODATA) or the file system has no xattrs (EOPNOTSUPP); any other errno is an error.
 *   glob(pattern, dir_only): the matches glob(3) reports, and with dir_only only those that ARE directories - GLOB_ONLYDIR
 *               is merely a hint to glob(3) (it may still return files: literal components, DT_UNKNOWN), so each match is
 *               re-checked; "no match" is an empty list, not an error; the glob buffer is released on every path. */
#include "common.h"
_Bool nondet_bool(void); int nondet_int(void); int64_t nondet_i64(void); uint64_t nondet_u64g(void);
#define ENODATA_NO 61
#define EOPNOTSUPP_NO 95
/* ---- fgetxattr ---- */
_Bool g_attr_exists; int g_attr_errno; Fs_DirFd g_dir; str_t g_attr; uint64_t g_xa_calls;
int Fs_Fd__fd__(Fs_DirFd d) { return (int)d; }
str_t str_t__c_str(str_t s) { return s; }
int64_t ext__fgetxattr(int fd, str_t name, int buf, uint64_t size)
{
  __CPROVER_assert(fd == (int)g_dir && name == g_attr && buf == 0 && size == 0, "the attribute's presence is probed on the given directory, without a buffer");
  g_xa_calls = g_xa_calls + 1;
  if (g_attr_exists) { int64_t len = nondet_i64(); __CPROVER_assume(len >= 0 && len <= 65536); return len; }    /* its length: 0 for an empty value */
  ghost_errno = g_attr_errno;
  return -1;
}
maybe__Bool Fs__hasxattrAt(Fs_DirFd dirfd, str_t attr)
  __CPROVER_requires(dirfd == g_dir && attr == g_attr && ghost_exc == 0 && g_xa_calls == 0 && g_attr_errno != 0)
  __CPROVER_assigns(ghost_errno, g_xa_calls)
  __CPROVER_ensures(g_xa_calls == 1)
  /* present (any value, the empty one included) -> true */ /*@C11,C03,C15*/
  __CPROVER_ensures(g_attr_exists ? (__CPROVER_return_value.ok && __CPROVER_return_value.val == 1) : 1)
  /* absent, or no xattr support -> false; anything else is an error, not "absent" */
  __CPROVER_ensures(!g_attr_exists ? ((g_attr_errno == ENODATA_NO || g_attr_errno == EOPNOTSUPP_NO) ? (__CPROVER_return_value.ok && __CPROVER_return_value.val == 0)
                                                                                                  : !__CPROVER_return_value.ok) : 1)
  __CPROVER_ensures(ghost_exc == 0);

/* ---- glob ---- */
#define GLOB_ERR_F (1 << 0)
#define GLOB_NOSORT_F (1 << 2)
#define GLOB_BRACE_F (1 << 10)
#define GLOB_ONLYDIR_F (1 << 13)
#define GLOB_NOSPACE_RC 1
#define GLOB_ABORTED_RC 2
#define GLOB_NOMATCH_RC 3
int g_glob_rc; uint64_t g_glob_n, g_glob_calls, g_glob_frees; int g_glob_flags; str_t g_pattern; _Bool g_dir_only;
uint64_t g_w, g_kept, g_w_kept; uint64_t g_cur_i;
str_t __CPROVER_uninterpreted_match(uint64_t); _Bool __CPROVER_uninterpreted_is_dir(str_t);
#define MATCH(i) __CPROVER_uninterpreted_match(i)
#define IS_DIR(p) __CPROVER_uninterpreted_is_dir(p)
glob_t glob_t__ctor0(void) { glob_t g; g.gl_pathc = nondet_u64g(); g.gl_pathv = nondet_int(); return g; }   /* `glob_t globbuf;`: uninitialised */
int ext__glob(str_t pattern, int flags, int errfunc, glob_t *buf)
{
  __CPROVER_assert(pattern == g_pattern && errfunc == 0, "the given pattern is globbed");
  g_glob_calls = g_glob_calls + 1; g_glob_flags = flags;
  buf->gl_pathc = (g_glob_rc == 0) ? g_glob_n : 0; buf->gl_pathv = 5;
  return g_glob_rc;
}
void ext__globfree(glob_t *buf) { g_glob_frees = g_glob_frees + 1; }
str_t str_t__char_at(int pathv, uint64_t i) { __CPROVER_assert(pathv == 5 && i < g_glob_n, "UB: gl_pathv indexed beyond gl_pathc"); g_cur_i = i; return MATCH(i); }   /* gl_pathv[i] */
_Bool Fs__isDir(str_t p) { return IS_DIR(p); }
void vec_str_t__emplace_back(vec_str_t *v, str_t p)
{
  __CPROVER_assert(p == MATCH(g_cur_i), "the path appended is the match being visited");
  __CPROVER_assert(!g_dir_only || IS_DIR(p), "with dir_only, only directories are returned (GLOB_ONLYDIR is a hint: every match is re-checked)"); /*@C16,C11*/
  if (g_cur_i == g_w) g_w_kept = g_w_kept + 1;
  g_kept = g_kept + 1; __CPROVER_assume(v->n < VEC_MAX); v->n = v->n + 1;
}
maybe_vec_str_t Fs__glob(str_t pattern, _Bool dir_only)
  __CPROVER_requires(pattern == g_pattern && (dir_only != 0) == (g_dir_only != 0) && (dir_only == 0 || dir_only == 1) && ghost_exc == 0 && g_glob_n <= VEC_MAX &&
                     g_glob_calls == 0 && g_glob_frees == 0 && g_kept == 0 && g_w_kept == 0 && g_glob_rc >= 0)
  __CPROVER_assigns(g_glob_calls, g_glob_frees, g_glob_flags, g_kept, g_w_kept, g_cur_i)
  /* one glob(3), errors reported (GLOB_ERR), brace patterns on, ONLYDIR hint exactly when dir_only; buffer always released */
  __CPROVER_ensures(g_glob_calls == 1 && g_glob_frees == 1 && g_glob_flags == (GLOB_ERR_F | GLOB_NOSORT_F | GLOB_BRACE_F | (g_dir_only ? GLOB_ONLYDIR_F : 0)))
  /* "nothing matched" is an empty answer; out of memory / read error are errors */ /*@C16,C10*/
  __CPROVER_ensures((__CPROVER_return_value.ok != 0) == (g_glob_rc == 0 || g_glob_rc == GLOB_NOMATCH_RC))
  __CPROVER_ensures((__CPROVER_return_value.ok && g_glob_rc == GLOB_NOMATCH_RC) ? __CPROVER_return_value.val.n == 0 : 1)
  /* every match is returned once - with dir_only, exactly the matches that are directories */ /*@C16,C11*/
  __CPROVER_ensures(g_glob_rc == 0 ? (__CPROVER_return_value.val.n == g_kept &&
                                      (g_w < g_glob_n ? g_w_kept == ((!g_dir_only || IS_DIR(MATCH(g_w))) ? 1 : 0) : g_w_kept == 0)) : 1)
  __CPROVER_ensures(ghost_exc == 0);
_Bool g_w_is_dir;
#define LOOPC_Fs__glob_1 \
  __CPROVER_assigns(i, ret, g_kept, g_w_kept, g_cur_i) \
  __CPROVER_loop_invariant(i <= globbuf.gl_pathc && globbuf.gl_pathc == g_glob_n && globbuf.gl_pathv == 5 && ret.n == g_kept && g_kept <= i) \
  __CPROVER_loop_invariant(g_w_kept == ((i > g_w && (!g_dir_only || g_w_is_dir)) ? 1 : 0)) \
  __CPROVER_decreases(globbuf.gl_pathc - i)
#define CANARY __CPROVER_assert(0, "canary: contract precondition satisfiable and function exit reachable")
void h_hasxattrAt(void) { HAVOC(g_attr_exists); HAVOC(g_attr_errno); HAVOC(g_dir); HAVOC(g_attr); HAVOC(ghost_exc); HAVOC(ghost_errno); g_xa_calls = 0; Fs__hasxattrAt(g_dir, g_attr); CANARY; }
void h_glob(void) { HAVOC(g_glob_rc); HAVOC(g_glob_n); HAVOC(g_pattern); HAVOC(g_dir_only); HAVOC(g_w); HAVOC(ghost_exc); g_glob_calls = 0; g_glob_frees = 0; g_kept = 0; g_w_kept = 0;
  g_w_is_dir = IS_DIR(MATCH(g_w)); Fs__glob(g_pattern, g_dir_only); CANARY; }
