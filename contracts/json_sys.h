/* C view of jsoncpp's iterator (ASSUMED): position in an array/object value */
typedef struct jsonit_t { int doc; uint64_t i; uint64_t n; } jsonit_t;
