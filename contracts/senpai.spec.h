/* Contracts for Senpai (C18): what is written to memory.high / memory.high.tmp / memory.reclaim, and the
 * guards of immediate-backoff mode.
 *   adjust (lambda of Senpai::tick): the written limit is 4 KiB-aligned, not more than one page below the
 *       floor, and not above the ceiling unless the floor itself exceeds it;
 *   reclaim: a temporary memory.high poke is reset to max before reclaim returns successfully;
 *   writeMemhigh/resetMemhigh: only the given cgroup's fd, value as given / max;
 *   validatePressure: max(avg10, avg60) of memory AND of io `some` strictly below their targets;
 *   validateSwap: no swap, or effective swap utilisation BELOW swap_threshold. */
#include "common.h"
_Bool nondet_bool(void); int64_t nondet_i64(void); opt__Bool nondet_opt_bool(void); opt_int64_t nondet_opt_i64(void); maybe_Unit nondet_maybe_unit(void);
opt_ResourcePressure nondet_opt_rp(void); opt_double nondet_opt_double(void); str_t nondet_str(void);
CgroupContext g_cg;                 /* the cgroup Senpai is working on (matched by its `cgroup` argument) */
uint64_t g_high_writes, g_reclaim_writes, g_resets; int64_t g_last_high_value, g_prev_high_value; _Bool g_last_high_is_tmp; int64_t g_last_tmp_secs; int64_t g_reclaim_value;
_Bool g_w_ok;        /* whether the most recent write to a control file succeeded (false: the cgroup is gone) */
opt_int64_t g_floor, g_ceil; opt__Bool g_has_tmp, g_has_reclaim;
SystemContext g_sys; opt_int64_t g_swap_max; opt_double g_swap_util; opt_ResourcePressure g_mem_some, g_io_some; opt_int64_t g_usage;
Fs_DirFd CgroupContext__fd(CgroupContext c) { return (Fs_DirFd)c; }
CgroupPath CgroupContext__cgroup(CgroupContext c) { return (CgroupPath)c; }
OomdContext CgroupContext__oomd_ctx(CgroupContext c) { return (OomdContext)0; }
SystemContext *OomdContext__getSystemContext(OomdContext c) { return &g_sys; }
opt_int64_t CgroupContext__effective_swap_max(CgroupContext c) { return g_swap_max; }
opt_double CgroupContext__effective_swap_util_pct(CgroupContext c) { return g_swap_util; }
opt_ResourcePressure CgroupContext__mem_pressure_some(CgroupContext c) { return g_mem_some; }
opt_ResourcePressure CgroupContext__io_pressure_some(CgroupContext c) { return g_io_some; }
opt_int64_t CgroupContext__current_usage(CgroupContext c) { return g_usage; }
opt__Bool Senpai__hasMemoryHighTmp(Senpai *s, CgroupContext c) { return g_has_tmp; }
opt__Bool Senpai__hasMemoryReclaim(Senpai *s, CgroupContext c) { return g_has_reclaim; }
opt_int64_t Senpai__getLimitMinBytes(Senpai *s, CgroupContext c) { return g_floor; }
opt_int64_t Senpai__getLimitMaxBytes(Senpai *s, CgroupContext c) { return g_ceil; }
static inline dur_us_t dur_us_t__from__dur_s_t(dur_s_t d) { dur_us_t r; r.us = d.s; return r; }   /* only the count of seconds is compared below */
maybe_Unit Fs__writeMemhighAt(Fs_DirFd fd, int64_t v)
{ __CPROVER_assert((CgroupContext)fd == g_cg, "memory.high is written in the targeted cgroup's directory only"); /*@C18*/
  g_high_writes = g_high_writes + 1; g_prev_high_value = g_last_high_value; g_last_high_value = v; g_last_high_is_tmp = 0; maybe_Unit r = nondet_maybe_unit(); g_w_ok = r.ok != 0; return r; }
maybe_Unit Fs__writeMemhightmpAt(Fs_DirFd fd, int64_t v, dur_us_t t)
{ __CPROVER_assert((CgroupContext)fd == g_cg, "memory.high.tmp is written in the targeted cgroup's directory only"); /*@C18*/
  g_high_writes = g_high_writes + 1; g_prev_high_value = g_last_high_value; g_last_high_value = v; g_last_high_is_tmp = 1; g_last_tmp_secs = t.us; maybe_Unit r = nondet_maybe_unit(); g_w_ok = r.ok != 0; return r; }
maybe_Unit Fs__writeMemReclaimAt(Fs_DirFd fd, int64_t v)
{ __CPROVER_assert((CgroupContext)fd == g_cg, "memory.reclaim is written in the targeted cgroup's directory only"); /*@C18*/
  g_reclaim_writes = g_reclaim_writes + 1; g_reclaim_value = v; maybe_Unit r = nondet_maybe_unit(); g_w_ok = r.ok != 0; return r; }

#define BOOL01(r) ((r) == 0 || (r) == 1)
_Bool Senpai__writeMemhigh(Senpai *self, CgroupContext cgroup_ctx, int64_t value)
  __CPROVER_requires(cgroup_ctx == g_cg && ghost_exc == 0)
  __CPROVER_assigns(g_high_writes, g_last_high_value, g_prev_high_value, g_last_high_is_tmp, g_last_tmp_secs, g_w_ok)
  __CPROVER_ensures(BOOL01(__CPROVER_return_value))
  /* "return if the cgroup is still valid": true exactly when the write went through */ /*@C18*/
  __CPROVER_ensures(g_has_tmp.has ? (__CPROVER_return_value != 0) == (g_w_ok != 0) : 1)
  __CPROVER_ensures(g_has_tmp.has ? (g_high_writes == __CPROVER_old(g_high_writes) + 1 && g_last_high_value == value && g_prev_high_value == __CPROVER_old(g_last_high_value) &&
                                     (g_last_high_is_tmp != 0) == (g_has_tmp.val != 0)) : (g_high_writes == __CPROVER_old(g_high_writes) && !__CPROVER_return_value))
  __CPROVER_ensures(ghost_exc == 0);
_Bool Senpai__resetMemhigh(Senpai *self, CgroupContext cgroup_ctx)
  __CPROVER_requires(cgroup_ctx == g_cg && ghost_exc == 0)
  __CPROVER_assigns(g_high_writes, g_last_high_value, g_prev_high_value, g_last_high_is_tmp, g_last_tmp_secs, g_resets, g_w_ok)
  __CPROVER_ensures(BOOL01(__CPROVER_return_value))
  __CPROVER_ensures(g_has_tmp.has ? (__CPROVER_return_value != 0) == (g_w_ok != 0) : 1) /*@C18*/
  __CPROVER_ensures(g_has_tmp.has ? (g_high_writes == __CPROVER_old(g_high_writes) + 1 && g_last_high_value == INT64_MAX && g_prev_high_value == __CPROVER_old(g_last_high_value) &&
                                     (g_last_high_is_tmp != 0) == (g_has_tmp.val != 0)) : (g_high_writes == __CPROVER_old(g_high_writes) && !__CPROVER_return_value))
  __CPROVER_ensures(ghost_exc == 0);
_Bool Senpai__writeMemhighTimeout(Senpai *self, CgroupContext cgroup_ctx, int64_t value, dur_ms_t timeout)
  __CPROVER_requires(cgroup_ctx == g_cg)
  __CPROVER_assigns(g_high_writes, g_last_high_value, g_prev_high_value, g_last_high_is_tmp, g_last_tmp_secs, g_w_ok)
  __CPROVER_ensures(BOOL01(__CPROVER_return_value) && g_high_writes <= __CPROVER_old(g_high_writes) + 1 && g_high_writes >= __CPROVER_old(g_high_writes))
  /* timed_invoke(writeMemhigh): the write may not have happened yet (timeout: reported as `true`); if it did, it wrote `value` */
  __CPROVER_ensures(g_high_writes == __CPROVER_old(g_high_writes) || (g_last_high_value == value && g_prev_high_value == __CPROVER_old(g_last_high_value)));

/* reclaim: through memory.reclaim when available, else a memory.high poke that is reset to max */
_Bool Senpai__reclaim(Senpai *self, CgroupContext cgroup_ctx, int64_t size)
  __CPROVER_requires(__CPROVER_is_fresh(self, sizeof(*self)) && cgroup_ctx == g_cg && ghost_exc == 0 && size >= 0 && size <= (1L << 56) &&
                     (!g_usage.has || (g_usage.val >= 0 && g_usage.val <= (1L << 56))) && g_high_writes <= (1UL << 40))
  __CPROVER_assigns(g_high_writes, g_last_high_value, g_prev_high_value, g_last_high_is_tmp, g_last_tmp_secs, g_reclaim_writes, g_reclaim_value, g_resets, g_w_ok)
  __CPROVER_ensures(BOOL01(__CPROVER_return_value))
  /* through memory.reclaim: true exactly when that write went through; a poke: true only if its last write (the reset) did,
     and - without a write timeout - false as soon as the poke itself fails (no reset is attempted on a vanished cgroup) */ /*@C18*/
  __CPROVER_ensures((g_has_reclaim.has && g_has_reclaim.val) ? (__CPROVER_return_value != 0) == (g_w_ok != 0) : 1)
  __CPROVER_ensures((!(g_has_reclaim.has && g_has_reclaim.val) && __CPROVER_return_value) ? g_w_ok : 1)
  __CPROVER_ensures((!(g_has_reclaim.has && g_has_reclaim.val) && g_usage.has && g_has_tmp.has && self->memory_high_timeout_.ms <= 0 && g_high_writes == __CPROVER_old(g_high_writes) + 1) ? (!__CPROVER_return_value && !g_w_ok) : 1)
  __CPROVER_ensures((g_has_reclaim.has && g_has_reclaim.val) ? (g_reclaim_writes == __CPROVER_old(g_reclaim_writes) + 1 && g_reclaim_value == size &&
                                                               g_high_writes == __CPROVER_old(g_high_writes)) : g_reclaim_writes == __CPROVER_old(g_reclaim_writes))
  /* a poke that reports success was followed by the reset to max (the last value written is max) */ /*@C18*/
  __CPROVER_ensures((!(g_has_reclaim.has && g_has_reclaim.val) && __CPROVER_return_value) ? (g_high_writes > __CPROVER_old(g_high_writes) && g_last_high_value == INT64_MAX &&
         /* ... and the poke itself was usage - size: exactly `size` bytes are asked back */ (g_high_writes != __CPROVER_old(g_high_writes) + 2 || g_prev_high_value == g_usage.val - size)) : 1)
  __CPROVER_ensures(ghost_exc == 0);

/* adjust */
#define PAGE_FLOOR(x) ((x) & ~(int64_t)0xFFF)
_Bool Senpai__tick__lambda_adjust(Senpai *self, CgroupContext cgroup_ctx, Senpai_CgroupState *state, double factor)
  __CPROVER_requires(__CPROVER_is_fresh(self, sizeof(*self)) && __CPROVER_is_fresh(state, sizeof(*state)) && cgroup_ctx == g_cg && ghost_exc == 0)
  __CPROVER_requires((!g_floor.has || (g_floor.val >= 0 && g_floor.val <= (1L << 56))) && (!g_ceil.has || (g_ceil.val >= 0 && g_ceil.val <= INT64_MAX)))
  __CPROVER_assigns(*state, g_high_writes, g_last_high_value, g_prev_high_value, g_last_high_is_tmp, g_last_tmp_secs, g_w_ok)
  __CPROVER_ensures(BOOL01(__CPROVER_return_value))
  __CPROVER_ensures((!g_floor.has || !g_ceil.has) ? (g_high_writes == __CPROVER_old(g_high_writes) && !__CPROVER_return_value) : 1)
  /* every limit written: 4 KiB aligned, not more than a page below the floor, not above the ceiling unless floor > ceiling */ /*@C18*/
  __CPROVER_ensures(g_high_writes > __CPROVER_old(g_high_writes)
      ? ((g_last_high_value & 0xFFF) == 0 && g_last_high_value == state->limit && g_last_high_value > g_floor.val - 4096 &&
         (g_last_high_value <= g_ceil.val || g_floor.val > g_ceil.val))
      : 1)
  __CPROVER_ensures(ghost_exc == 0);

maybe__Bool Senpai__validatePressure(Senpai *self, CgroupContext cgroup_ctx)
  __CPROVER_requires(__CPROVER_is_fresh(self, sizeof(*self)) && ghost_exc == 0)
  __CPROVER_assigns()
  __CPROVER_ensures(__CPROVER_return_value.ok == (g_mem_some.has && g_io_some.has))
  __CPROVER_ensures(__CPROVER_return_value.ok ? ((__CPROVER_return_value.val != 0) ==
        ((double)(g_mem_some.val.sec_10 < g_mem_some.val.sec_60 ? g_mem_some.val.sec_60 : g_mem_some.val.sec_10) < self->mem_pressure_pct_ &&
         (double)(g_io_some.val.sec_10 < g_io_some.val.sec_60 ? g_io_some.val.sec_60 : g_io_some.val.sec_10) < self->io_pressure_pct_)) : 1) /*@C18*/
  __CPROVER_ensures(ghost_exc == 0);
maybe__Bool Senpai__validateSwap(Senpai *self, CgroupContext cgroup_ctx)
  __CPROVER_requires(__CPROVER_is_fresh(self, sizeof(*self)) && ghost_exc == 0)
  __CPROVER_assigns()
  /* reclaim is allowed when there is no swap to protect, or while effective swap utilisation is BELOW swap_threshold */ /*@C18*/
  __CPROVER_ensures((g_sys.swaptotal == 0 || g_sys.swappiness == 0) ? (__CPROVER_return_value.ok && __CPROVER_return_value.val)
      : (!g_swap_max.has ? !__CPROVER_return_value.ok
         : (g_swap_max.val == 0 ? (__CPROVER_return_value.ok && __CPROVER_return_value.val)
            : (!g_swap_util.has ? !__CPROVER_return_value.ok
               : (__CPROVER_return_value.ok && (__CPROVER_return_value.val != 0) == (g_swap_util.val < self->swap_threshold_))))))
  __CPROVER_ensures(ghost_exc == 0);

/* prototypes of the parts of tick() that are not under contract (tick itself is extracted only to lift `adjust`) */
opt_int64_t Senpai__readMemhigh(Senpai *s, CgroupContext c);
opt_Senpai_CgroupState Senpai__initializeCgroup(Senpai *s, CgroupContext c);
opt_dur_us_t Senpai__getPressureTotalSome(Senpai *s, CgroupContext c);
str_t CgroupPath__absolutePath(CgroupPath p);
#define HAVOC_SP() do { HAVOC(g_cg); HAVOC(g_high_writes); HAVOC(g_reclaim_writes); HAVOC(g_last_high_value); HAVOC(g_floor); HAVOC(g_ceil); HAVOC(g_has_tmp); \
  HAVOC(g_has_reclaim); HAVOC(g_sys); HAVOC(g_swap_max); HAVOC(g_swap_util); HAVOC(g_mem_some); HAVOC(g_io_some); HAVOC(g_usage); HAVOC(ghost_exc); HAVOC(g_w_ok); } while (0)
#define CANARY __CPROVER_assert(0, "canary: contract precondition satisfiable and function exit reachable")
void h_writeMemhigh(void) { Senpai *s; CgroupContext c; int64_t v; HAVOC_SP(); Senpai__writeMemhigh(s, c, v); CANARY; }
void h_resetMemhigh(void) { Senpai *s; CgroupContext c; HAVOC_SP(); Senpai__resetMemhigh(s, c); CANARY; }
void h_reclaim(void) { Senpai *s; CgroupContext c; int64_t v; HAVOC_SP(); Senpai__reclaim(s, c, v); CANARY; }
void h_adjust(void) { Senpai *s; CgroupContext c; Senpai_CgroupState *st; double f; HAVOC_SP(); Senpai__tick__lambda_adjust(s, c, st, f); CANARY; }
void h_validatePressure(void) { Senpai *s; CgroupContext c; HAVOC_SP(); Senpai__validatePressure(s, c); CANARY; }
void h_validateSwap(void) { Senpai *s; CgroupContext c; HAVOC_SP(); Senpai__validateSwap(s, c); CANARY; }
