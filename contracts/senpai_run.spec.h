/* Senpai::run (C10 "never hangs", C18 "state is keyed by cgroup identity"): the merge-join of the cgroups resolved
 * this tick (increasing id) with the tracked map (increasing id).
 *   - the loop TERMINATES for every input, in particular when a resolved cgroup has no id this tick (it was removed
 *     between resolution and the id read): __CPROVER_decreases on (resolved left + tracked left);
 *   - tick()/tick_immediate_backoff() are only ever handed the state stored under the cgroup's own id;
 *   - an untracked cgroup is initialised, never ticked; iterators are never dereferenced at end().
 * Map iterators are modelled by their distance to end() (stable under insert-before and erase-current). */
#include "common.h"
_Bool nondet_bool(void); uint64_t nondet_u64(void);
int __CPROVER_uninterpreted_id_has(CgroupContext); uint64_t __CPROVER_uninterpreted_id_val(CgroupContext);
_Bool g_cur_has; uint64_t g_cur_id;      /* the id of the resolved cgroup the merge is looking at */
_Bool g_tick_failed; uint64_t g_tick_pos;   /* the last tick reported its cgroup invalid, and for which tracked entry */
opt_uint64_t CgroupContext__id(CgroupContext c) { opt_uint64_t o; o.has = __CPROVER_uninterpreted_id_has(c) != 0; o.val = __CPROVER_uninterpreted_id_val(c); g_cur_has = o.has; g_cur_id = o.val; return o; }   /* fixed within the tick (C15) */
vec_CgroupContext OomdContext__reverseSort__uset_CgroupPath_lambda_t(OomdContext ctx, uset_CgroupPath cgs, opt_uint64_t (*key)(CgroupContext)) { vec_CgroupContext v; __CPROVER_assume(v.n <= VEC_MAX); return v; }
vecrit_CgroupContext vec_CgroupContext__crbegin(vec_CgroupContext v) { vecrit_CgroupContext it; it.vid = v.vid; it.i = v.n; it.n = v.n; return it; }
vecrit_CgroupContext vec_CgroupContext__crend(vec_CgroupContext v) { vecrit_CgroupContext it; it.vid = v.vid; it.i = 0; it.n = v.n; return it; }
CgroupContext __CPROVER_uninterpreted_rc(uint64_t vid, uint64_t i);
CgroupContext vec_CgroupContext__elem(uint64_t vid, uint64_t i) { return __CPROVER_uninterpreted_rc(vid, i); }
/* the tracked map: `pos` of an iterator is its distance to end() */
uint64_t g_tracked_left;                      /* entries from begin() to end() at entry */
uint64_t __CPROVER_uninterpreted_tkey(uint64_t rem);
pair_uint64_t_Senpai_CgroupState g_slot; uint64_t g_slot_rem;
typedef mapit_pair_uint64_t_Senpai_CgroupState tit_t;
tit_t umap_uint64_t_Senpai_CgroupState__begin(umap_uint64_t_Senpai_CgroupState m) { tit_t it; it.map = m; it.pos = g_tracked_left; it.n = 0; it.valid = 1; return it; }
tit_t umap_uint64_t_Senpai_CgroupState__end(umap_uint64_t_Senpai_CgroupState m) { tit_t it; it.map = m; it.pos = 0; it.n = 0; it.valid = 1; return it; }
_Bool mapit_pair_uint64_t_Senpai_CgroupState__op_eq(tit_t a, tit_t b) { return a.pos == b.pos; }
pair_uint64_t_Senpai_CgroupState *tracked_entry(tit_t it)
{ __CPROVER_assert(it.pos > 0, "UB: dereference of tracked_cgroups_.end()");
  if (g_slot_rem != it.pos) { pair_uint64_t_Senpai_CgroupState fresh; g_slot = fresh; g_slot_rem = it.pos; }
  g_slot.first = __CPROVER_uninterpreted_tkey(it.pos); return &g_slot; }
#define mapit_pair_uint64_t_Senpai_CgroupState__op_arrow(it) (*tracked_entry(it))
uint64_t g_erased, g_inserted;
tit_t umap_uint64_t_Senpai_CgroupState__erase(umap_uint64_t_Senpai_CgroupState m, tit_t it)
{ __CPROVER_assert(it.pos > 0, "UB: erase(end())"); g_erased = g_erased + 1; it.pos = it.pos - 1; return it; }
void umap_uint64_t_Senpai_CgroupState__erase_range(umap_uint64_t_Senpai_CgroupState m, tit_t a, tit_t b) { __CPROVER_assert(b.pos == 0, "erases up to end()"); g_erased = g_erased + a.pos; }
#define ERASE_PICK(_1, _2, _3, NAME, ...) NAME
#define umap_uint64_t_Senpai_CgroupState__erase(...) ERASE_PICK(__VA_ARGS__, umap_uint64_t_Senpai_CgroupState__erase_range, umap_uint64_t_Senpai_CgroupState__erase1)(__VA_ARGS__)
tit_t umap_uint64_t_Senpai_CgroupState__erase1(umap_uint64_t_Senpai_CgroupState m, tit_t it)
{ __CPROVER_assert(it.pos > 0, "UB: erase(end())");
  /* the state of a cgroup that is still there and still valid is KEPT from tick to tick: an entry is dropped only when its
     cgroup is gone (its id is smaller than the next resolved one's) or when its own tick just reported the cgroup invalid */
  __CPROVER_assert((g_cur_has && __CPROVER_uninterpreted_tkey(it.pos) < g_cur_id) || (g_tick_failed && g_tick_pos == it.pos),
                   "a tracked cgroup's state is dropped only when the cgroup is gone or its tick failed"); /*@C18*/
  g_erased = g_erased + 1; it.pos = it.pos - 1; return it; }
void umap_uint64_t_Senpai_CgroupState__emplace_hint(umap_uint64_t_Senpai_CgroupState m, tit_t hint, uint64_t id, Senpai_CgroupState st)
{ __CPROVER_assert(hint.pos == 0 || id < __CPROVER_uninterpreted_tkey(hint.pos), "inserted before the hint: the map stays ordered by id"); g_inserted = g_inserted + 1; }
tit_t ext__next(tit_t it) { __CPROVER_assert(it.pos > 0, "UB: std::next(end())"); it.pos = it.pos - 1; return it; }
/* per-cgroup work (under contract in unit senpai): here only WHO is handed WHICH state */
uint64_t g_inits, g_ticks;
opt_Senpai_CgroupState Senpai__initializeCgroup(Senpai *self, CgroupContext c) { g_inits = g_inits + 1; opt_Senpai_CgroupState o; o.has = nondet_bool(); return o; }
static inline _Bool tick_common(CgroupContext c, Senpai_CgroupState *st)
{ __CPROVER_assert(st == &g_slot.second && __CPROVER_uninterpreted_id_has(c) != 0 && g_slot.first == __CPROVER_uninterpreted_id_val(c), "a cgroup is driven only from the state stored under its own id"); /*@C18*/
  g_ticks = g_ticks + 1; _Bool r = nondet_bool(); g_tick_failed = !r; g_tick_pos = g_slot_rem; return r; }
_Bool Senpai__tick(Senpai *self, CgroupContext c, Senpai_CgroupState *st) { return tick_common(c, st); }
_Bool Senpai__tick_immediate_backoff(Senpai *self, CgroupContext c, Senpai_CgroupState *st) { return tick_common(c, st); }
#define LOOPC_Senpai__run_1 \
  __CPROVER_assigns(resolvedIt, trackedIt, g_slot, g_slot_rem, g_erased, g_inserted, g_inits, g_ticks, g_cur_has, g_cur_id, g_tick_failed, g_tick_pos) \
  __CPROVER_loop_invariant(resolvedIt.vid == resolved_cgroups.vid && resolvedIt.n == resolved_cgroups.n && resolvedIt.i <= resolved_cgroups.n && trackedIt.pos <= g_tracked_left && ghost_exc == 0) \
  __CPROVER_loop_invariant(g_erased >= __CPROVER_loop_entry(g_erased) && g_erased - __CPROVER_loop_entry(g_erased) <= g_tracked_left && g_erased - __CPROVER_loop_entry(g_erased) + trackedIt.pos <= g_tracked_left) \
  /* every pass consumes a resolved cgroup or a tracked entry: the tick cannot hang */ \
  __CPROVER_decreases(resolvedIt.i + trackedIt.pos)
PluginRet Senpai__run(Senpai *self, OomdContext ctx)
  __CPROVER_requires(__CPROVER_is_fresh(self, sizeof(*self)) && ghost_exc == 0 && g_tracked_left <= VEC_MAX && self->log_ticks_ >= 0 && self->log_ticks_ < (1L << 62) && g_erased <= (1UL << 40))
  __CPROVER_assigns(self->log_ticks_, g_slot, g_slot_rem, g_erased, g_inserted, g_inits, g_ticks, g_cur_has, g_cur_id, g_tick_failed, g_tick_pos)
  __CPROVER_ensures(__CPROVER_return_value == PluginRet__CONTINUE && ghost_exc == 0) /*@C10*/
  /* every tracked entry was either kept by a tick or erased */
  __CPROVER_ensures(g_erased - __CPROVER_old(g_erased) <= g_tracked_left) /*@C18*/;
#define CANARY __CPROVER_assert(0, "canary: contract precondition satisfiable and function exit reachable")
void h_run(void) { Senpai *s; OomdContext c; HAVOC(ghost_exc); HAVOC(g_tracked_left); HAVOC(g_slot); HAVOC(g_slot_rem); HAVOC(g_erased); HAVOC(g_inserted); HAVOC(g_inits); HAVOC(g_ticks); Senpai__run(s, c); CANARY; }
