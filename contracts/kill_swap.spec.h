/* KillSwapUsage (C09, C10): eligible = swap usage above `threshold`; rank by swap usage, or - with
 * biased_swap_kill - by the swap usage in excess of swapRatio * memory protection. */
#define KEY_T int64_t
#define KEY_GT(x, y) ((x) > (y))
#define KEY_OK(x) 1
int64_t __CPROVER_uninterpreted_key_i64(lambda_t, CgroupContext);
#define lambda_t__op_call__CgroupContext(k, c) __CPROVER_uninterpreted_key_i64(k, c)
KillSwapUsage g_plugin;   /* the plugin instance whose closures are used */
#define g_self (&g_plugin)
int __CPROVER_uninterpreted_swap_has(CgroupContext); int64_t __CPROVER_uninterpreted_swap_val(CgroupContext);
int __CPROVER_uninterpreted_prot_has(CgroupContext); int64_t __CPROVER_uninterpreted_prot_val(CgroupContext);
#define SWAP_HAS(c) (__CPROVER_uninterpreted_swap_has(c) != 0)
#define SWAP_VAL(c) __CPROVER_uninterpreted_swap_val(c)
#define PROT_HAS(c) (__CPROVER_uninterpreted_prot_has(c) != 0)
#define PROT_VAL(c) __CPROVER_uninterpreted_prot_val(c)
/* byte counts from the kernel: 0 .. 2^62 */
opt_int64_t CgroupContext__swap_usage(CgroupContext c) { opt_int64_t o; o.has = SWAP_HAS(c); o.val = SWAP_VAL(c); __CPROVER_assume(o.val >= 0 && o.val <= (1L << 62)); return o; }
opt_int64_t CgroupContext__memory_protection(CgroupContext c) { opt_int64_t o; o.has = PROT_HAS(c); o.val = PROT_VAL(c); __CPROVER_assume(o.val >= 0 && o.val <= (1L << 62)); return o; }
#define SWAP_OR0(c) (SWAP_HAS(c) ? SWAP_VAL(c) : (int64_t)0)
#define SWAP_LOW(c) F2I_i64(F_MUL_f(g_plugin.swapRatio_, (float)PROT_VAL(c)))                     /* swapRatio * protection, as int64 */
#define DIFF128(c) ((__int128)SWAP_VAL(c) - (__int128)SWAP_LOW(c))            /* spec arithmetic is exact */
#define EXCESS(c) (DIFF128(c) > 0 ? DIFF128(c) : (__int128)0)
#define DOC_KEY(c) ((g_plugin.biasedSwapKill_ != 0 && PROT_HAS(c)) ? EXCESS(c) : (__int128)SWAP_OR0(c))
#define DOC_PRED(c) (SWAP_OR0(c) > g_plugin.threshold_)
/* getSwapExcess() reads swap_usage().value(): defined only if the cgroup has a swap usage (or no protection) */
#define KEY_DEFINED(c) (g_plugin.biasedSwapKill_ == 0 || !PROT_HAS(c) || SWAP_HAS(c))
#ifdef UNIT_SORT
#define KEYF(k, c) __CPROVER_uninterpreted_key_i64(k, c)
#else
#define KEYF(k, c) DOC_KEY(c)            /* = KillSwapUsage__rankForKilling__lambda_sortDescWithKillPrefs(this, c), by that lambda's contract below */
#define KEY_PRE(k, c) KEY_DEFINED(c)
#endif
#include "kill_sort.h"
#include "kill_sort_proofs.h"
#define LAMBDA_ID__KillSwapUsage__rankForKilling__lambda_sortDescWithKillPrefs ((lambda_t)2)
#define SWAPLOW_RANGE(c) (SWAP_LOW(c) >= -(1L << 61) && SWAP_LOW(c) <= (1L << 62))   /* ASSUMED: the float product converts into int64 range (else UB) */
int64_t KillSwapUsage__getSwapExcess(KillSwapUsage *self, CgroupContext cgroup_ctx)
  __CPROVER_requires(self == g_self && ghost_exc == 0 && SWAPLOW_RANGE(cgroup_ctx))
  __CPROVER_requires(SWAP_VAL(cgroup_ctx) >= 0 && SWAP_VAL(cgroup_ctx) <= (1L << 62))
  __CPROVER_assigns(ghost_exc)
  __CPROVER_ensures(!PROT_HAS(cgroup_ctx) ? (ghost_exc == 0 && __CPROVER_return_value == SWAP_OR0(cgroup_ctx))
                    : (SWAP_HAS(cgroup_ctx) ? (ghost_exc == 0 && __CPROVER_return_value == EXCESS(cgroup_ctx)) : ghost_exc == EXC_bad_optional_access)) /*@C09,C10*/;
_Bool KillSwapUsage__rankForKilling__lambda_filter(KillSwapUsage *self, CgroupContext cgroup_ctx)
  __CPROVER_requires(self == g_self && ghost_exc == 0) __CPROVER_assigns()
  __CPROVER_ensures((__CPROVER_return_value != 0) == DOC_PRED(cgroup_ctx) && ghost_exc == 0) /*@C09*/;
int64_t KillSwapUsage__rankForKilling__lambda_sortDescWithKillPrefs(KillSwapUsage *self, CgroupContext cgroup_ctx)
  __CPROVER_requires(self == g_self && ghost_exc == 0 && SWAPLOW_RANGE(cgroup_ctx) && KEY_DEFINED(cgroup_ctx))
  __CPROVER_requires(SWAP_VAL(cgroup_ctx) >= 0 && SWAP_VAL(cgroup_ctx) <= (1L << 62))
  __CPROVER_assigns(ghost_exc)
  __CPROVER_ensures(__CPROVER_return_value == DOC_KEY(cgroup_ctx) && ghost_exc == 0) /*@C09,C10*/;
#define PRED_OF(c) KillSwapUsage__rankForKilling__lambda_filter(g_self, c)
DEFINE_GHOST_FILTER(KillSwapUsage__rankForKilling__lambda_filter, PRED_OF)
#define DOC_BETTER(x, f) (PREF(x) > PREF(f) || (PREF(x) == PREF(f) && DOC_KEY(x) > DOC_KEY(f)))
vec_CgroupContext KillSwapUsage__rankForKilling(KillSwapUsage *self, OomdContext *ctx, vec_CgroupContext cgroups)
  __CPROVER_requires(self == g_self && cgroups.n <= VEC_MAX && ghost_exc == 0)
  __CPROVER_requires(g_plugin.threshold_ >= 0)     /* class invariant from init(): parseSizeOrPercent yields a non-negative threshold (C12) */
  __CPROVER_assigns(g_copied, g_sorted, g_copy_vid, g_copy_src)
  __CPROVER_ensures(__CPROVER_return_value.n <= cgroups.n && ghost_exc == 0)
  __CPROVER_ensures(__CPROVER_return_value.n == 0 || (g_fs0 < cgroups.n && vec_CgroupContext__elem(__CPROVER_return_value.vid, 0) == ELEM(cgroups.vid, g_fs0) && DOC_PRED(ELEM(cgroups.vid, g_fs0)))) /*@C09*/
  __CPROVER_ensures(g_fw >= cgroups.n || !DOC_PRED(ELEM(cgroups.vid, g_fw)) ||
                    (__CPROVER_return_value.n > 0 && !DOC_BETTER(ELEM(cgroups.vid, g_fw), vec_CgroupContext__elem(__CPROVER_return_value.vid, 0)))) /*@C09*/;
/* ---- init(): SwapTotal / MemTotal are 64-bit byte counts; the percent base of `threshold` and the protection
 * bias act at exactly those values (C09: "Thresholds and ratios act at exactly the configured value for 64-bit
 * byte counts") ---- */
_Bool g_args_has_loc, g_mi_ok, g_mi_has_swap, g_mi_has_mem, g_reg_threshold, g_reg_biased; int64_t g_mi_swap, g_mi_mem, g_thr_base; str_t g_args_loc, g_mi_path;
#define ARGS ((umap_str_t_str_t)11)
#define MEMINFO ((umap_str_t_int64_t)12)
mapit_pair_str_t_str_t umap_str_t_str_t__find(umap_str_t_str_t m, str_t k)
{ mapit_pair_str_t_str_t it; it.map = m; it.n = umap_str_t_str_t__size(m); it.valid = 1; it.pos = (k == STR_meminfo_location && g_args_has_loc) ? 0 : (k == STR_meminfo_location ? it.n : nondet_u64());
  __CPROVER_assume(it.pos <= it.n && (!g_args_has_loc || it.n > 0)); return it; }
str_t umap_str_t_str_t__at(umap_str_t_str_t m, str_t k) { if (!(k == STR_meminfo_location && g_args_has_loc)) ghost_exc = EXC_out_of_range; return g_args_loc; }
void umap_str_t_str_t__erase(umap_str_t_str_t m, str_t k) { }
maybe_umap_str_t_int64_t Fs__getMeminfo(str_t path)
{ maybe_umap_str_t_int64_t r; g_mi_path = path; r.ok = g_mi_ok; r.val = MEMINFO; r.err = g_mi_ok ? 0 : 2; return r; }
uint64_t umap_str_t_int64_t__count(umap_str_t_int64_t m, str_t k) { return k == STR_SwapTotal ? (g_mi_has_swap ? 1 : 0) : (k == STR_MemTotal ? (g_mi_has_mem ? 1 : 0) : 0); }
int64_t g_mi_other;
int64_t *umap_str_t_int64_t__at_ref(umap_str_t_int64_t m, str_t k) { return k == STR_SwapTotal ? &g_mi_swap : (k == STR_MemTotal ? &g_mi_mem : &g_mi_other); }
/* the closure registered for "threshold" carries the percent base it captured */
#define lambda_bind__KillSwapUsage__init__lambda_addArgumentCustom(p) (g_thr_base = *(p), (lambda_t)7)
void PluginArgParser__addArgumentCustom__str_t_int64_t_function_t(PluginArgParser p, str_t name, int64_t *dest, function_t fn)
{ if (name == STR_threshold && dest == &g_plugin.threshold_ && fn == (function_t)7) g_reg_threshold = 1; }
void PluginArgParser__addArgument__str_t__Bool(PluginArgParser p, str_t name, _Bool *dest) { if (name == STR_biased_swap_kill && dest == &g_plugin.biasedSwapKill_) g_reg_biased = 1; }
int nondet_int(void);
int BaseKillPlugin__init(KillSwapUsage *self, umap_str_t_str_t args, PluginConstructionContext c) { return nondet_int(); }
#define MI_SWAP ((g_mi_ok && g_mi_has_swap) ? g_mi_swap : (int64_t)0)
int KillSwapUsage__init(KillSwapUsage *self, umap_str_t_str_t args, PluginConstructionContext context)
  __CPROVER_requires(self == g_self && args == ARGS && ghost_exc == 0 && !g_reg_threshold && !g_reg_biased)
  __CPROVER_requires(g_mi_swap >= 0 && g_mi_swap <= (1L << 62) && g_mi_mem >= 0 && g_mi_mem <= (1L << 62))   /* kB counts * 1024 */
  __CPROVER_assigns(g_plugin.swapRatio_, g_reg_threshold, g_reg_biased, g_thr_base, g_mi_path)
  /* meminfo is read from the configured location, else /proc/meminfo */
  __CPROVER_ensures(g_mi_path == (g_args_has_loc ? g_args_loc : STR__proc_meminfo))
  /* `threshold` percentages are relative to the full 64-bit SwapTotal */
  __CPROVER_ensures(g_reg_threshold && g_thr_base == MI_SWAP) /*@C09*/
  /* protection bias ratio = SwapTotal / MemTotal of the full 64-bit values */
  __CPROVER_ensures((g_mi_ok && g_mi_has_mem && g_mi_mem > 0) ? __CPROVER_equal(g_plugin.swapRatio_, F_DIV_f((float)MI_SWAP, (float)g_mi_mem))
                                                             : __CPROVER_equal(g_plugin.swapRatio_, __CPROVER_old(g_plugin.swapRatio_))) /*@C09*/
  __CPROVER_ensures(g_reg_biased && ghost_exc == 0);
/* the registered parser: Util::parseSizeOrPercent(str, &res, base) or invalid_argument */
int64_t g_parse_out; int g_parse_rc; int64_t g_parse_base;
int Util__parseSizeOrPercent(str_t s, int64_t *res, int64_t base) { g_parse_base = base; if (g_parse_rc == 0) *res = g_parse_out; return g_parse_rc; }
int64_t KillSwapUsage__init__lambda_addArgumentCustom(int64_t *swapTotal, str_t str)
  __CPROVER_requires(__CPROVER_is_fresh(swapTotal, sizeof(*swapTotal)) && ghost_exc == 0)
  __CPROVER_assigns(ghost_exc, g_parse_base)
  /* size-or-percent of SwapTotal; anything unparsable is an invalid_argument (reported by the arg parser) */
  __CPROVER_ensures(g_parse_base == *swapTotal && (g_parse_rc == 0 ? (ghost_exc == 0 && __CPROVER_return_value == g_parse_out) : ghost_exc == EXC_invalid_argument)) /*@C09*/;
void h_thr(void) { int64_t *b; str_t s; HAVOC_SORT(); HAVOC(g_parse_out); HAVOC(g_parse_rc); HAVOC(g_parse_base); KillSwapUsage__init__lambda_addArgumentCustom(b, s); CANARY; }
#define HAVOC_INIT() do { HAVOC(g_args_has_loc); HAVOC(g_mi_ok); HAVOC(g_mi_has_swap); HAVOC(g_mi_has_mem); HAVOC(g_reg_threshold); HAVOC(g_reg_biased); HAVOC(g_mi_swap); HAVOC(g_mi_mem); \
  HAVOC(g_thr_base); HAVOC(g_args_loc); HAVOC(g_mi_path); HAVOC(g_parse_out); HAVOC(g_parse_rc); HAVOC(g_parse_base); } while (0)
void h_init(void) { PluginConstructionContext c; HAVOC_SORT(); HAVOC_INIT(); HAVOC(g_plugin); KillSwapUsage__init(g_self, ARGS, c); CANARY; }
void h_excess(void) { CgroupContext c; HAVOC_SORT(); HAVOC(g_plugin); KillSwapUsage__getSwapExcess(g_self, c); CANARY; }
void h_pred(void) { CgroupContext c; HAVOC_SORT(); HAVOC(g_plugin); KillSwapUsage__rankForKilling__lambda_filter(g_self, c); CANARY; }
void h_key(void) { CgroupContext c; HAVOC_SORT(); HAVOC(g_plugin); KillSwapUsage__rankForKilling__lambda_sortDescWithKillPrefs(g_self, c); CANARY; }
void h_rank(void) { OomdContext *x; vec_CgroupContext v; HAVOC_SORT(); HAVOC(g_plugin); KillSwapUsage__rankForKilling(g_self, x, v); CANARY; }
