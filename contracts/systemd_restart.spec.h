/* SystemdRestart::run (C04): with dry=true no D-Bus restart is issued and the restart counter is not increased; the
 * action still reports its victim (kmsg record marked dry), returns STOP and pauses for post_action_delay exactly as
 * a successful wet run does. */
#include "common.h"
_Bool nondet_bool(void);
uint64_t g_restart_calls, g_stat_incs, g_kmsg_records; int64_t g_slept_s; uint64_t g_sleeps; _Bool g_restart_ok; str_t g_restart_arg;
_Bool BaseSystemdPlugin__restartService(SystemdRestart *self, str_t service) { g_restart_calls = g_restart_calls + 1; g_restart_arg = service; g_restart_ok = nondet_bool(); return g_restart_ok; }
void OOMD_KMSG_LOG__str_t_str_t(log_t msg, str_t prefix) { g_kmsg_records = g_kmsg_records + 1; }
void incrementStat(str_t key, int v) { __CPROVER_assert(key == STR_oomd_restarts && v == 1, "the restart counter is bumped by one"); g_stat_incs = g_stat_incs + 1; }
void ext__sleep_for(dur_s_t d) { g_sleeps = g_sleeps + 1; g_slept_s = d.s; }
PluginRet SystemdRestart__run(SystemdRestart *self, OomdContext ctx)
  __CPROVER_requires(__CPROVER_is_fresh(self, sizeof(*self)) && (self->dry_ == 0 || self->dry_ == 1) && ghost_exc == 0)
  __CPROVER_assigns(g_restart_calls, g_stat_incs, g_kmsg_records, g_slept_s, g_sleeps, g_restart_ok, g_restart_arg)
  /* dry: no D-Bus call, no counter */
  __CPROVER_ensures(!self->dry_ || (g_restart_calls == __CPROVER_old(g_restart_calls) && g_stat_incs == __CPROVER_old(g_stat_incs))) /*@C04*/
  /* dry: same report, STOP and the same pause as a successful wet run */
  __CPROVER_ensures(!self->dry_ || (__CPROVER_return_value == PluginRet__STOP && g_kmsg_records == __CPROVER_old(g_kmsg_records) + 1 &&
                                    g_sleeps == __CPROVER_old(g_sleeps) + 1 && g_slept_s == self->post_action_delay_)) /*@C04*/
  /* wet: exactly one restart of the configured service; counted, reported and paused iff it succeeded */
  __CPROVER_ensures(self->dry_ || (g_restart_calls == __CPROVER_old(g_restart_calls) + 1 && g_restart_arg == self->service_ &&
      (g_restart_ok ? (__CPROVER_return_value == PluginRet__STOP && g_stat_incs == __CPROVER_old(g_stat_incs) + 1 && g_kmsg_records == __CPROVER_old(g_kmsg_records) + 1 &&
                       g_sleeps == __CPROVER_old(g_sleeps) + 1 && g_slept_s == self->post_action_delay_)
                    : (__CPROVER_return_value == PluginRet__CONTINUE && g_stat_incs == __CPROVER_old(g_stat_incs) && g_sleeps == __CPROVER_old(g_sleeps))))) /*@C04*/
  __CPROVER_ensures(ghost_exc == 0);
#define CANARY __CPROVER_assert(0, "canary: contract precondition satisfiable and function exit reachable")
void h_run(void) { SystemdRestart *s; OomdContext c; HAVOC(g_restart_calls); HAVOC(g_stat_incs); HAVOC(g_kmsg_records); HAVOC(g_slept_s); HAVOC(g_sleeps); HAVOC(g_restart_ok); HAVOC(g_restart_arg); HAVOC(ghost_exc);
  SystemdRestart__run(s, c); CANARY; }
