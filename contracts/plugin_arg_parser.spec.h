/* PluginArgParser::parse (C12 "rejected cleanly or honoured exactly"): a plugin's arguments are accepted iff every
 * required argument is given, every given argument is known to the plugin, and every registered conversion accepted
 * its text; on success each given argument was converted exactly once.  "Some required argument is missing" /
 * "some given argument is unknown" are hypotheses located at an arbitrary index (g_mi / g_ui) and instantiated in
 * the element stubs, so that the loops meet them wherever they are. */
#include "common.h"
_Bool nondet_bool(void); str_t nondet_str(void);
#define ARGS ((umap_str_t_str_t)41)
#define REQ ((uset_str_t)42)
#define FUNCS ((umap_str_t_function_t)43)
int __CPROVER_uninterpreted_given(str_t); int __CPROVER_uninterpreted_known(str_t);
#define GIVEN(k) (__CPROVER_uninterpreted_given(k) != 0)
#define KNOWN(k) (__CPROVER_uninterpreted_known(k) != 0)
uint64_t g_nreq, g_nargs, g_mi, g_ui; _Bool g_req_missing, g_unknown_given; uint64_t g_fill_calls, g_fill_fails;
uint64_t uset_str_t__size(uset_str_t s) { return g_nreq; }
uint64_t umap_str_t_str_t__size(umap_str_t_str_t m) { return g_nargs; }
uint64_t umap_str_t_function_t__size(umap_str_t_function_t m) { return 1; }
str_t __CPROVER_uninterpreted_reqname(uint64_t); str_t __CPROVER_uninterpreted_argname(uint64_t); str_t __CPROVER_uninterpreted_argval(uint64_t);
str_t mapit_str_t__elem(hnd_t m, uint64_t pos)
{ str_t k = __CPROVER_uninterpreted_reqname(pos); if (!g_req_missing) __CPROVER_assume(GIVEN(k)); else if (pos == g_mi) __CPROVER_assume(!GIVEN(k)); return k; }
pair_str_t_str_t mapit_pair_str_t_str_t__elem(hnd_t m, uint64_t pos)
{ pair_str_t_str_t p; p.first = __CPROVER_uninterpreted_argname(pos); p.second = __CPROVER_uninterpreted_argval(pos);
  __CPROVER_assume(GIVEN(p.first));                          /* it is one of the given arguments */
  if (!g_unknown_given) __CPROVER_assume(KNOWN(p.first)); else if (pos == g_ui) __CPROVER_assume(!KNOWN(p.first)); return p; }
mapit_pair_str_t_str_t umap_str_t_str_t__find(umap_str_t_str_t m, str_t k)
{ mapit_pair_str_t_str_t it; it.map = m; it.n = g_nargs; it.valid = 1; it.pos = g_nargs; if (GIVEN(k)) { it.pos = 0; __CPROVER_assume(g_nargs > 0); } return it; }
typedef struct mapit_pair_str_t_function_t fit_t;
fit_t umap_str_t_function_t__find(umap_str_t_function_t m, str_t k) { fit_t it; it.map = m; it.n = 1; it.valid = 1; it.pos = KNOWN(k) ? 0 : 1; return it; }
function_t umap_str_t_function_t__at(umap_str_t_function_t m, str_t k) { if (!KNOWN(k)) ghost_exc = EXC_out_of_range; return (function_t)5; }
/* the registered conversion closure (PluginArgParser::addArgumentCustom): catches every exception of the converter
 * itself and reports it as an error value */
maybe_Unit function_t__op_call__str_t(function_t f, str_t text)
{ g_fill_calls = g_fill_calls + 1; maybe_Unit r; r.ok = nondet_bool(); r.err = r.ok ? 0 : 22; if (!r.ok) g_fill_fails = g_fill_fails + 1; return r; }
maybe_Unit noSystemError(void) { maybe_Unit r; r.ok = 1; r.err = 0; return r; }
#define IT_OK(b, e, n_) ((b).map == (e).map && (b).n == (n_) && (e).n == (n_) && (e).pos == (n_) && (b).pos <= (n_) && (b).valid && (e).valid)
#define LOOPC_PluginArgParser__parse_1 \
  __CPROVER_assigns(__begin1) \
  __CPROVER_loop_invariant(IT_OK(__begin1, __end1, g_nreq) && ghost_exc == 0 && (!g_req_missing || __begin1.pos <= g_mi)) \
  __CPROVER_decreases(g_nreq - __begin1.pos)
#define LOOPC_PluginArgParser__parse_2 \
  __CPROVER_assigns(__begin1, g_fill_calls, g_fill_fails) \
  __CPROVER_loop_invariant(IT_OK(__begin1, __end1, g_nargs) && ghost_exc == 0 && (!g_unknown_given || __begin1.pos <= g_ui)) \
  __CPROVER_loop_invariant(g_fill_fails == __CPROVER_loop_entry(g_fill_fails) && g_fill_calls == __CPROVER_loop_entry(g_fill_calls) + __begin1.pos) \
  __CPROVER_decreases(g_nargs - __begin1.pos)
maybe_Unit PluginArgParser__parse(PluginArgParser *self, umap_str_t_str_t args)
  __CPROVER_requires(__CPROVER_is_fresh(self, sizeof(*self)) && self->requiredArgs_ == REQ && self->argValueFillingFuncs_ == FUNCS && args == ARGS && ghost_exc == 0)
  __CPROVER_requires(g_nreq <= VEC_MAX && g_nargs <= VEC_MAX && (!g_req_missing || g_mi < g_nreq) && (!g_unknown_given || g_ui < g_nargs) && g_fill_calls <= (1UL << 40) && g_fill_fails <= g_fill_calls)
  __CPROVER_assigns(g_fill_calls, g_fill_fails)
  __CPROVER_ensures(ghost_exc == 0) /*@C12*/
  /* accepted iff nothing is wrong */
  __CPROVER_ensures((__CPROVER_return_value.ok != 0) == (!g_req_missing && !g_unknown_given && g_fill_fails == __CPROVER_old(g_fill_fails))) /*@C12*/
  /* accepted => every given argument converted exactly once */
  __CPROVER_ensures(!__CPROVER_return_value.ok || g_fill_calls == __CPROVER_old(g_fill_calls) + g_nargs) /*@C12*/;
/* parseUnsignedInt: the integer, or invalid_argument for a negative / unparsable text */
int __CPROVER_uninterpreted_stoi(str_t); int __CPROVER_uninterpreted_stoi_throws(str_t);
int ext__stoi(str_t s) { if (__CPROVER_uninterpreted_stoi_throws(s) != 0) ghost_exc = nondet_bool() ? EXC_invalid_argument : EXC_out_of_range; return __CPROVER_uninterpreted_stoi(s); }
int PluginArgParser__parseUnsignedInt(str_t intStr)
  __CPROVER_requires(ghost_exc == 0) __CPROVER_assigns(ghost_exc)
  __CPROVER_ensures((__CPROVER_uninterpreted_stoi_throws(intStr) != 0 || __CPROVER_uninterpreted_stoi(intStr) < 0) ? ghost_exc != 0
                    : (ghost_exc == 0 && __CPROVER_return_value == __CPROVER_uninterpreted_stoi(intStr))) /*@C12*/;
#define CANARY __CPROVER_assert(0, "canary: contract precondition satisfiable and function exit reachable")
void h_parse(void) { PluginArgParser *p; HAVOC(ghost_exc); HAVOC(g_nreq); HAVOC(g_nargs); HAVOC(g_mi); HAVOC(g_ui); HAVOC(g_req_missing); HAVOC(g_unknown_given); HAVOC(g_fill_calls); HAVOC(g_fill_fails); PluginArgParser__parse(p, ARGS); CANARY; }
void h_parseUnsignedInt(void) { str_t s; HAVOC(ghost_exc); PluginArgParser__parseUnsignedInt(s); CANARY; }
