/* Oomd::updateContext (C10, C15): the per-tick system statistics.  There is NO try/catch between this function and
 * main(): any exception here terminates the daemon.  Under contract: with /proc/swaps in the kernel's format, an
 * unreadable /proc/swaps, /proc/sys/vm/swappiness or /proc/vmstat, or a /proc/vmstat WITHOUT the optional `pswpout`
 * key (kernels without swap) never raises; the swap-out rate is (cur - prev) * 4096 / interval with its two moving
 * averages; the system context is published, the cgroup cache refreshed and the tick bumped exactly once. */
#include "common.h"
_Bool nondet_bool(void); int nondet_int(void); int64_t nondet_i64(void); uint64_t nondet_u64(void);
/* /proc/swaps: error, or a header line plus lines of 4 tab-separated fields with sizes in KB (ASSUMED kernel format) */
maybe_vec_str_t Fs__readFileByLine__str_t_char(str_t path) { maybe_vec_str_t r; r.ok = nondet_bool(); r.err = r.ok ? 0 : 2; r.val.vid = 1; __CPROVER_assume(r.val.n <= VEC_MAX); return r; }
str_t nondet_str(void);
str_t vec_str_t__elem(uint64_t vid, uint64_t i) { return nondet_str(); }
vec_str_t Util__split(str_t s, char c) { vec_str_t v; v.vid = 2; v.n = 4; return v; }
int64_t ext__stoll(str_t s) { int64_t v = nondet_i64(); __CPROVER_assume(v >= 0 && v <= (1L << 50)); return v; }
maybe_int Fs__getSwappiness(void) { maybe_int r; r.ok = nondet_bool(); r.val = nondet_int(); r.err = r.ok ? 0 : 2; return r; }
/* /proc/vmstat: error, or a map that may or may not have `pswpout` */
#define VM_CUR ((umap_str_t_int64_t)21)
#define VM_PREV ((umap_str_t_int64_t)22)
_Bool g_vm_ok, g_cur_has, g_prev_has; uint64_t g_prev_n; int64_t g_cur_pswpout, g_prev_pswpout;
maybe_umap_str_t_int64_t Fs__getVmstat(void) { maybe_umap_str_t_int64_t r; r.ok = g_vm_ok; r.val = VM_CUR; r.err = g_vm_ok ? 0 : 2; return r; }
uint64_t umap_str_t_int64_t__size(umap_str_t_int64_t m) { __CPROVER_assert(m == VM_PREV, "size of the previous tick's vmstat"); return g_prev_n; }
uint64_t umap_str_t_int64_t__count(umap_str_t_int64_t m, str_t k)
{ __CPROVER_assert(k == STR_pswpout && (m == VM_CUR || m == VM_PREV), "pswpout of this or the previous tick"); return (m == VM_CUR ? g_cur_has : g_prev_has) ? 1 : 0; }
int64_t umap_str_t_int64_t__at(umap_str_t_int64_t m, str_t k)
{ __CPROVER_assert(k == STR_pswpout && (m == VM_CUR || m == VM_PREV), "pswpout of this or the previous tick");
  if (!(m == VM_CUR ? g_cur_has : g_prev_has)) { ghost_exc = EXC_out_of_range; return 0; }     /* std::unordered_map::at on a missing key */
  return m == VM_CUR ? g_cur_pswpout : g_prev_pswpout; }
SystemContext g_prev_ctx, g_published; uint64_t g_publishes, g_refreshes, g_bumps, g_handlers;
SystemContext *OomdContext__getSystemContext(OomdContext c) { return &g_prev_ctx; }
void OomdContext__setSystemContext(OomdContext c, SystemContext s) { g_published = s; g_publishes = g_publishes + 1; }
void OomdContext__setPrekillHooksHandler(OomdContext c, function_t f) { g_handlers = g_handlers + 1; }
void OomdContext__refresh(OomdContext c) { __CPROVER_assert(g_publishes == 1, "the system context is published before the cgroup cache is refreshed"); g_refreshes = g_refreshes + 1; }
void OomdContext__bumpCurrentTick(OomdContext c) { g_bumps = g_bumps + 1; }
int64_t dur_s_t__count(dur_s_t d) { return d.s; }
Engine uptr_Engine__op_arrow(uptr_Engine p) { return (Engine)p; }
opt_uptr_PrekillHookInvocation Engine__firePrekillHook(Engine e, CgroupContext c, OomdContext x) { opt_uptr_PrekillHookInvocation o; o.has = 0; return o; }
#define LOOPC_Oomd__updateContext_1 \
  __CPROVER_assigns(i, system_ctx.swaptotal, system_ctx.swapused) \
  __CPROVER_loop_invariant(i >= 1 && ghost_exc == 0) \
  __CPROVER_decreases(swaps.val.n + 1 - i)
#define HAS_BOTH (g_vm_ok && g_cur_has && g_prev_has)
#define BPS F_DIV_d(F_MUL_d((double)(g_cur_pswpout - g_prev_pswpout), 4096.0), (double)self->interval_.s)
void Oomd__updateContext(Oomd *self)
  __CPROVER_requires(__CPROVER_is_fresh(self, sizeof(*self)) && ghost_exc == 0 && g_publishes == 0 && g_refreshes == 0 && g_bumps == 0 && g_handlers == 0)
  __CPROVER_requires(g_prev_ctx.vmstat == VM_PREV && g_cur_pswpout >= 0 && g_cur_pswpout <= (1L << 62) && g_prev_pswpout >= 0 && g_prev_pswpout <= (1L << 62))
  __CPROVER_requires(g_prev_n > 0 || !g_prev_has)       /* an empty map has no keys */
  __CPROVER_assigns(ghost_exc, g_published, g_publishes, g_refreshes, g_bumps, g_handlers)
  /* a vmstat without `pswpout` (or unreadable files) never raises out of the tick */
  __CPROVER_ensures(ghost_exc == 0) /*@C10*/
  __CPROVER_ensures(g_publishes == 1 && g_refreshes == 1 && g_bumps == 1 && g_handlers == 1) /*@C10,C15*/
  /* swap-out rate and its moving averages, only when both ticks have the counter */
  __CPROVER_ensures(!HAS_BOTH || (__CPROVER_equal(g_published.swapout_bps, BPS) &&
      __CPROVER_equal(g_published.swapout_bps_60, F_ADD_d(BPS, F_MUL_d(Oomd__updateContext__factor60[0], F_SUB_d(g_prev_ctx.swapout_bps_60, BPS)))) &&
      __CPROVER_equal(g_published.swapout_bps_300, F_ADD_d(BPS, F_MUL_d(Oomd__updateContext__factor300[0], F_SUB_d(g_prev_ctx.swapout_bps_300, BPS)))))) /*@C15*/
  __CPROVER_ensures(!g_vm_ok || g_published.vmstat == VM_CUR) /*@C15*/;
#define CANARY __CPROVER_assert(0, "canary: contract precondition satisfiable and function exit reachable")
void h_updateContext(void) { Oomd *s; HAVOC(ghost_exc); HAVOC(g_vm_ok); HAVOC(g_cur_has); HAVOC(g_prev_has); HAVOC(g_prev_n); HAVOC(g_cur_pswpout); HAVOC(g_prev_pswpout); HAVOC(g_prev_ctx); HAVOC(g_published);
  HAVOC(g_publishes); HAVOC(g_refreshes); HAVOC(g_bumps); HAVOC(g_handlers); __CPROVER_havoc_object(Oomd__updateContext__factor60); __CPROVER_havoc_object(Oomd__updateContext__factor300); Oomd__updateContext(s); CANARY; }
