/* Async logger (C20) - the parts a sequential contract can decide:
 *   debugLog  backlog accounting: a line is queued iff it fits under maxSize together with what the current queue
 *             holds, otherwise it is counted in numDiscarded; curSize always equals the bytes in the current queue
 *   ioThread  one iteration takes the current queue, writes every line of it once, in order, reports the number of
 *             dropped lines that were pending, empties the queue; nothing accepted is lost or written twice
 *   silencing enabled() is per thread; DISABLE / ~LogStream / kmsgLog obey it as documented
 * What other threads do while the flusher waits on the condition variable is a havoc of the shared state under
 * the monitor invariant (ghost_cv_wait).  Interleavings themselves are NOT explored (see not_covered). */
#include "common.h"
_Bool nondet_bool(void); uint64_t nondet_u64(void);
uint64_t __CPROVER_uninterpreted_strlen(str_t);
#define LEN_MAX (1UL << 40)
uint64_t str_t__size(str_t s) { uint64_t k = __CPROVER_uninterpreted_strlen(s); __CPROVER_assume(k <= LEN_MAX); return k; }
#define STRLEN(s) __CPROVER_uninterpreted_strlen(s)

Log g_log;
#define Q(i) (g_log.state_.queues.a[i])
#define CUR (g_log.state_.ioTick & 1)
uint64_t g_qbytes[2];                 /* ghost: bytes held by each queue */
uint64_t g_accepted, g_written, g_dropped, g_reported;   /* ghost totals: lines queued / written to the sink, drops counted / reported */
_Bool g_lock_held;
/* monitor invariant: holds whenever state_.lock is free */
#define MON_INV (g_log.state_.curSize == g_qbytes[CUR] && g_qbytes[CUR] <= g_log.state_.maxSize && g_log.state_.maxSize <= LEN_MAX && \
                 Q(0).n <= VEC_MAX && Q(1).n <= VEC_MAX && Q(0).vid != Q(1).vid)
/* conservation: every accepted line is written or still queued; every drop is reported or still pending */
#define CONSERVED (g_accepted == g_written + Q(0).n + Q(1).n && g_dropped == g_reported + g_log.state_.numDiscarded)
void mutex_lock(mutex_t m) { __CPROVER_assert(!g_lock_held, "no double lock"); g_lock_held = 1; }
void mutex_unlock(mutex_t m) { __CPROVER_assert(g_lock_held, "unlock of a held lock"); __CPROVER_assert(MON_INV, "monitor invariant (curSize == bytes in the current queue <= maxSize) restored before the lock is released"); /*@C20*/ g_lock_held = 0; }
void condvar_t__notify_one(condvar_t c) { }
void ghost_notify_all(void);
#define condvar_t__notify_all(c) ghost_notify_all()

/* queue operations on the two real queues */
str_t __CPROVER_uninterpreted_line(uint64_t vid, uint64_t i);
str_t vec_str_t__elem(uint64_t vid, uint64_t i) { return __CPROVER_uninterpreted_line(vid, i); }
uint64_t g_watch_i; str_t g_watch_line; _Bool g_watch_set;     /* an arbitrary watched slot of the current queue */
void vec_str_t__emplace_back(vec_str_t *v, str_t x)
{ __CPROVER_assert(v == &Q(0) || v == &Q(1), "a logger queue"); __CPROVER_assert(g_lock_held, "queues are touched under state_.lock");
  __CPROVER_assume(v->n < VEC_MAX);
  if (v->n == g_watch_i) { g_watch_line = x; g_watch_set = 1; }
  g_qbytes[v == &Q(1)] = g_qbytes[v == &Q(1)] + STRLEN(x); v->n = v->n + 1; g_accepted = g_accepted + 1; }
void vec_str_t__clear(vec_str_t *v)
{ __CPROVER_assert(v == &Q(0) || v == &Q(1), "a logger queue"); g_qbytes[v == &Q(1)] = 0; v->n = 0; }

/* ---- debugLog ---- */
ostream_t g_cerr;
#define ostream_t__std_cerr g_cerr
uint64_t g_sink_next, g_sink_vid, g_sink_n; _Bool g_sink_check;
/* iterating a queue (re)starts the sink's cursor: the next g_sink_n strings written are that queue's lines */
vecit_str_t vec_str_t__begin(vec_str_t v) { vecit_str_t it; it.vid = v.vid; it.i = 0; it.n = v.n; if (g_sink_check) { g_sink_vid = v.vid; g_sink_next = 0; g_sink_n = v.n; } return it; }
ostream_t ostream_t__put__str_t(ostream_t o, str_t s)
{ if (g_sink_check && o != g_cerr && g_sink_next < g_sink_n) { __CPROVER_assert(s == __CPROVER_uninterpreted_line(g_sink_vid, g_sink_next), "lines reach the sink once each, in queue order"); /*@C20*/
    g_sink_next = g_sink_next + 1; g_written = g_written + 1; }
  return o; }
ostream_t ostream_t__put__uint64_t(ostream_t o, uint64_t v) { g_reported = g_reported + v; return o; }
ostream_t ostream_t__flush(ostream_t o) { return o; }
#define IN_LEN STRLEN(__CPROVER_old(buf))
void Log__debugLog(Log *self, str_t buf)
  __CPROVER_requires(self == &g_log && !g_lock_held && MON_INV && CONSERVED && ghost_exc == 0 && STRLEN(buf) <= LEN_MAX && !g_sink_check)
  __CPROVER_requires(g_qbytes[1 - CUR] <= g_log.state_.maxSize)     /* the queue the flusher may still be writing was filled under the same cap */
  __CPROVER_assigns(g_log.state_.queues, g_log.state_.curSize, g_log.state_.numDiscarded, g_qbytes, g_accepted, g_dropped, g_lock_held, g_watch_line, g_watch_set)
  __CPROVER_ensures(!g_lock_held && ghost_exc == 0)
  /* the accounting the cap relies on stays exact, so the queue being filled never holds more than maxSize bytes */
  __CPROVER_ensures(g_log.state_.curSize == g_qbytes[CUR] && g_qbytes[CUR] <= g_log.state_.maxSize) /*@C20*/
  /* inline logging bypasses the queue; otherwise: queued iff it fits, else dropped and counted */
  __CPROVER_ensures(g_log.inline_ ? (Q(CUR).n == __CPROVER_old(Q(CUR).n) && g_log.state_.numDiscarded == __CPROVER_old(g_log.state_.numDiscarded))
      : ((IN_LEN + __CPROVER_old(g_log.state_.curSize) <= g_log.state_.maxSize)
           ? (Q(CUR).n == __CPROVER_old(Q(CUR).n) + 1 && g_qbytes[CUR] == __CPROVER_old(g_qbytes[CUR]) + IN_LEN && g_log.state_.numDiscarded == __CPROVER_old(g_log.state_.numDiscarded))
           : (Q(CUR).n == __CPROVER_old(Q(CUR).n) && g_qbytes[CUR] == __CPROVER_old(g_qbytes[CUR]) && g_log.state_.numDiscarded == __CPROVER_old(g_log.state_.numDiscarded) + 1))) /*@C20*/
  /* the line itself (not a moved-from husk) is what sits in the queue, at the tail */
  __CPROVER_ensures(g_log.inline_ || !(IN_LEN + __CPROVER_old(g_log.state_.curSize) <= g_log.state_.maxSize) || g_watch_i != __CPROVER_old(Q(CUR).n) ||
                    (g_watch_set && g_watch_line == __CPROVER_old(buf))) /*@C20*/
  __CPROVER_ensures(Q(1 - CUR).n == __CPROVER_old(Q(1 - CUR).n) && g_qbytes[1 - CUR] == __CPROVER_old(g_qbytes[1 - CUR]))
  /* the property's literal bound: ALL lines not yet written (the queue being flushed too) stay within maxSize.
   * KNOWN FINDING (known_findings.json): the cap covers the queue being filled only. */
  __CPROVER_ensures(g_qbytes[0] + g_qbytes[1] <= g_log.state_.maxSize) /*@C20*/ /*KF:C20-two-queues*/;
#define CANARY __CPROVER_assert(0, "canary: contract precondition satisfiable and function exit reachable")
#define HAVOC_LOG() do { HAVOC(g_log); __CPROVER_havoc_object(g_qbytes); HAVOC(g_accepted); HAVOC(g_written); HAVOC(g_dropped); HAVOC(g_reported); HAVOC(g_lock_held); HAVOC(g_watch_i); \
  HAVOC(g_watch_line); HAVOC(g_watch_set); HAVOC(g_cerr); HAVOC(g_sink_next); HAVOC(g_sink_vid); HAVOC(g_sink_n); HAVOC(g_sink_check); HAVOC(ghost_exc); } while (0)
void h_debugLog(void) { str_t b; HAVOC_LOG(); g_watch_set = 0; Log__debugLog(&g_log, b); CANARY; }

/* ---- ioThread ---- */
/* cv.wait(lock, pred): the lock is released, OTHER THREADS RUN (producers queue or drop lines on the current queue,
 * shutdown may clear ioThreadRunning), the lock is re-acquired with pred true.  Everything they may do keeps the
 * monitor invariant and the conservation ledger. */
_Bool Log__ioThread__lambda_wait(Log *self, vec_str_t *q);
void ghost_cv_wait(vec_str_t *q)
{
  __CPROVER_assert(g_lock_held, "wait with the lock held");
  __CPROVER_assert(q == &Q(CUR), "the predicate watches the current queue");
  uint64_t more = nondet_u64(), bytes = nondet_u64(), drops = nondet_u64();
  __CPROVER_assume(more <= VEC_MAX - q->n && bytes <= g_log.state_.maxSize - g_qbytes[CUR] && drops <= (1UL << 40) && (more > 0 || bytes == 0));
  q->n = q->n + more; g_accepted = g_accepted + more;
  g_qbytes[CUR] = g_qbytes[CUR] + bytes; g_log.state_.curSize = g_log.state_.curSize + bytes;
  g_log.state_.numDiscarded = g_log.state_.numDiscarded + drops; g_dropped = g_dropped + drops;
  if (nondet_bool()) g_log.state_.ioThreadRunning = 0;
  __CPROVER_assume(Log__ioThread__lambda_wait(&g_log, q));
}
#define lambda_bind__Log__ioThread__lambda_wait(q) (q)
#define condvar_t__wait(cv, lk, q) ghost_cv_wait(q)
#define LOOPC_Log__ioThread_1 \
  __CPROVER_assigns(io_thread_running, g_log.state_.queues, g_log.state_.curSize, g_log.state_.numDiscarded, g_log.state_.ioTick, g_log.state_.ioThreadRunning, \
                    __CPROVER_object_whole(g_qbytes), g_accepted, g_written, g_dropped, g_reported, g_lock_held, g_sink_next, g_sink_vid, g_sink_n) \
  __CPROVER_loop_invariant(!g_lock_held && MON_INV && CONSERVED && ghost_exc == 0) \
  /* the queue that is not being filled has been written out and emptied */ \
  __CPROVER_loop_invariant(Q(1 - CUR).n == 0 && g_qbytes[1 - CUR] == 0 && (io_thread_running || !g_log.state_.ioThreadRunning))
#define LOOPC_Log__ioThread_2 \
  __CPROVER_assigns(__begin2, g_written, g_sink_next) \
  __CPROVER_loop_invariant(g_sink_check && g_sink_vid == q->vid && g_sink_n == q->n) \
  __CPROVER_loop_invariant(__begin2.vid == q->vid && __end2.vid == q->vid && __begin2.n == q->n && __end2.n == q->n && __end2.i == q->n && __begin2.i <= q->n) \
  __CPROVER_loop_invariant(g_sink_next == __begin2.i && g_written == __CPROVER_loop_entry(g_written) + __begin2.i && ghost_exc == 0) \
  __CPROVER_decreases(q->n - __begin2.i)
void Log__ioThread(Log *self, ostream_t debug_sink)
  __CPROVER_requires(self == &g_log && !g_lock_held && MON_INV && CONSERVED && Q(1 - CUR).n == 0 && g_qbytes[1 - CUR] == 0 && debug_sink != g_cerr && g_sink_check && ghost_exc == 0)
  __CPROVER_assigns(g_log.state_.queues, g_log.state_.curSize, g_log.state_.numDiscarded, g_log.state_.ioTick, g_log.state_.ioThreadRunning,
                    __CPROVER_object_whole(g_qbytes), g_accepted, g_written, g_dropped, g_reported, g_lock_held, g_sink_next, g_sink_vid, g_sink_n)
  /* nothing accepted is lost or duplicated; every drop has been reported or is still pending */
  __CPROVER_ensures(!g_lock_held && MON_INV && CONSERVED && ghost_exc == 0) /*@C20*/
  /* the thread only returns once shutdown was requested, with the queue it took written and emptied */
  __CPROVER_ensures(!g_log.state_.ioThreadRunning && Q(1 - CUR).n == 0) /*@C20*/;
void h_ioThread(void) { ostream_t s; HAVOC_LOG(); g_sink_check = 1; Log__ioThread(&g_log, s); CANARY; }

/* ---- per-thread silencing ---- */
#define ENABLED(t) LogStream__enabled__enabled[t]
unsigned g_other;     /* any other thread */
_Bool * LogStream__enabled(void)
  __CPROVER_requires(ghost_tid < ACXX_NTHREADS) __CPROVER_assigns()
  __CPROVER_ensures(__CPROVER_return_value == &ENABLED(ghost_tid)) /*@C20*/;    /* the calling thread's flag, nobody else's */
LogStream * LogStream__op_shl__Control(LogStream *self, LogStream_Control ctrl)
  __CPROVER_requires(__CPROVER_is_fresh(self, sizeof(*self)) && ghost_tid < ACXX_NTHREADS && g_other < ACXX_NTHREADS && g_other != ghost_tid && ghost_exc == 0)
  __CPROVER_requires(ctrl == LogStream_Control__DISABLE || ctrl == LogStream_Control__ENABLE)
  __CPROVER_assigns(ENABLED(ghost_tid), self->skip_)
  __CPROVER_ensures((ENABLED(ghost_tid) != 0) == (ctrl == LogStream_Control__ENABLE)) /*@C20*/
  /* silencing affects only the calling thread */
  __CPROVER_ensures(ENABLED(g_other) == __CPROVER_old(ENABLED(g_other))) /*@C20*/
  __CPROVER_ensures(__CPROVER_return_value == self && ghost_exc == 0);
/* ~LogStream hands the line to the sink iff the calling thread is not silenced and the statement was not a control statement */
uint64_t g_sink_calls;
void LogBase__debugLog(LogBase sink, log_t text) { g_sink_calls = g_sink_calls + 1; }
void LogStream___LogStream(LogStream *self)
  __CPROVER_requires(__CPROVER_is_fresh(self, sizeof(*self)) && ghost_tid < ACXX_NTHREADS && g_other < ACXX_NTHREADS && g_other != ghost_tid && ghost_exc == 0)
  __CPROVER_requires((self->skip_ == 0 || self->skip_ == 1) && (ENABLED(ghost_tid) == 0 || ENABLED(ghost_tid) == 1))
  __CPROVER_assigns(g_sink_calls)
  __CPROVER_ensures(g_sink_calls == __CPROVER_old(g_sink_calls) + ((ENABLED(ghost_tid) != 0 && !self->skip_) ? 1 : 0)) /*@C20*/
  __CPROVER_ensures(ghost_exc == 0);

/* ---- kmsgLog: the kill record goes to the kmsg fd whatever the silencing state ---- */
uint64_t g_kmsg_writes; int g_kmsg_fd_written; int64_t nondet_i64(void);
int64_t Util__writeFull(int fd, str_t data, uint64_t n) { g_kmsg_writes = g_kmsg_writes + 1; g_kmsg_fd_written = fd; return nondet_i64(); }
str_t nondet_str(void);
str_t str_t__op_add(str_t a, str_t b) { return nondet_str(); }
void str_t__insert(str_t s, uint64_t pos, str_t t) { }
char nondet_char(void);
char str_t__back(str_t s) { return nondet_char(); }
void str_t__push_back(str_t s, char c) { }
str_t str_t__data(str_t s) { return s; }
void ext__perror(str_t s) { }
void Log__kmsgLog(Log *self, str_t buf, str_t prefix)
  __CPROVER_requires(self == &g_log && ghost_tid < ACXX_NTHREADS && ghost_exc == 0)
  __CPROVER_assigns(g_kmsg_writes, g_kmsg_fd_written)
  __CPROVER_ensures(g_log.kmsg_fd_ >= 0 ? (g_kmsg_writes == __CPROVER_old(g_kmsg_writes) + 1 && g_kmsg_fd_written == g_log.kmsg_fd_) : g_kmsg_writes == __CPROVER_old(g_kmsg_writes)) /*@C20*/
  __CPROVER_ensures(ghost_exc == 0);

/* ---- ~Log: stop flag under the lock, wake the flusher, join it ---- */
_Bool g_joined, g_notified; _Bool nondet_bool(void);
void ghost_notify_all(void) { g_notified = 1; }
_Bool thread_t__joinable(thread_t t) { return t != 0; }
void thread_t__join(thread_t t) { __CPROVER_assert(!g_lock_held, "join without holding state_.lock (the flusher needs it)"); __CPROVER_assert(!g_log.state_.ioThreadRunning && g_notified, "the flusher was told to stop and woken before it is joined"); /*@C20*/ g_joined = 1; }
void ext__close(int fd) { }
void Log___Log(Log *self)
  __CPROVER_requires(self == &g_log && !g_lock_held && MON_INV && !g_joined && !g_notified && ghost_exc == 0)
  __CPROVER_assigns(g_log.state_.ioThreadRunning, g_lock_held, g_joined, g_notified)
  __CPROVER_ensures(!g_log.state_.ioThreadRunning && !g_lock_held && (g_log.io_thread_ == 0 || g_joined) && ghost_exc == 0) /*@C20*/;
void h_enabled(void) { HAVOC_LOG(); HAVOC(ghost_tid); LogStream__enabled(); CANARY; }
void h_control(void) { LogStream *s; LogStream_Control c; HAVOC_LOG(); HAVOC(ghost_tid); HAVOC(g_other); __CPROVER_havoc_object(LogStream__enabled__enabled); LogStream__op_shl__Control(s, c); CANARY; }
void h_dtor(void) { LogStream *s; HAVOC_LOG(); HAVOC(ghost_tid); HAVOC(g_other); HAVOC(g_sink_calls); __CPROVER_havoc_object(LogStream__enabled__enabled); LogStream___LogStream(s); CANARY; }
void h_kmsg(void) { str_t a, b; HAVOC_LOG(); HAVOC(ghost_tid); HAVOC(g_kmsg_writes); HAVOC(g_kmsg_fd_written); __CPROVER_havoc_object(LogStream__enabled__enabled); Log__kmsgLog(&g_log, a, b); CANARY; }
void h_shutdown(void) { HAVOC_LOG(); HAVOC(g_joined); HAVOC(g_notified); Log___Log(&g_log); CANARY; }
