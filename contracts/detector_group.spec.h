/* Contracts for DetectorGroup::check / prerun (C02):
 *   every detector of the group runs exactly once, in configured order, whether or not one says STOP;
 *   the group fires iff no detector returned STOP (ASYNC_PAUSED counts as CONTINUE).
 */
#include "common.h"
#define DET_BASE 700000
uint64_t g_det_next; _Bool g_any_stop; uint64_t g_prerun_next;
uint32_t g_silenced;
int nondet_int(void);
uptr_BasePlugin vec_uptr_BasePlugin__elem(uint64_t vid, uint64_t i) { return (uptr_BasePlugin)(DET_BASE + i); }
PluginRet BasePlugin__run(BasePlugin p, OomdContext c)
{
  __CPROVER_assert(p == (BasePlugin)(DET_BASE + g_det_next), "every detector runs exactly once per check, in configured order");
  __CPROVER_assert(ghost_log_enabled == ((g_silenced & LogSources__PLUGINS) ? 0 : 1), "plugin logs are silenced exactly when the ruleset asks for it");
  g_det_next = g_det_next + 1;
  int r = nondet_int();
  __CPROVER_assume(r == PluginRet__CONTINUE || r == PluginRet__STOP || r == PluginRet__ASYNC_PAUSED);
  if (r == PluginRet__STOP) g_any_stop = 1;
  return r;
}
void BasePlugin__prerun(BasePlugin p, OomdContext c)
{
  __CPROVER_assert(p == (BasePlugin)(DET_BASE + g_prerun_next), "prerun reaches every detector exactly once, in order");
  g_prerun_next = g_prerun_next + 1;
}

_Bool DetectorGroup__check(DetectorGroup *self, OomdContext context, uint32_t silenced_logs)
  __CPROVER_requires(__CPROVER_is_fresh(self, sizeof(*self)) && self->detectors_.n <= VEC_MAX && ghost_exc == 0)
  __CPROVER_requires(g_det_next == 0 && !g_any_stop && g_silenced == silenced_logs && ghost_log_enabled == 1)
  __CPROVER_assigns(g_det_next, g_any_stop, ghost_log_enabled)
  __CPROVER_ensures(g_det_next == self->detectors_.n)
  __CPROVER_ensures((__CPROVER_return_value != 0) == !g_any_stop)
  __CPROVER_ensures(ghost_log_enabled == 1 && ghost_exc == 0);
#define LOOPC_DetectorGroup__check_1 \
  __CPROVER_assigns(__begin2, triggered, g_det_next, g_any_stop, ghost_log_enabled) \
  __CPROVER_loop_invariant(__begin2.i <= __begin2.n && __begin2.n == self->detectors_.n && __end2.i == __begin2.n) \
  __CPROVER_loop_invariant(g_det_next == __begin2.i && (triggered != 0) == !g_any_stop && ghost_log_enabled == 1) \
  __CPROVER_decreases(__begin2.n - __begin2.i)

void DetectorGroup__prerun(DetectorGroup *self, OomdContext context)
  __CPROVER_requires(__CPROVER_is_fresh(self, sizeof(*self)) && self->detectors_.n <= VEC_MAX && g_prerun_next == 0 && ghost_exc == 0)
  __CPROVER_assigns(g_prerun_next)
  __CPROVER_ensures(g_prerun_next == self->detectors_.n && ghost_exc == 0);
#define LOOPC_DetectorGroup__prerun_1 \
  __CPROVER_assigns(__begin2, g_prerun_next) \
  __CPROVER_loop_invariant(__begin2.i <= __begin2.n && __begin2.n == self->detectors_.n && __end2.i == __begin2.n && g_prerun_next == __begin2.i) \
  __CPROVER_decreases(__begin2.n - __begin2.i)

void h_DetectorGroup__check(void)
{
  DetectorGroup *self; OomdContext c; uint32_t s;
  HAVOC(g_det_next); HAVOC(g_any_stop); HAVOC(ghost_log_enabled); HAVOC(ghost_exc);
  g_silenced = s;
  DetectorGroup__check(self, c, s);
  __CPROVER_assert(0, "canary: contract precondition satisfiable and function exit reachable");
}
void h_DetectorGroup__prerun(void)
{
  DetectorGroup *self; OomdContext c;
  HAVOC(g_prerun_next); HAVOC(ghost_exc);
  DetectorGroup__prerun(self, c);
  __CPROVER_assert(0, "canary: contract precondition satisfiable and function exit reachable");
}
