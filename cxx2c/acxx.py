"""acxx.py — type-parametric part of the abstract C++ runtime.

For each C type used by the extracted code this module produces (a) the type
definition and (b) the library functions *that the extracted code references*
(nothing else is emitted, so a call to a library function that has no model here
leaves an undeclared identifier -> the C does not compile -> run is UNDECIDED).

A function whose name also appears (followed by '(') in the unit's spec header
is taken from there instead (unit-specific override, e.g. to add ghost effects).

All of these are ASSUMED contracts of the C++ library.
"""
import re

BUILTIN = {'_Bool', 'char', 'signed char', 'unsigned char', 'short', 'unsigned short', 'int',
           'uint32_t', 'int64_t', 'uint64_t', 'float', 'double', 'long double', 'void',
           'str_t', 'mutex_t', 'lock_t', 'exc_t', 'function_t', 'lambda_t', 'thread_t',
           'condvar_t', 'log_t', 'initlist_t', 'nullopt_t', 'nullptr_t', 'tp_t', 'dur_ns_t', 'dur_s_t', 'dur_ms_t',
           'dur_us_t', 'hnd_t'}


def S(x):
    return re.sub(r'[^A-Za-z0-9_]', '_', x)


class Library:
    BUILTIN = BUILTIN

    def __init__(self, unit):
        self.u = unit
        self.ty = unit.types

    # ---- types
    def type_deps(self, ct):
        if ct.startswith('pair_'):
            return [x.rstrip(' *') for x in self.ty.pair_elems[ct]]
        if ct.startswith('tuple_'):
            return [x.rstrip(' *') for x in self.ty.tuple_elems[ct]]
        return []

    def type_def(self, ct):
        ty = self.ty
        e = ty.elem.get(ct)
        if ct.startswith('opt_') or ct.startswith('maybe_'):
            if ct.startswith('opt_'):
                return ['typedef struct %s { _Bool has; %s val; } %s;' % (ct, e, ct)]
            if e == 'void':
                return ['typedef struct %s { _Bool ok; int err; } %s;' % (ct, ct)]
            return ['typedef struct %s { _Bool ok; %s val; int err; } %s;' % (ct, e, ct)]
        if ct.startswith('vec_') or ct.startswith('deq_'):
            return ['typedef struct %s { uint64_t vid; uint64_t n; } %s;' % (ct, ct)]
        if ct.startswith('vecit_') or ct.startswith('deqit_') or ct.startswith('vecrit_'):
            return ['typedef struct %s { uint64_t vid; uint64_t i; uint64_t n; } %s;' % (ct, ct)]
        if ct.startswith('mapit_'):
            return ['typedef struct %s { hnd_t map; uint64_t pos; uint64_t n; _Bool valid; } %s;' % (ct, ct)]
        if ct.startswith('pair_'):
            a, b = self.ty.pair_elems[ct]
            return ['typedef struct %s { %s first; %s second; } %s;' % (ct, a, b, ct)]
        if ct in getattr(self.ty, 'array_len', {}):
            return ['typedef struct %s { %s a[%d]; } %s;' % (ct, e, self.ty.array_len[ct], ct)]
        if ct.startswith('tuple_'):
            es = self.ty.tuple_elems[ct]
            return ['typedef struct %s { %s } %s;' % (ct, ' '.join('%s e%d;' % (e, i) for i, e in enumerate(es)), ct)]
        if ty.kinds.get(ct) == 'handle':
            return ['typedef hnd_t %s;' % ct]
        if ty.kinds.get(ct) == 'value':
            if ct in self.u.cfg.get('type_kinds', {}) and self.u.cfg.get('prelude'):
                return []       # defined by the unit's prelude header
            raise_unsupported('value type %s has no definition' % ct)
        return []

    # ---- functions
    def candidates(self):
        """name -> C text for every library function of every used type"""
        ty = self.ty
        f = {}
        for ct in list(ty.kinds):
            e = ty.elem.get(ct)
            n = S(ct)
            if ct.startswith('opt_'):
                ek = ty.kind(e)
                f.update(self.opt(n, ct, e, ek))
            elif ct.startswith('maybe_'):
                f.update(self.maybe(n, ct, e))
            elif ct.startswith('vec_') or ct.startswith('deq_'):
                f.update(self.vec(n, ct, e))
            elif ct.startswith('vecit_') or ct.startswith('deqit_'):
                f.update(self.vecit(n, ct, e))
            elif ct.startswith('vecrit_'):
                f.update(self.vecrit(n, ct, e))
            elif ct in getattr(ty, 'array_len', {}):
                f[n + '__at_ref'] = ('static inline %s *%s__at_ref(%s *x, uint64_t i) { __CPROVER_assert(i < %d, "UB: std::array operator[] index out of range"); '
                                     'return &x->a[i]; }' % (e, n, ct, ty.array_len[ct]))
            elif ct.startswith('tuple_'):
                f.update(self.tuple(n, ct))
            elif ct.startswith('pair_') and ct in ty.pair_elems:
                a, b = ty.pair_elems[ct]
                f['ext__make_pair__%s__%s_%s' % (n, S(a), S(b))] = ('static inline %s ext__make_pair__%s__%s_%s(%s a, %s b) { %s p; p.first = a; p.second = b; return p; }'
                                                                  % (ct, n, S(a), S(b), a, b, ct))
            elif ct.startswith('uptr_'):
                f.update(self.uptr(n, ct, e))
            elif ct.startswith('mapit_'):
                f.update(self.mapit(n, ct, e))
            elif ct.startswith('uset_') or ct.startswith('umap_'):
                f.update(self.assoc(n, ct, e))
            if ty.kinds.get(ct) == 'handle' and ct != 'str_t':
                f[n + '__ctor0'] = 'static inline %s %s__ctor0(void) { return (%s)0; }' % (ct, n, ct)
        f.update(self.chrono())
        f.update(self.misc())
        f.update(getattr(self.u, 'struct_funcs', {}))
        return f

    def functions_for(self, body_text, spec_text):
        cands = self.candidates()
        need = []
        seen = set()
        text = body_text + '\n' + spec_text      # the spec may use library functions too (e.g. tuple comparison in a contract)
        changed = True
        while changed:
            changed = False
            for name, code in cands.items():
                if name in seen:
                    continue
                if re.search(r'\b%s\s*\(' % re.escape(name), text):
                    seen.add(name)
                    if re.search(r'^[A-Za-z_][\w \*]*\b%s\s*\(' % re.escape(name), spec_text, re.M) or \
                            re.search(r'^#define\s+%s\b' % re.escape(name), spec_text, re.M):
                        continue      # defined (overridden) by the unit's spec
                    need.append((name, code))
                    text += '\n' + code
                    changed = True
        # order: dependencies first (a function used inside another must precede it)
        ordered = []
        names = [n for n, _ in need]
        codes = dict(need)
        placed = set()

        def place(n, stack=()):
            if n in placed or n in stack:
                return
            for m in names:
                if m != n and re.search(r'\b%s\s*\(' % re.escape(m), codes[n]):
                    place(m, stack + (n,))
            placed.add(n)
            ordered.append(codes[n])
        for n in names:
            place(n)
        return ordered

    # -- tuple<T...>: C++20 comparison = lexicographic synthesized three-way; an unordered element pair
    #    (a NaN) makes every relational operator false and stops the scan
    def tuple(self, n, ct):
        f = {}
        es = self.ty.tuple_elems[ct]
        args = ', '.join('%s a%d' % (e, i) for i, e in enumerate(es))
        sets = ' '.join('t.e%d = a%d;' % (i, i) for i in range(len(es)))
        f['ext__make_tuple__%s__%s' % (n, '_'.join(S(e) for e in es))] = \
            'static inline %s ext__make_tuple__%s__%s(%s) { %s t; %s return t; }' % (ct, n, '_'.join(S(e) for e in es), args, ct, sets)

        # three-way: -1 less, 0 equivalent, 1 greater, 2 unordered (a NaN met before a decision)
        body = ''
        for i, e in enumerate(es):
            if e in ('float', 'double'):
                body += ' if (a.e%d != a.e%d || b.e%d != b.e%d) return 2;' % (i, i, i, i)
            if e.startswith('tuple_'):
                body += ' { int c = %s__cmp3(a.e%d, b.e%d); if (c != 0) return c; }' % (S(e), i, i)
            else:
                body += ' if (a.e%d > b.e%d) return 1; if (a.e%d < b.e%d) return -1;' % (i, i, i, i)
        f['%s__cmp3' % n] = 'static inline int %s__cmp3(%s a, %s b) {%s return 0; }' % (n, ct, ct, body)
        for op, cond in {'op_gt': 'c == 1', 'op_lt': 'c == -1', 'op_ge': 'c == 0 || c == 1', 'op_le': 'c == 0 || c == -1',
                         'op_eq': 'c == 0'}.items():
            f['%s__%s' % (n, op)] = 'static inline _Bool %s__%s(%s a, %s b) { int c = %s__cmp3(a, b); return %s; }' % (n, op, ct, ct, n, cond)
        for i, e in enumerate(es):
            f['ext__get_%d__%s' % (i, n)] = 'static inline %s ext__get_%d__%s(%s t) { return t.e%d; }' % (e, i, n, ct, i)
        return f

    # -- optional<T>
    def opt(self, n, ct, e, ek):
        f = {}
        f[n + '__ctor0'] = 'static inline %s %s__ctor0(void) { %s o; o.has = 0; return o; }' % (ct, n, ct)
        f[n + '__from__nullopt_t'] = 'static inline %s %s__from__nullopt_t(nullopt_t x) { %s o; o.has = 0; return o; }' % (ct, n, ct)
        f[n + '__from__' + S(e)] = 'static inline %s %s__from__%s(%s v) { %s o; o.has = 1; o.val = v; return o; }' % (ct, n, S(e), e, ct)
        # converting constructors optional<T>(U&&) for arithmetic U != T (same conversion as T(u))
        if ek == 'scalar' and e in ('int64_t', 'uint64_t', 'int', 'double', 'float', 'uint32_t', 'long', 'unsigned long'):
            for src in ('int', 'int64_t', 'uint64_t', 'uint32_t', 'double', 'float'):
                if src == e:
                    continue
                if src in ('double', 'float') and e not in ('double', 'float'):
                    conv = 'F2I_%s(v)' % {'int64_t': 'i64', 'long': 'i64', 'uint64_t': 'u64', 'unsigned long': 'u64', 'int': 'i32', 'uint32_t': 'u32'}[e]
                else:
                    conv = '(%s)v' % e
                f[n + '__from__' + src] = 'static inline %s %s__from__%s(%s v) { %s o; o.has = 1; o.val = %s; return o; }' % (ct, n, src, src, ct, conv)
        f['ext__make_optional__%s__%s' % (n, S(e))] = 'static inline %s ext__make_optional__%s__%s(%s v) { %s o; o.has = 1; o.val = v; return o; }' % (ct, n, S(e), e, ct)
        f[n + '__has_value'] = 'static inline _Bool %s__has_value(%s o) { return o.has != 0; }' % (n, ct)
        f[n + '__op_conv_bool'] = 'static inline _Bool %s__op_conv_bool(%s o) { return o.has != 0; }' % (n, ct)
        f[n + '__op_deref'] = ('static inline %s %s__op_deref(%s o) { __CPROVER_assert(o.has, "UB: optional dereferenced '
                               'without a value (operator* / operator->)"); return o.val; }' % (e, n, ct))
        f[n + '__op_arrow'] = ('static inline %s %s__op_arrow(%s o) { __CPROVER_assert(o.has, "UB: optional dereferenced '
                               'without a value (operator* / operator->)"); return o.val; }' % (e, n, ct))
        f[n + '__ptr'] = ('static inline %s *%s__ptr(%s *o) { __CPROVER_assert(o->has, "UB: optional dereferenced '
                          'without a value (operator* / operator->)"); return &o->val; }' % (e, n, ct))
        f[n + '__value'] = ('static inline %s %s__value(%s o) { if (!o.has) ghost_exc = EXC_bad_optional_access; '
                            'return o.val; }' % (e, n, ct))
        f[n + '__value_or__' + S(e)] = 'static inline %s %s__value_or__%s(%s o, %s d) { return o.has ? o.val : d; }' % (e, n, S(e), ct, e)
        f[n + '__value_or'] = 'static inline %s %s__value_or(%s o, %s d) { return o.has ? o.val : d; }' % (e, n, ct, e)
        f[n + '__op_eq__nullopt_t'] = 'static inline _Bool %s__op_eq__nullopt_t(%s o, nullopt_t x) { return !o.has; }' % (n, ct)
        f[n + '__op_ne__nullopt_t'] = 'static inline _Bool %s__op_ne__nullopt_t(%s o, nullopt_t x) { return o.has != 0; }' % (n, ct)
        f[n + '__op_assign__nullopt_t'] = 'static inline void %s__op_assign__nullopt_t(%s *o, nullopt_t x) { o->has = 0; }' % (n, ct)
        f[n + '__op_assign__' + S(e)] = 'static inline void %s__op_assign__%s(%s *o, %s v) { o->has = 1; o->val = v; }' % (n, S(e), ct, e)
        f[n + '__reset'] = 'static inline void %s__reset(%s *o) { o->has = 0; }' % (n, ct)
        if ek in ('scalar', 'handle'):
            f[n + '__op_eq'] = 'static inline _Bool %s__op_eq(%s a, %s b) { return a.has == b.has && (!a.has || a.val == b.val); }' % (n, ct, ct)
            f[n + '__op_ne'] = 'static inline _Bool %s__op_ne(%s a, %s b) { return !(a.has == b.has && (!a.has || a.val == b.val)); }' % (n, ct, ct)
            f[n + '__op_eq__' + S(e)] = 'static inline _Bool %s__op_eq__%s(%s a, %s b) { return a.has && a.val == b; }' % (n, S(e), ct, e)
            f[n + '__op_ne__' + S(e)] = 'static inline _Bool %s__op_ne__%s(%s a, %s b) { return !(a.has && a.val == b); }' % (n, S(e), ct, e)
            if e in ('int64_t', 'uint64_t', 'uint32_t', 'long') :
                f[n + '__op_eq__int'] = 'static inline _Bool %s__op_eq__int(%s a, int b) { return a.has && a.val == (%s)b; }' % (n, ct, e)
                f[n + '__op_ne__int'] = 'static inline _Bool %s__op_ne__int(%s a, int b) { return !(a.has && a.val == (%s)b); }' % (n, ct, e)
        if e == 'tp_t':
            f[n + '__op_lt__tp_t'] = 'static inline _Bool %s__op_lt__tp_t(%s o, tp_t v) { return !o.has || TP_LT(o.val, v); }' % (n, ct)
            f[n + '__op_gt__tp_t'] = 'static inline _Bool %s__op_gt__tp_t(%s o, tp_t v) { return o.has && TP_LT(v, o.val); }' % (n, ct)
        if ek == 'scalar':
            # optional<T> ordering: nullopt is less than any value
            f[n + '__op_lt'] = 'static inline _Bool %s__op_lt(%s a, %s b) { return b.has && (!a.has || a.val < b.val); }' % (n, ct, ct)
            f[n + '__op_gt'] = 'static inline _Bool %s__op_gt(%s a, %s b) { return a.has && (!b.has || a.val > b.val); }' % (n, ct, ct)
            f['ext__min__%s_%s' % (n, n)] = 'static inline %s ext__min__%s_%s(%s a, %s b) { return (b.has && (!a.has || b.val < a.val)) ? b : a; }' % (ct, n, n, ct, ct)
            f['ext__max__%s_%s' % (n, n)] = 'static inline %s ext__max__%s_%s(%s a, %s b) { return (b.has && (!a.has || a.val < b.val)) ? b : a; }' % (ct, n, n, ct, ct)
        return f

    # -- SystemMaybe<T>
    def maybe(self, n, ct, e):
        f = {}
        f[n + '__op_conv_bool'] = 'static inline _Bool %s__op_conv_bool(%s m) { return m.ok != 0; }' % (n, ct)
        f[n + '__op_not'] = 'static inline _Bool %s__op_not(%s m) { return m.ok == 0; }' % (n, ct)
        f[n + '__has_value'] = 'static inline _Bool %s__has_value(%s m) { return m.ok != 0; }' % (n, ct)
        if e != 'void':
            f[n + '__op_deref'] = ('static inline %s %s__op_deref(%s m) { __CPROVER_assert(m.ok, "UB: SystemMaybe '
                                   'dereferenced while holding an error"); return m.val; }' % (e, n, ct))
            f[n + '__op_arrow'] = ('static inline %s %s__op_arrow(%s m) { __CPROVER_assert(m.ok, "UB: SystemMaybe '
                                   'dereferenced while holding an error"); return m.val; }' % (e, n, ct))
            f[n + '__value'] = ('static inline %s %s__value(%s m) { __CPROVER_assert(m.ok, "UB: SystemMaybe::value() '
                                'while holding an error"); return m.val; }' % (e, n, ct))
            f[n + '__from__' + S(e)] = 'static inline %s %s__from__%s(%s v) { %s m; m.ok = 1; m.val = v; m.err = 0; return m; }' % (ct, n, S(e), e, ct)
        f[n + '__from__exc_t'] = 'static inline %s %s__from__exc_t(exc_t e) { %s m; m.ok = 0; m.err = e; return m; }' % (ct, n, ct)
        f[n + '__error'] = ('static inline int %s__error(%s m) { __CPROVER_assert(!m.ok, "UB: SystemMaybe::error() '
                            'while holding a value"); return m.err; }' % (n, ct))
        return f

    # -- vector<T> (abstract content: element i of vector vid is elem(vid, i))
    def vec(self, n, ct, e):
        it = n.replace('vec_', 'vecit_', 1).replace('deq_', 'deqit_', 1)
        f = {}
        f[n + '__copy'] = 'static inline %s %s__copy(%s v) { return v; }' % (ct, n, ct)
        # operator== of two vectors: sizes differ -> false, same object -> true, else unknown but consistent (abstract content)
        f[n + '__op_eq'] = ('_Bool __CPROVER_uninterpreted_eq_%s(uint64_t, uint64_t);\n'
                            'static inline _Bool %s__op_eq(%s a, %s b) { if (a.n != b.n) return 0; if (a.vid == b.vid) return 1; '
                            'return __CPROVER_uninterpreted_eq_%s(a.vid, b.vid); }' % (n, n, ct, ct, n))
        f[n + '__elem'] = ('static inline %s %s__elem(uint64_t vid, uint64_t i) { %s x; return x; }   /* abstract content: any value */' % (e, n, e))
        f[n + '__ctor0'] = 'static inline %s %s__ctor0(void) { %s v; v.n = 0; return v; }' % (ct, n, ct)
        f[n + '__size'] = 'static inline uint64_t %s__size(%s v) { return v.n; }' % (n, ct)
        f[n + '__empty'] = 'static inline _Bool %s__empty(%s v) { return v.n == 0; }' % (n, ct)
        f[n + '__begin'] = 'static inline %s %s__begin(%s v) { %s it; it.vid = v.vid; it.i = 0; it.n = v.n; return it; }' % (it, n, ct, it)
        f[n + '__end'] = 'static inline %s %s__end(%s v) { %s it; it.vid = v.vid; it.i = v.n; it.n = v.n; return it; }' % (it, n, ct, it)
        rit = n.replace('vec_', 'vecrit_', 1)
        f[n + '__rbegin'] = 'static inline %s %s__rbegin(%s v) { %s it; it.vid = v.vid; it.i = v.n; it.n = v.n; return it; }' % (rit, n, ct, rit)
        f[n + '__rend'] = 'static inline %s %s__rend(%s v) { %s it; it.vid = v.vid; it.i = 0; it.n = v.n; return it; }' % (rit, n, ct, rit)
        f[n + '__op_index__uint64_t'] = ('static inline %s %s__op_index__uint64_t(%s v, uint64_t i) { __CPROVER_assert(i < v.n, '
                                         '"UB: vector operator[] index out of range"); return %s__elem(v.vid, i); }' % (e, n, ct, n))
        f[n + '__op_index__int'] = ('static inline %s %s__op_index__int(%s v, int i) { __CPROVER_assert(i >= 0 && (uint64_t)i < v.n, '
                                    '"UB: vector operator[] index out of range"); return %s__elem(v.vid, (uint64_t)i); }' % (e, n, ct, n))
        f[n + '__at'] = ('static inline %s %s__at(%s v, uint64_t i) { if (!(i < v.n)) ghost_exc = EXC_out_of_range; '
                         'return %s__elem(v.vid, i); }' % (e, n, ct, n))
        f[n + '__back'] = ('static inline %s %s__back(%s v) { __CPROVER_assert(v.n > 0, "UB: vector::back() on empty vector"); '
                           'return %s__elem(v.vid, v.n - 1); }' % (e, n, ct, n))
        f[n + '__front'] = ('static inline %s %s__front(%s v) { __CPROVER_assert(v.n > 0, "UB: vector::front() on empty vector"); '
                            'return %s__elem(v.vid, 0); }' % (e, n, ct, n))
        f[n + '__push_back'] = ('static inline void %s__push_back(%s *v, %s x) { __CPROVER_assume(v->n < VEC_MAX); v->n = v->n + 1; }' % (n, ct, e))
        f[n + '__emplace_back'] = ('static inline void %s__emplace_back(%s *v, %s x) { __CPROVER_assume(v->n < VEC_MAX); v->n = v->n + 1; }' % (n, ct, e))
        f[n + '__pop_back'] = ('static inline void %s__pop_back(%s *v) { __CPROVER_assert(v->n > 0, "UB: vector::pop_back() on empty vector"); '
                               'v->n = v->n - 1; }' % (n, ct))
        f[n + '__clear'] = 'static inline void %s__clear(%s *v) { v->n = 0; }' % (n, ct)
        f[n + '__reserve'] = 'static inline void %s__reserve(%s *v, uint64_t k) { }' % (n, ct)
        f[n + '__cend'] = 'static inline %s %s__cend(%s v) { %s it; it.vid = v.vid; it.i = v.n; it.n = v.n; return it; }' % (it, n, ct, it)
        f[n + '__cbegin'] = 'static inline %s %s__cbegin(%s v) { %s it; it.vid = v.vid; it.i = 0; it.n = v.n; return it; }' % (it, n, ct, it)
        f[n + '__emplace_front'] = ('static inline void %s__emplace_front(%s *v, %s x) { __CPROVER_assume(v->n < VEC_MAX); v->n = v->n + 1; }' % (n, ct, e))
        f[n + '__erase'] = ('static inline %s %s__erase(%s *v, %s first, %s last) { __CPROVER_assert(first.i <= last.i && last.i <= v->n, '
                            '"UB: erase() with an invalid iterator range"); v->n = v->n - (last.i - first.i); '
                            '%s r; r.vid = v->vid; r.i = first.i; r.n = v->n; return r; }' % (it, n, ct, it, it, it))
        return f

    def vecrit(self, n, ct, e):
        # reverse iterator: position i denotes element i-1; rbegin: i = n, rend: i = 0
        vn = n.replace('vecrit_', 'vec_', 1)
        f = {}
        f[n + '__op_eq'] = 'static inline _Bool %s__op_eq(%s a, %s b) { return a.i == b.i; }' % (n, ct, ct)
        f[n + '__op_ne'] = 'static inline _Bool %s__op_ne(%s a, %s b) { return a.i != b.i; }' % (n, ct, ct)
        f[n + '__op_inc'] = ('static inline %s %s__op_inc(%s *a) { __CPROVER_assert(a->i > 0, "UB: reverse iterator incremented past rend()"); '
                             'a->i = a->i - 1; return *a; }' % (ct, n, ct))
        f[n + '__op_deref'] = ('static inline %s %s__op_deref(%s a) { __CPROVER_assert(a.i > 0 && a.i <= a.n, "UB: reverse iterator '
                               'dereferenced at rend()"); return %s__elem(a.vid, a.i - 1); }' % (e, n, ct, vn))
        f[n + '__op_arrow'] = ('static inline %s %s__op_arrow(%s a) { __CPROVER_assert(a.i > 0 && a.i <= a.n, "UB: reverse iterator '
                               'dereferenced at rend()"); return %s__elem(a.vid, a.i - 1); }' % (e, n, ct, vn))
        fit = n.replace('vecrit_', 'vecit_', 1)
        # reference to a struct element through a reverse iterator: the element the wrapped forward iterator i-1 denotes
        f[n + '__ref'] = ('static inline %s *%s__ref(%s a) { __CPROVER_assert(a.i > 0 && a.i <= a.n, "UB: reverse iterator '
                          'dereferenced at rend()"); %s f; f.vid = a.vid; f.i = a.i - 1; f.n = a.n; return %s__ref(f); }' % (e, n, ct, fit, fit))
        return f

    def vecit(self, n, ct, e):
        vn = n.replace('vecit_', 'vec_', 1).replace('deqit_', 'deq_', 1)
        f = {}
        f[n + '__op_eq'] = 'static inline _Bool %s__op_eq(%s a, %s b) { return a.i == b.i; }' % (n, ct, ct)
        f[n + '__op_ne'] = 'static inline _Bool %s__op_ne(%s a, %s b) { return a.i != b.i; }' % (n, ct, ct)
        f[n + '__op_inc'] = 'static inline %s %s__op_inc(%s *a) { a->i = a->i + 1; return *a; }' % (ct, n, ct)
        f[n + '__op_inc_post'] = 'static inline %s %s__op_inc_post(%s *a) { %s o = *a; a->i = a->i + 1; return o; }' % (ct, n, ct, ct)
        f[n + '__op_sub'] = 'static inline int64_t %s__op_sub(%s a, %s b) { return (int64_t)a.i - (int64_t)b.i; }' % (n, ct, ct)
        f[n + '__op_deref'] = ('static inline %s %s__op_deref(%s a) { __CPROVER_assert(a.i < a.n, "UB: vector iterator '
                               'dereferenced at or past end()"); return %s__elem(a.vid, a.i); }' % (e, n, ct, vn))
        f[n + '__op_arrow'] = ('static inline %s %s__op_arrow(%s a) { __CPROVER_assert(a.i < a.n, "UB: vector iterator '
                               'dereferenced at or past end()"); return %s__elem(a.vid, a.i); }' % (e, n, ct, vn))
        return f

    # -- read-only view of unordered_set / unordered_map: size and elements are uninterpreted
    #    functions of the container handle (consistent across calls); iteration by position.
    #    Units that mutate a container give their own ghost model in the spec header.
    def assoc(self, n, ct, e):
        ty = self.ty
        f = {}
        it = ty.assoc_iter.get(ct)
        f[n + '__size'] = ('uint64_t __CPROVER_uninterpreted_size_%s(%s);\n'
                           'static inline uint64_t %s__size(%s c) { uint64_t k = __CPROVER_uninterpreted_size_%s(c); '
                           '__CPROVER_assume(k <= VEC_MAX); return k; }' % (n, ct, n, ct, n))
        f[n + '__empty'] = 'static inline _Bool %s__empty(%s c) { return %s__size(c) == 0; }' % (n, ct, n)
        if it:
            itn = S(it)
            f[n + '__begin'] = ('static inline %s %s__begin(%s c) { %s it; it.map = c; it.pos = 0; it.n = %s__size(c); '
                                'it.valid = 1; return it; }' % (it, n, ct, it, n))
            f[n + '__end'] = ('static inline %s %s__end(%s c) { %s it; it.map = c; it.n = %s__size(c); it.pos = it.n; '
                              'it.valid = 1; return it; }' % (it, n, ct, it, n))
        return f

    def mapit(self, n, ct, e):
        f = {}
        f[n + '__op_eq'] = 'static inline _Bool %s__op_eq(%s a, %s b) { return a.pos == b.pos; }' % (n, ct, ct)
        f[n + '__op_ne'] = 'static inline _Bool %s__op_ne(%s a, %s b) { return a.pos != b.pos; }' % (n, ct, ct)
        f[n + '__op_inc'] = ('static inline %s %s__op_inc(%s *a) { __CPROVER_assert(a->valid && a->pos < a->n, '
                             '"UB: increment of an invalid or end() container iterator"); a->pos = a->pos + 1; return *a; }' % (ct, n, ct))
        f[n + '__elem'] = '%s __CPROVER_uninterpreted_elem_%s(hnd_t, uint64_t);\nstatic inline %s %s__elem(hnd_t m, uint64_t pos) { return __CPROVER_uninterpreted_elem_%s(m, pos); }' % (e, n, e, n, n)
        f[n + '__op_deref'] = ('static inline %s %s__op_deref(%s a) { __CPROVER_assert(a.valid && a.pos < a.n, '
                               '"UB: dereference of an invalid or end() container iterator"); return %s__elem(a.map, a.pos); }' % (e, n, ct, n))
        f[n + '__op_arrow'] = ('static inline %s %s__op_arrow(%s a) { __CPROVER_assert(a.valid && a.pos < a.n, '
                               '"UB: dereference of an invalid or end() container iterator"); return %s__elem(a.map, a.pos); }' % (e, n, ct, n))
        return f

    def uptr(self, n, ct, e):
        f = {}
        if self.ty.is_oomd_struct(e):
            # unique_ptr to an object that is a struct in this unit: the spec maps the handle to storage
            f[n + '__op_arrow'] = ('%s *%s__resolve(%s p);\nstatic inline %s *%s__op_arrow(%s p) { __CPROVER_assert(p != 0, "UB: null unique_ptr '
                                   'dereferenced"); return %s__resolve(p); }' % (e, n, ct, e, n, ct, n))
            f[n + '__op_deref'] = ('%s *%s__resolve(%s p);\nstatic inline %s %s__op_deref(%s p) { __CPROVER_assert(p != 0, "UB: null unique_ptr '
                                   'dereferenced"); return *%s__resolve(p); }' % (e, n, ct, e, n, ct, n))
            f[n + '__op_conv_bool'] = 'static inline _Bool %s__op_conv_bool(%s p) { return p != 0; }' % (n, ct)
            return f
        f[n + '__op_arrow'] = ('static inline %s %s__op_arrow(%s p) { __CPROVER_assert(p != 0, "UB: null unique_ptr '
                               'dereferenced"); return (%s)p; }' % (e, n, ct, e))
        f[n + '__op_deref'] = ('static inline %s %s__op_deref(%s p) { __CPROVER_assert(p != 0, "UB: null unique_ptr '
                               'dereferenced"); return (%s)p; }' % (e, n, ct, e))
        f[n + '__from__nullptr_t'] = 'static inline %s %s__from__nullptr_t(nullptr_t x) { return (%s)0; }' % (ct, n, ct)
        f[n + '__get'] = 'static inline %s %s__get(%s p) { return (%s)p; }' % (e, n, ct, e)
        # unique_ptr<T>(raw) / reset(raw) / reset(): ownership of the SAME object identity (the destructor of a replaced
        # object is not modelled)
        f[n + '__from__' + S(e)] = 'static inline %s %s__from__%s(%s p) { return (%s)p; }' % (ct, n, S(e), e, ct)
        f[n + '__reset__' + S(e)] = 'static inline void %s__reset__%s(%s *u, %s p) { *u = (%s)p; }' % (n, S(e), ct, e, ct)
        f[n + '__reset'] = 'static inline void %s__reset(%s *u) { *u = (%s)0; }' % (n, ct, ct)
        f[n + '__op_conv_bool'] = 'static inline _Bool %s__op_conv_bool(%s p) { return p != 0; }' % (n, ct)
        f[n + '__op_not'] = 'static inline _Bool %s__op_not(%s p) { return p == 0; }' % (n, ct)
        return f

    def chrono(self):
        f = {}
        f['tp_t__ctor0'] = 'static inline tp_t tp_t__ctor0(void) { tp_t t; t.sec = 0; t.nsec = 0; return t; }'
        f['tp_t__op_eq'] = 'static inline _Bool tp_t__op_eq(tp_t a, tp_t b) { return a.sec == b.sec && a.nsec == b.nsec; }'
        f['tp_t__op_ne'] = 'static inline _Bool tp_t__op_ne(tp_t a, tp_t b) { return !(a.sec == b.sec && a.nsec == b.nsec); }'
        f['tp_t__op_lt'] = 'static inline _Bool tp_t__op_lt(tp_t a, tp_t b) { return a.sec < b.sec || (a.sec == b.sec && a.nsec < b.nsec); }'
        f['tp_t__op_gt'] = 'static inline _Bool tp_t__op_gt(tp_t a, tp_t b) { return b.sec < a.sec || (a.sec == b.sec && b.nsec < a.nsec); }'
        f['tp_t__op_le'] = 'static inline _Bool tp_t__op_le(tp_t a, tp_t b) { return a.sec < b.sec || (a.sec == b.sec && a.nsec <= b.nsec); }'
        f['tp_t__op_ge'] = 'static inline _Bool tp_t__op_ge(tp_t a, tp_t b) { return b.sec < a.sec || (a.sec == b.sec && b.nsec <= a.nsec); }'
        f['tp_t__op_sub'] = ('static inline dur_ns_t tp_t__op_sub(tp_t a, tp_t b) { dur_ns_t d; d.sec = a.sec - b.sec; '
                             'd.nsec = a.nsec - b.nsec; if (d.nsec < 0) { d.nsec = d.nsec + 1000000000; d.sec = d.sec - 1; } return d; }')
        f['tp_t__op_add__dur_s_t'] = 'static inline tp_t tp_t__op_add__dur_s_t(tp_t a, dur_s_t d) { tp_t t; t.sec = a.sec + d.s; t.nsec = a.nsec; return t; }'
        f['tp_t__op_sub__dur_s_t'] = 'static inline tp_t tp_t__op_sub__dur_s_t(tp_t a, dur_s_t d) { tp_t t; t.sec = a.sec - d.s; t.nsec = a.nsec; return t; }'
        f['dur_s_t__from__int'] = 'static inline dur_s_t dur_s_t__from__int(int k) { dur_s_t d; d.s = k; return d; }'
        f['dur_s_t__from__int64_t'] = 'static inline dur_s_t dur_s_t__from__int64_t(int64_t k) { dur_s_t d; d.s = k; return d; }'
        f['dur_s_t__count'] = 'static inline int64_t dur_s_t__count(dur_s_t d) { return d.s; }'
        f['dur_us_t__from__int'] = 'static inline dur_us_t dur_us_t__from__int(int k) { dur_us_t d; d.us = k; return d; }'
        f['dur_us_t__from__int64_t'] = 'static inline dur_us_t dur_us_t__from__int64_t(int64_t k) { dur_us_t d; d.us = k; return d; }'
        f['dur_us_t__count'] = 'static inline int64_t dur_us_t__count(dur_us_t d) { return d.us; }'
        f['dur_ms_t__from__int'] = 'static inline dur_ms_t dur_ms_t__from__int(int k) { dur_ms_t d; d.ms = k; return d; }'
        f['dur_ms_t__count'] = 'static inline int64_t dur_ms_t__count(dur_ms_t d) { return d.ms; }'
        # duration arithmetic between integer durations (chrono converts both operands to the finer unit: exact)
        units = {'dur_s_t': ('s', 1000000), 'dur_ms_t': ('ms', 1000), 'dur_us_t': ('us', 1)}
        for ta, (fa, ka) in units.items():
            f['%s__op_sub' % ta] = 'static inline %s %s__op_sub(%s a, %s b) { %s d; d.%s = a.%s - b.%s; return d; }' % (ta, ta, ta, ta, ta, fa, fa, fa)
            f['%s__op_add' % ta] = 'static inline %s %s__op_add(%s a, %s b) { %s d; d.%s = a.%s + b.%s; return d; }' % (ta, ta, ta, ta, ta, fa, fa, fa)
            f['%s__op_addassign' % ta] = 'static inline %s %s__op_addassign(%s *a, %s b) { a->%s = a->%s + b.%s; return *a; }' % (ta, ta, ta, ta, fa, fa, fa)
            f['%s__op_subassign' % ta] = 'static inline %s %s__op_subassign(%s *a, %s b) { a->%s = a->%s - b.%s; return *a; }' % (ta, ta, ta, ta, fa, fa, fa)
            f['ext__max__%s_%s' % (ta, ta)] = 'static inline %s ext__max__%s_%s(%s a, %s b) { return (a.%s < b.%s) ? b : a; }' % (ta, ta, ta, ta, ta, fa, fa)
            f['ext__min__%s_%s' % (ta, ta)] = 'static inline %s ext__min__%s_%s(%s a, %s b) { return (b.%s < a.%s) ? b : a; }' % (ta, ta, ta, ta, ta, fa, fa)
            for tb, (fb, kb) in units.items():
                k = min(ka, kb)
                A = '(a.%s * %dL)' % (fa, ka // k) if ka // k != 1 else 'a.%s' % fa
                B = '(b.%s * %dL)' % (fb, kb // k) if kb // k != 1 else 'b.%s' % fb
                suf = '' if ta == tb else '__' + tb
                for opn, opc in (('lt', '<'), ('le', '<='), ('gt', '>'), ('ge', '>='), ('eq', '=='), ('ne', '!=')):
                    f['%s__op_%s%s' % (ta, opn, suf)] = 'static inline _Bool %s__op_%s%s(%s a, %s b) { return %s %s %s; }' % (ta, opn, suf, ta, tb, A, opc, B)
                # duration / duration: the common representation (int64), truncating
                f['%s__op_div%s' % (ta, suf)] = ('static inline int64_t %s__op_div%s(%s a, %s b) { __CPROVER_assert(%s != 0, "UB: integer division of a duration by a zero duration"); '
                                                 'return I_DIV_i64(%s, %s); }' % (ta, suf, ta, tb, B, A, B))
        # duration_cast<seconds>(nanoseconds): truncation toward zero
        f['ext__duration_cast__dur_s_t__dur_ns_t'] = (
            'static inline dur_s_t ext__duration_cast__dur_s_t__dur_ns_t(dur_ns_t d) { dur_s_t r; '
            'r.s = (d.sec < 0 && d.nsec > 0) ? d.sec + 1 : d.sec; return r; }')
        f['ext__now'] = ('tp_t ext__now(void)\n  __CPROVER_assigns(g_last_now)\n'
                         '  __CPROVER_ensures(TP_VALID(__CPROVER_return_value) && !TP_IS_EPOCH(__CPROVER_return_value))\n'
                         '  __CPROVER_ensures(TP_LE(__CPROVER_old(g_last_now), __CPROVER_return_value))\n'
                         '  __CPROVER_ensures(TP_EQ(g_last_now, __CPROVER_return_value));')
        return f

    def misc(self):
        f = {}
        f['systemError__int'] = 'static inline exc_t systemError__int(int code) { return (exc_t)EXC_system_error; }'
        f['systemError__exc_t'] = 'static inline exc_t systemError__exc_t(exc_t e) { return (exc_t)EXC_system_error; }'
        f['ext__max__int64_t'] = 'static inline int64_t ext__max__int64_t(void) { return INT64_MAX; }   /* numeric_limits<int64_t>::max() */'
        f['ext__min__int64_t'] = 'static inline int64_t ext__min__int64_t(void) { return INT64_MIN; }'
        f['ext__max__int'] = 'static inline int ext__max__int(void) { return 2147483647; }'
        f['ext__max__uint64_t'] = 'static inline uint64_t ext__max__uint64_t(void) { return UINT64_MAX; }'
        f['str_t__ctor0'] = 'static inline str_t str_t__ctor0(void) { return STR_EMPTY; }'
        f['str_t__empty'] = 'static inline _Bool str_t__empty(str_t s) { return s == STR_EMPTY; }'
        f['MOVE__str_t'] = ('str_t nondet_moved_from_str(void);\nstatic inline str_t MOVE__str_t(str_t *p) { str_t v = *p; *p = nondet_moved_from_str(); return v; }'
                            '   /* std::move(s): s stays valid, its value is unspecified */')
        f['str_t__op_eq'] = 'static inline _Bool str_t__op_eq(str_t a, str_t b) { return a == b; }'
        f['str_t__op_ne'] = 'static inline _Bool str_t__op_ne(str_t a, str_t b) { return a != b; }'
        for t in ('int', 'int64_t', 'uint64_t', 'uint32_t', 'double', 'float'):
            f['ext__min__%s_%s' % (t, t)] = 'static inline %s ext__min__%s_%s(%s a, %s b) { return (b < a) ? b : a; }' % (t, t, t, t, t)
            f['ext__max__%s_%s' % (t, t)] = 'static inline %s ext__max__%s_%s(%s a, %s b) { return (a < b) ? b : a; }' % (t, t, t, t, t)
        return f


def raise_unsupported(msg):
    from cxx2c import Unsupported
    raise Unsupported(msg)
