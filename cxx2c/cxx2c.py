#!/usr/bin/env python3
"""cxx2c — mechanical C++ -> C extraction of oomd functions from clang's JSON AST.

The C text produced here is what CBMC verifies.  Every statement, operator,
implicit conversion and call of the real function body is emitted node by node;
calls into the C++ library / other oomd classes become calls to C functions whose
*names are derived mechanically* from the callee (class C-type + "__" + method,
"ext__" + name for free functions outside namespace Oomd).  Those functions are
declared, with contracts, in acxx.h (library) or in the unit's spec header
(boundary stubs).  A callee for which no declaration exists makes the generated C
fail to compile -> the run is UNDECIDED (exit 2), never a pass.

Anything the emitter does not know raises Unsupported (exit 2).
What is dropped is listed in the manifest comment of the generated file.
"""
import hashlib
import json
import os
import re
import subprocess
import sys


class Unsupported(Exception):
    pass


# ----------------------------------------------------------------------------
# AST loading / index
# ----------------------------------------------------------------------------

CLANG_FLAGS = ['-std=c++20', '-DMESON_BUILD', '-fsyntax-only', '-Wno-everything']


def clang_dump(repo, tu, out_path, filt='Oomd'):
    inc = ['-I%s/src' % repo, '-I%s/_build' % repo, '-I/usr/include/jsoncpp']
    cmd = ['clang++'] + CLANG_FLAGS + inc + [
        '-Xclang', '-ast-dump=json', '-Xclang', '-ast-dump-filter=' + filt,
        os.path.join(repo, tu)]
    with open(out_path, 'w') as f:
        r = subprocess.run(cmd, stdout=f, stderr=subprocess.PIPE, text=True)
    if r.returncode != 0:
        raise Unsupported('clang failed on %s: %s' % (tu, r.stderr[-2000:]))


def load_docs(path):
    s = open(path).read()
    dec = json.JSONDecoder()
    i, n, docs = 0, len(s), []
    while i < n:
        while i < n and s[i] in ' \n\r\t':
            i += 1
        if i >= n:
            break
        d, j = dec.raw_decode(s, i)
        docs.append(d)
        i = j
    return docs


class Index:
    """id -> node, id -> qualified name, for everything inside namespace Oomd."""

    def __init__(self, docs):
        self.node = {}
        self.qname = {}
        self.parent = {}
        self.records = {}     # qname -> definition node
        self.enums = {}       # qname -> EnumDecl
        self.functions = {}   # qname -> [nodes with body]
        self._pattern_classes = set()
        self.methods_by_class = {}  # class qname -> {name: count of distinct decls}
        self.lastloc = {}
        self.aliases = {}
        self._last_line = None
        for d in docs:
            self._lines(d)
        for d in docs:
            if d.get('kind') == 'NamespaceDecl':
                self._walk(d, '', None)
            elif d.get('kind') in ('FunctionDecl', 'FunctionTemplateDecl', 'EnumDecl') and d.get('name'):
                self._walk(d, '', None)       # a file-local function / template / enum delivered by an extra ast filter
        # second pass: out-of-line definitions
        for d in docs:
            if d.get('kind') == 'NamespaceDecl':
                self._walk_defs(d, '')

    def _lines(self, n):
        # clang's JSON omits 'line' when unchanged from the previously printed location
        def upd(l):
            if not isinstance(l, dict):
                return None
            got = None
            for sub in ('spellingLoc', 'expansionLoc'):
                if sub in l:
                    r = upd(l[sub])
                    if sub == 'expansionLoc':
                        got = r
            if 'file' in l:
                self._last_file = l['file']
            if 'line' in l:
                self._last_line = l['line']
            if 'offset' in l and got is None:
                got = self._last_line
            return got
        stack = [n]
        # iterative DFS in document order
        def walk(x):
            if 'loc' in x:
                upd(x['loc'])
            b = None
            if 'range' in x:
                b = upd(x['range'].get('begin'))
                upd(x['range'].get('end'))
            x['_line'] = b if b is not None else self._last_line
            x['_file'] = getattr(self, '_last_file', None)
            for c in x.get('inner', []):
                if isinstance(c, dict):
                    walk(c)
        import sys as _s
        _s.setrecursionlimit(100000)
        walk(n)

    SCOPES = ('NamespaceDecl', 'CXXRecordDecl', 'ClassTemplateDecl',
              'ClassTemplateSpecializationDecl', 'EnumDecl',
              'ClassTemplatePartialSpecializationDecl')

    def _walk(self, n, prefix, parent):
        k = n.get('kind')
        nid = n.get('id')
        name = n.get('name', '')
        if k == 'ClassTemplateDecl':
            # children: template params, CXXRecordDecl (pattern), specializations
            for c in n.get('inner', []):
                if isinstance(c, dict) and c.get('kind') in (
                        'CXXRecordDecl', 'ClassTemplateSpecializationDecl'):
                    self._walk(c, prefix, parent)
            return
        q = (prefix + '::' + name) if prefix else name
        if nid:
            self.node[nid] = n
            self.qname[nid] = q
            self.parent[nid] = parent
        if k in ('CXXRecordDecl', 'ClassTemplateSpecializationDecl'):
            if n.get('completeDefinition') or any(
                    isinstance(c, dict) and c.get('kind') == 'FieldDecl'
                    for c in n.get('inner', [])):
                key = q
                if k == 'ClassTemplateSpecializationDecl':
                    key = q + '<spec>'
                    self.records[key] = n
                    # the (single) instantiation is the one the daemon registers
                self.records.setdefault(q if k == 'CXXRecordDecl' else key, n)
        if k == 'EnumDecl':
            self.enums[q] = n
        if k == 'CXXRecordDecl' and getattr(self, '_spec_depth', 0) == 0:
            self._pattern_classes.add(q)
        if k in self.SCOPES:
            if k == 'ClassTemplateSpecializationDecl':
                self._spec_depth = getattr(self, '_spec_depth', 0) + 1
            for c in n.get('inner', []):
                if isinstance(c, dict):
                    self._walk(c, q if k != 'EnumDecl' or n.get('scopedEnumTag') else prefix, nid)
            if k == 'ClassTemplateSpecializationDecl':
                self._spec_depth -= 1
        elif k in ('CXXMethodDecl', 'FunctionDecl', 'CXXConstructorDecl',
                   'CXXDestructorDecl', 'FunctionTemplateDecl', 'CXXConversionDecl'):
            if k == 'FunctionTemplateDecl':
                first = True
                for c in n.get('inner', []):
                    if isinstance(c, dict) and c.get('kind') in ('CXXMethodDecl', 'FunctionDecl'):
                        # the first is the pattern, the others are its implicit instantiations
                        self._ftd_inst = not first
                        first = False
                        self._walk(c, prefix, parent)
                        self._ftd_inst = False
                return
            cls = prefix
            self.methods_by_class.setdefault(cls, {}).setdefault(name, set())
            if not n.get('previousDecl') and not (getattr(self, '_spec_depth', 0) > 0 and cls in self._pattern_classes):
                self.methods_by_class[cls][name].add(nid)
            if any(isinstance(c, dict) and c.get('kind') in ('CompoundStmt', 'CXXTryStmt')
                   for c in n.get('inner', [])):
                n['_inst'] = getattr(self, '_spec_depth', 0) > 0 or getattr(self, '_ftd_inst', False)     # body instantiated inside a class template specialization
                self.functions.setdefault(q, []).append(n)
        elif k in ('TypeAliasDecl', 'TypedefDecl'):
            t = n.get('type', {})
            self.aliases[name] = t.get('desugaredQualType') or t.get('qualType')
            self.aliases[q] = self.aliases[name]

    def _walk_defs(self, n, prefix):
        # out-of-line member definitions: parentDeclContextId names the class
        k = n.get('kind')
        name = n.get('name', '')
        q = (prefix + '::' + name) if prefix else name
        if k == 'NamespaceDecl':
            for c in n.get('inner', []):
                if isinstance(c, dict):
                    self._walk_defs(c, q)
            return
        if k in ('CXXMethodDecl', 'CXXConstructorDecl', 'CXXDestructorDecl'):
            pid = n.get('parentDeclContextId')
            if pid and pid in self.qname:
                cq = self.qname[pid]
                fq = cq + '::' + name
                self.qname[n['id']] = fq
                if any(isinstance(c, dict) and c.get('kind') in ('CompoundStmt', 'CXXTryStmt')
                       for c in n.get('inner', [])):
                    lst = self.functions.setdefault(fq, [])
                    if n not in lst:
                        lst.append(n)
                    # remove the wrongly-qualified entry
                    wrong = self.functions.get(q)
                    if wrong and n in wrong and q != fq:
                        wrong.remove(n)

    def is_overloaded(self, cls, name):
        return len(self.methods_by_class.get(cls, {}).get(name, ())) > 1


# ----------------------------------------------------------------------------
# types
# ----------------------------------------------------------------------------

def split_targs(s):
    """split top-level template args of 'a<b,c<d>>, e' style list"""
    out, depth, cur = [], 0, ''
    for ch in s:
        if ch in '<([':
            depth += 1
        elif ch in '>)]':
            depth -= 1
        if ch == ',' and depth == 0:
            out.append(cur.strip())
            cur = ''
        else:
            cur += ch
    if cur.strip():
        out.append(cur.strip())
    return out


def strip_cvref(t):
    t = t.strip()
    changed = True
    while changed:
        changed = False
        for suf in ('&&', '&'):
            if t.endswith(suf):
                t = t[:-len(suf)].strip()
                changed = True
        for pre in ('const ', 'volatile ', 'struct ', 'class ', 'enum ', 'typename '):
            if t.startswith(pre):
                t = t[len(pre):].strip()
                changed = True
        for suf in (' const', ' volatile'):
            if t.endswith(suf):
                t = t[:-len(suf)].strip()
                changed = True
    return t


def tmpl(t):
    """'name<args>' -> (name, [args]) or (t, None)"""
    i = t.find('<')
    if i < 0 or not t.endswith('>'):
        return t, None
    return t[:i], split_targs(t[i + 1:-1])


SCALARS = {
    'bool': '_Bool', 'char': 'char', 'signed char': 'signed char',
    'unsigned char': 'unsigned char', 'short': 'short', 'unsigned short': 'unsigned short',
    'int': 'int', 'unsigned int': 'uint32_t', 'unsigned': 'uint32_t',
    'long': 'int64_t', 'unsigned long': 'uint64_t', 'long long': 'int64_t',
    'unsigned long long': 'uint64_t', 'float': 'float', 'double': 'double',
    'long double': 'long double', 'void': 'void',
    'int64_t': 'int64_t', 'uint64_t': 'uint64_t', 'int32_t': 'int', 'uint32_t': 'uint32_t',
    'size_t': 'uint64_t', 'ssize_t': 'int64_t', 'pid_t': 'int', 'std::size_t': 'uint64_t',
    'uint8_t': 'unsigned char', 'ino_t': 'uint64_t', '__ino_t': 'uint64_t',
    'std::nullopt_t': 'nullopt_t', 'std::nullptr_t': 'nullptr_t',
}

DUR = {
    'std::ratio<1, 1000000000>': 'dur_ns_t', 'std::ratio<1, 1000000>': 'dur_us_t',
    'std::ratio<1, 1000>': 'dur_ms_t', 'std::ratio<1, 1>': 'dur_s_t', 'std::ratio<1>': 'dur_s_t',
    'std::ratio<60, 1>': 'dur_min_t', 'std::ratio<60>': 'dur_min_t',
}


def sanitize(s):
    return re.sub(r'[^A-Za-z0-9_]', '_', s)


class Types:
    def __init__(self, cfg, index):
        self.cfg = cfg
        self.index = index
        self.used = []          # ordered list of ctypes used (for DEFINE_ macros)
        self.kinds = {}         # ctype -> 'scalar'|'value'|'handle'
        self.elem = {}          # wrapper ctype -> element ctype
        self.extra = cfg.get('types', {})   # regex -> ctype overrides
        self.value_structs = set(cfg.get('value_structs', []))
        self.enum_ctypes = {}
        self.oomd_structs = set()
        self.pair_elems = {}
        self.array_len = {}
        self.tuple_elems = {}
        self.assoc_iter = {}

    def note(self, ct, kind, elem=None):
        if ct not in self.kinds:
            self.kinds[ct] = kind
            self.used.append(ct)
            if elem is not None:
                self.elem[ct] = elem
        return ct

    def is_oomd_struct(self, ct):
        """a struct generated from an oomd record (not a library wrapper such as opt_/vec_)"""
        return self.kinds.get(ct) == 'value' and ct in self.oomd_structs

    def kind(self, ct):
        if ct.endswith('*'):
            return 'pointer'
        return self.kinds.get(ct, 'scalar')

    def ctype_of(self, tnode):
        if tnode is None:
            raise Unsupported('missing type')
        t = tnode.get('desugaredQualType') or tnode.get('qualType')
        try:
            return self.ctype(t)
        except Unsupported:
            q = tnode.get('qualType')
            if q and q != t:
                return self.ctype(q)
            raise

    def ctype(self, t):
        t = strip_cvref(t)
        t = t.replace('std::__cxx11::', 'std::')
        for rx, ct in self.extra.items():
            if re.fullmatch(rx, t):
                return self.note(ct, self.cfg.get('type_kinds', {}).get(ct, 'handle'))
        if re.match(r'^[\w:<>, \*&]+ \((\*|&)\)\(.*\)$', t) or (re.match(r'^[\w:<>, \*&]+ \(.*\)$', t) and not t.startswith('decltype')):
            return self.note('function_t', 'handle')     # function type / pointer / reference: an identity
        if 'unnamed enum at /usr/' in t:
            return self.note('int', 'scalar')
        if re.match(r'^(const )?char ?\[\d*\]$', t) or t in ('char *', 'const char *', 'char *const', 'const char *const'):
            return self.note('str_t', 'handle')      # C strings: interned like std::string
        if t in SCALARS:
            return self.note(SCALARS[t], 'scalar')
        m = re.match(r'^std::(?:remove_reference|remove_cv|remove_const|decay|remove_cvref)<(.*)>::type$', t)
        if m:
            inner = strip_cvref(m.group(1))
            if not inner.startswith(('std::', 'Oomd::')) and '<' in inner:
                inner = 'std::' + inner
            return self.ctype(inner)
        m = re.match(r'^decltype\((.*)::(\w+)\)$', t)
        if m:
            cls, fld = m.group(1), m.group(2)
            for q, rec in self.index.records.items():
                if q.endswith(cls) or q.endswith('::' + cls):
                    for c in kids(rec):
                        if c.get('kind') == 'FieldDecl' and c.get('name') == fld:
                            return self.ctype_of(c['type'])
            raise Unsupported('cannot resolve %s' % t)
        m = re.match(r'^(?:std::)?__decay_and_strip<(.*)>::__type$', t)
        if m:
            inner = strip_cvref(m.group(1))
            if not inner.startswith(('std::', 'Oomd::')) and '<' in inner:
                inner = 'std::' + inner
            return self.ctype(inner)
        m = re.match(r'^(?:Oomd::)?(?:PluginArgParser::)?Identity<(.*)>::type$', t)
        if m:
            return self.ctype(strip_cvref(m.group(1)))
        m = re.match(r'^(?:__gnu_cxx::__enable_if|std::enable_if)<(.*)>::_*type$', t)
        if m:
            a = split_targs(m.group(1))
            return self.ctype(a[1] if len(a) > 1 else 'void')
        if t.endswith('::value_type') and t[:-len('::value_type')].endswith('>'):
            nm, ar = tmpl(t[:-len('::value_type')])
            if ar:
                return self.ctype(ar[-1] if 'alloc_traits' in nm else ar[0])
        if t.endswith('::element_type') and t[:-len('::element_type')].endswith('>'):
            base = self.ctype(t[:-len('::element_type')])
            if base.startswith('vec_'):
                return base
            e = self.elem.get(base)
            if e is None:
                raise Unsupported('member type %r' % t)
            return e
        for suf in ('::pointer', '::reference'):
            if t.endswith(suf) and t[:-len(suf)].endswith('>'):
                base = self.ctype(t[:-len(suf)])
                e = self.elem.get(base)
                if e is None:
                    raise Unsupported('member type %r' % t)
                if suf == '::reference' or self.kind(e) == 'handle':
                    return e
                return e + ' *'
        for suf in ('::reverse_iterator', '::const_reverse_iterator'):
            if t.endswith(suf) and t[:-len(suf)].endswith('>'):
                base = self.ctype(t[:-len(suf)])
                e = self.elem.get(base)
                if base.startswith('vec_'):
                    self.note('vecit_' + sanitize(e), 'value', e)     # a reverse iterator wraps the forward one
                    return self.note('vecrit_' + sanitize(e), 'value', e)
                raise Unsupported('reverse iterator of %r' % base)
        for suf in ('::iterator', '::const_iterator'):
            if t.endswith(suf) and t[:-len(suf)].endswith('>'):
                base = self.ctype(t[:-len(suf)])
                e = self.elem.get(base)
                if base.startswith('vec_'):
                    return self.note('vecit_' + sanitize(e), 'value', e)
                if base.startswith('deq_'):
                    return self.note('deqit_' + sanitize(e), 'value', e)
                if base in self.assoc_iter:
                    return self.assoc_iter[base]
                raise Unsupported('iterator of %r' % base)
        if t.endswith('*'):
            inner = self.ctype(t[:-1])
            if self.kind(inner) == 'handle':
                return inner          # pointer to opaque object == its handle
            return inner + ' *'
        name, args = tmpl(t)
        if args is not None and name in ('pair', 'tuple', 'vector', 'optional', 'function', 'unordered_map', 'unordered_set',
                                         'map', 'set', 'deque', 'unique_ptr', 'shared_ptr', 'reference_wrapper', 'array'):
            name = 'std::' + name      # printed without the namespace inside other std templates
        if name in ('__optional_eq_t', '__optional_ne_t', '__optional_lt_t', '__optional_gt_t', '__optional_le_t',
                    '__optional_ge_t', 'std::__optional_eq_t', 'std::__optional_ne_t', 'std::__optional_lt_t',
                    'std::__optional_gt_t', 'std::__optional_le_t', 'std::__optional_ge_t'):
            return self.note('_Bool', 'scalar')
        if args is None:
            if t == 'Oomd::SystemError':
                return self.note('exc_t', 'handle')
            if t.startswith('Oomd::'):
                al = self.index.aliases.get(t)
                if al and strip_cvref(al) != t and t not in self.index.records and t not in self.index.enums:
                    return self.ctype(al)
                return self.oomd_type(t)
            if t == 'std::string':
                return self.note('str_t', 'handle')
            if t in ('std::mutex',):
                return self.note('mutex_t', 'handle')
            if t in ('std::exception', 'std::system_error', 'std::runtime_error', 'std::invalid_argument',
                     'std::out_of_range', 'std::logic_error', 'std::error_code', 'std::bad_optional_access'):
                return self.note('exc_t', 'handle')
            if t in ('Json::Value',):
                return self.note('json_t', 'handle')
            if t in ('Json::ValueType',):
                return self.note('int', 'scalar')
            if t in ('std::ostream', 'std::basic_ostream<char>', 'ostream'):
                return self.note('ostream_t', 'handle')      # an output sink (writes are kept with config keep_streams)
            if t in ('FILE', '_IO_FILE', 'struct _IO_FILE'):
                return self.note('FILE_t', 'handle')
            if t in ('DIR', '__dirstream', 'struct __dirstream'):
                return self.note('DIR_t', 'handle')
            if t == 'std::thread':
                return self.note('thread_t', 'handle')
            if t == 'std::condition_variable':
                return self.note('condvar_t', 'handle')
            if t.startswith('(lambda at'):
                return self.note('lambda_t', 'handle')
            al = self.index.aliases.get(t) or (self.index.aliases.get(t.split('::')[-1]) if '<' not in t else None)
            if al and strip_cvref(al) != t:
                return self.ctype(al)
            for pre in ('Oomd::', 'Oomd::Engine::', 'Oomd::Fs::'):
                if pre + t in self.index.records or pre + t in self.index.enums:
                    return self.oomd_type(pre + t)
            cands = [k for k in list(self.index.records) + list(self.index.enums)
                     if k.endswith('::' + t) and not k.endswith('<spec>')]
            if len(set(cands)) == 1:
                return self.oomd_type(cands[0])
            raise Unsupported('unknown type %r' % t)
        if name == 'std::optional':
            e = self.ctype(args[0])
            return self.note('opt_' + sanitize(e), 'value', e)
        if name == 'std::vector':
            e = self.ctype(args[0])
            return self.note('vec_' + sanitize(e), 'value', e)
        if name == 'std::deque':
            e = self.ctype(args[0])
            return self.note('deq_' + sanitize(e), 'value', e)
        if name == 'std::reference_wrapper':
            e = self.ctype(args[0])
            if self.is_oomd_struct(e):
                return e + ' *'      # a reference to a value object: aliasing is kept
            return e
        if name in ('std::shared_ptr', 'std::__shared_ptr', 'std::__shared_ptr_access'):
            e = self.ctype(args[0])
            if e.startswith('vec_'):
                return e          # shared_ptr<vector<T>>: transparent (contents are abstract; identity not needed)
            return self.note('uptr_' + sanitize(e), 'handle', e)
        if name == 'std::unique_ptr':
            e = self.ctype(args[0])
            return self.note('uptr_' + sanitize(e), 'handle', e)
        if name == 'std::basic_string':
            return self.note('str_t', 'handle')
        if name == 'std::basic_string_view':
            return self.note('str_t', 'handle')
        if name in ('std::unordered_set', 'std::set'):
            e = self.ctype(args[0])
            ct = self.note('uset_' + sanitize(e), 'handle', e)
            self.assoc_iter[ct] = self.note('mapit_' + sanitize(e), 'value', e)
            return ct
        if name in ('std::unordered_map', 'std::map'):
            k = self.ctype(args[0])
            v = self.ctype(args[1])
            pr = self.ctype('std::pair<%s, %s>' % (args[0], args[1]))
            ct = self.note('umap_' + sanitize(k) + '_' + sanitize(v), 'handle', v)
            self.assoc_iter[ct] = self.note('mapit_' + sanitize(pr), 'value', pr)
            return ct
        if name == 'std::pair':
            a = self.ctype(args[0])
            b = self.ctype(args[1])
            ct = 'pair_' + sanitize(a) + '_' + sanitize(b)
            self.pair_elems[ct] = (a, b)
            return self.note(ct, 'value')
        if name in ('Oomd::SystemMaybe', 'SystemMaybe'):
            e = self.ctype(args[0])
            return self.note('maybe_' + sanitize(e), 'value', e)
        if name == 'std::chrono::time_point':
            return self.note('tp_t', 'value')
        if name == 'std::chrono::duration':
            r = args[1] if len(args) > 1 else 'std::ratio<1, 1>'
            if r in DUR:
                return self.note(DUR[r], 'value')
            raise Unsupported('duration ratio %r' % r)
        if name == 'std::reverse_iterator':
            inner = self.ctype(args[0])
            if inner.startswith('vecit_'):
                e = self.elem.get(inner)
                return self.note('vecrit_' + sanitize(e), 'value', e)
            raise Unsupported('reverse iterator over %r' % inner)
        if name == '__gnu_cxx::__normal_iterator':
            e = self.ctype(args[0])   # 'T *' -> handle or 'T *'
            e = e[:-2] if e.endswith(' *') else e
            return self.note('vecit_' + sanitize(e), 'value', e)
        if name in ('std::__detail::_Node_iterator', 'std::__detail::_Node_const_iterator',
                    'std::__detail::_Node_iterator_base',
                    'std::_Rb_tree_iterator', 'std::_Rb_tree_const_iterator'):
            e = self.ctype(args[0])
            return self.note('mapit_' + sanitize(e), 'value', e)
        if name == 'std::_Deque_iterator':
            e = self.ctype(args[0])
            return self.note('deqit_' + sanitize(e), 'value', e)
        if name == 'std::function':
            return self.note('function_t', 'handle')
        if name == 'std::array' and args and strip_cvref(args[0]) == 'char':
            return self.note('str_t', 'handle')      # char buffer (only ever handed to logging / libc text functions)
        if name == 'std::array' and args and len(args) == 2 and args[1].strip().isdigit():
            e = self.ctype(args[0])
            ct = 'arr%s_%s' % (args[1].strip(), sanitize(e))
            self.array_len[ct] = int(args[1].strip())
            return self.note(ct, 'value', e)
        if name in ('std::initializer_list', 'initializer_list'):
            return self.note('initlist_t', 'handle')
        if name in ('std::fpos',):
            return self.note('log_t', 'handle')
        if name in ('std::lock_guard', 'std::unique_lock'):
            return self.note('lock_t', 'handle')
        if name in ('std::atomic', 'std::__atomic_base'):
            return self.ctype(args[0])
        if name == 'std::tuple':
            cts = [self.ctype(a) for a in args]
            ct = 'tuple_' + '_'.join(sanitize(c) for c in cts)
            self.tuple_elems[ct] = cts
            return self.note(ct, 'value')
        if name.startswith('Oomd::'):
            # class template instantiation inside Oomd (e.g. KillPgScan<BaseKillPlugin>)
            return self.oomd_type(name)
        cands = set(k[:-len('<spec>')] if k.endswith('<spec>') else k for k in self.index.records
                    if (k[:-len('<spec>')] if k.endswith('<spec>') else k).endswith('::' + name))
        if len(cands) == 1:
            return self.oomd_type(cands.pop())
        if name in ('PluginRegistry',):
            return self.note('PluginRegistry', 'handle')
        raise Unsupported('unknown template type %r' % t)

    def oomd_type(self, q):
        short = q[len('Oomd::'):]
        if short.startswith('Engine::'):
            short = short[len('Engine::'):]
        ct = sanitize(short.replace('::', '_'))
        if q in self.index.enums:
            self.enum_ctypes[ct] = q
            return self.note(ct, 'scalar')
        if q in self.value_structs:
            self.oomd_structs.add(ct)
            return self.note(ct, 'value')
        return self.note(ct, 'handle')


# ----------------------------------------------------------------------------
# emitter
# ----------------------------------------------------------------------------

PASS_THROUGH = ('ExprWithCleanups', 'MaterializeTemporaryExpr', 'CXXBindTemporaryExpr',
                'ConstantExpr', 'ParenExpr', 'SubstNonTypeTemplateParmExpr',
                'CXXFunctionalCastExpr_passthrough')

MUTATING_METHODS = {
    'push_back', 'emplace_back', 'pop_back', 'clear', 'erase', 'insert', 'emplace',
    'reset', 'try_emplace', 'reserve', 'swap', 'emplace_front', 'push_front', 'pop_front',
    'resize', 'assign', 'append',
}
MUTATING_OPS = {'=', '++', '--', '+=', '-=', '*=', '/=', '[]'}

OPNAMES = {
    '==': 'eq', '!=': 'ne', '<': 'lt', '>': 'gt', '<=': 'le', '>=': 'ge', '+': 'add',
    '-': 'sub', '*': 'mul', '/': 'div', '%': 'mod', '!': 'not', '&&': 'and', '||': 'or',
    '=': 'assign', '+=': 'addassign', '-=': 'subassign', '++': 'inc', '--': 'dec',
    '->': 'arrow', '[]': 'index', '()': 'call', '<<': 'shl', '>>': 'shr', '&': 'amp',
    '|': 'bor', '^': 'xor', '~': 'compl', '<=>': 'spaceship', '*=': 'mulassign',
    '/=': 'divassign',
}

LOG_TYPES = ('Oomd::LogStream', 'std::basic_ostream', 'std::basic_ostringstream',
             'std::ostream', 'std::ostringstream', 'std::basic_stringstream')


def is_log_type(tnode):
    if not tnode:
        return False
    t = (tnode.get('desugaredQualType') or '') + ' ' + (tnode.get('qualType') or '')
    return any(x in t for x in LOG_TYPES) or 'LogStream' in t


def kids(n):
    return [c for c in n.get('inner', []) if isinstance(c, dict) and c.get('kind')]


class FnEmitter:
    def __init__(self, unit, fn_node, qname, cname, cfg):
        self.u = unit
        self.idx = unit.index
        self.ty = unit.types
        self.fn = fn_node
        self.qname = qname
        self.cname = cname
        self.cfg = cfg
        self.out = []
        self.ind = 1
        self.loop_no = 0
        self.tmp_no = 0
        self.dropped = []
        self.guards = []      # stack of (scope_depth, loop_depth, code_lines)
        self.scope_depth = 0
        self.loop_depth = 0
        self.loop_scope = []  # scope_depth at each enclosing loop/switch
        self.ptr_params = set()
        self.locals_ptr = set()
        self.ret_ct = 'void'
        self.self_ct = None
        self.try_stack = []
        self.lambda_vars = {}   # var id -> lambda node
        self.renames = {}
        self.uses_exc = False

    # -- helpers
    def w(self, s):
        self.out.append('  ' * self.ind + s)

    def may_throw_in(self, text):
        for nm in self.cfg.get('may_throw', []):
            if re.search(r'\b%s\s*\(' % re.escape(nm), text):
                return True
        return False

    def propagate(self, text):
        """after a statement that called a may-throw function: leave if an exception is in flight"""
        if self.may_throw_in(text):
            self.w('if (ghost_exc)')
            self.u.exc.leave(self, '/* exception propagates */')

    def loc(self, n):
        return n.get('_line')

    def unsupported(self, n, why=''):
        raise Unsupported('%s: unsupported %s %s at line %s' % (
            self.qname, n.get('kind'), why, self.loc(n)))

    def ct(self, n):
        return self.ty.ctype_of(n.get('type'))

    def strip(self, n):
        while n.get('kind') in PASS_THROUGH or (
                n.get('kind') == 'ImplicitCastExpr' and n.get('castKind') in (
                    'NoOp', 'LValueToRValue', 'DerivedToBase', 'UncheckedDerivedToBase')):
            n = kids(n)[0]
        return n

    # -- expressions ---------------------------------------------------------
    def expr(self, n):
        k = n['kind']
        m = getattr(self, 'e_' + k, None)
        if m is None:
            self.unsupported(n)
        return m(n)

    def e_ExprWithCleanups(self, n):
        return self.expr(kids(n)[0])
    e_MaterializeTemporaryExpr = e_ExprWithCleanups
    e_CXXBindTemporaryExpr = e_ExprWithCleanups
    e_ConstantExpr = e_ExprWithCleanups
    e_SubstNonTypeTemplateParmExpr = e_ExprWithCleanups

    def e_CXXRewrittenBinaryOperator(self, n):
        # C++20 rewritten comparison: the child is the semantic form, e.g. !(a == b) or
        # (a <=> b) < 0.  The latter is emitted as the relational operator on a and b.
        inner = self.strip(kids(n)[0])
        if inner.get('kind') in ('CXXOperatorCallExpr', 'BinaryOperator'):
            ks = kids(inner)
            if inner['kind'] == 'CXXOperatorCallExpr':
                cal = self.strip(ks[0])
                while cal.get('kind') == 'ImplicitCastExpr':
                    cal = self.strip(kids(cal)[0])
                opn = cal.get('referencedDecl', {}).get('name', '')[len('operator'):].strip()
                operands = ks[1:]
            else:
                opn = inner.get('opcode')
                operands = ks
            if opn in ('<', '>', '<=', '>=') and len(operands) == 2:
                lhs, rhs = self.strip(operands[0]), self.strip(operands[1])
                sw = None
                if lhs.get('kind') == 'CXXOperatorCallExpr':
                    sw = (lhs, False)
                elif rhs.get('kind') == 'CXXOperatorCallExpr':
                    sw = (rhs, True)      # 0 < (b <=> a)
                if sw:
                    sk = kids(sw[0])
                    scal = self.strip(sk[0])
                    while scal.get('kind') == 'ImplicitCastExpr':
                        scal = self.strip(kids(scal)[0])
                    if scal.get('referencedDecl', {}).get('name') == 'operator<=>':
                        a, b = sk[1], sk[2]
                        if sw[1]:
                            opn = {'<': '>', '>': '<', '<=': '>=', '>=': '<='}[opn]
                        cta, ctb = self.ct(a), self.ct(b)
                        if self.ty.kind(cta) == 'scalar' and self.ty.kind(ctb) == 'scalar':
                            return '(%s %s %s)' % (self.expr(a), opn, self.expr(b))
                        cn = '%s__op_%s' % (sanitize(cta), OPNAMES[opn])
                        if ctb != cta:
                            cn += '__' + sanitize(ctb)
                        return '%s(%s, %s)' % (cn, self.expr(a), self.expr(b))
        return self.expr(kids(n)[0])

    def e_ParenExpr(self, n):
        return '(' + self.expr(kids(n)[0]) + ')'

    def e_IntegerLiteral(self, n):
        ct = self.ct(n)
        v = n['value']
        suf = {'int64_t': 'L', 'uint64_t': 'UL', 'uint32_t': 'U'}.get(ct, '')
        return v + suf

    def e_FloatingLiteral(self, n):
        ct = self.ct(n)
        v = n['value']
        if not any(c in v for c in '.eE') or v.lower() in ('inf', 'nan'):
            v = v + '.0' if v.lstrip('-').isdigit() else v
        return v + ('f' if ct == 'float' else ('L' if ct == 'long double' else ''))

    def e_CXXBoolLiteralExpr(self, n):
        return '1' if n['value'] else '0'

    def e_CharacterLiteral(self, n):
        return str(n['value'])

    def e_CXXNullPtrLiteralExpr(self, n):
        return '0'

    def e_GNUNullExpr(self, n):
        return '0'

    def e_StringLiteral(self, n):
        return self.u.strlit(json.loads(n['value']) if n['value'].startswith('"') else n['value'])

    def e_CXXThisExpr(self, n):
        return 'self'

    def e_DeclRefExpr(self, n):
        r = n['referencedDecl']
        rk = r['kind']
        name = r.get('name', '')
        if rk == 'EnumConstantDecl':
            tt = (r.get('type') or {}).get('qualType', '')
            if 'unnamed enum at /usr/' in tt or '(unnamed at /usr/' in tt:
                return 'SYS__%s' % name           # constant of an anonymous system enum (DT_REG ...): supplied by the unit's prelude
            ct = self.ty.ctype_of(r.get('type'))
            return '%s__%s' % (ct, name)
        if rk in ('VarDecl', 'ParmVarDecl', 'BindingDecl'):
            if name == 'nullopt':
                return 'NULLOPT'
            rid = r['id']
            if rid in self.lambda_vars:
                return self.lambda_value(self.lambda_vars[rid], self.lambda_vars[rid].get('_cname', '0'))
            nm = self.renames.get(rid, sanitize(name))
            if rid in self.ptr_params or rid in self.locals_ptr:
                return '(*%s)' % nm
            if rid in self.idx.qname and rk == 'VarDecl' and rid not in self.u.local_ids:
                # namespace-scope / static member variable of Oomd
                return self.u.global_var(rid, r)
            if rk == 'VarDecl' and rid not in self.u.local_ids:
                v = self.u.file_scope_string(name)
                if v is not None:
                    return v
            return nm
        if rk in ('FunctionDecl', 'CXXMethodDecl'):
            return self.callee_name(r, None, [])
        self.unsupported(n, rk)

    def e_MemberExpr(self, n):
        base = kids(n)[0]
        name = n['name']
        b = self.strip(base)
        bct = self.ct(base)
        if b.get('kind') == 'CXXThisExpr':
            self.u.note_self_field(self, name, n)
            return 'self->%s' % sanitize(name)
        be = self.expr(base)
        if n.get('isArrow') and b.get('kind') == 'CXXOperatorCallExpr':
            cal = self.strip(kids(b)[0])
            while cal.get('kind') == 'ImplicitCastExpr':
                cal = self.strip(kids(cal)[0])
            if cal.get('referencedDecl', {}).get('name') == 'operator->':
                pct = bct[:-2] if bct.endswith(' *') else bct
                if be.startswith('(*') and ('__ref(' in be or '__ptr(' in be):
                    return '%s.%s' % (be, sanitize(name))
                try:
                    opct = self.ct(kids(b)[1])
                except Exception:
                    opct = ''
                if opct.startswith('uptr_') and self.ty.is_oomd_struct(pct):
                    return '%s->%s' % (be, sanitize(name))
                if self.ty.kind(pct) == 'handle':
                    return '%s__get_%s(%s)' % (pct, sanitize(name), be)
                return '%s.%s' % (be, sanitize(name))
        if bct.endswith(' *'):
            return '%s->%s' % (be, sanitize(name))
        if n.get('isArrow'):
            # pointer to handle == handle; field access on opaque object
            k = self.ty.kind(bct)
            if k == 'handle':
                return '%s__get_%s(%s)' % (bct, sanitize(name), be)
            return '%s->%s' % (be, sanitize(name))
        k = self.ty.kind(bct)
        if k == 'handle':
            return '%s__get_%s(%s)' % (bct, sanitize(name), be)
        return '%s.%s' % (be, sanitize(name))

    CAST_EXPLICIT = ('IntegralCast', 'FloatingCast', 'IntegralToFloating', 'FloatingToIntegral')

    def cast(self, n):
        ck = n.get('castKind')
        sub = kids(n)[0]
        if ck in ('NoOp', 'LValueToRValue', 'DerivedToBase', 'UncheckedDerivedToBase',
                  'ArrayToPointerDecay', 'FunctionToPointerDecay', 'ConstructorConversion',
                  'UserDefinedConversion', 'BaseToDerived', 'Dependent'):
            return self.expr(sub)
        if ck == 'FloatingToIntegral' and self.ct(n) in ('int64_t', 'uint64_t', 'int', 'uint32_t'):
            # float -> integer: through F2I_* (uninterpreted by default like the float arithmetic feeding it;
            # bit-precise, with CBMC's conversion check, under ACXX_FLOAT_PRECISE)
            return 'F2I_%s(%s)' % ({'int64_t': 'i64', 'uint64_t': 'u64', 'int': 'i32', 'uint32_t': 'u32'}[self.ct(n)], self.expr(sub))
        if ck == 'IntegralCast':
            # unsigned -> signed of the SAME width is modular and well defined in C++20 (e.g. `is_neg ? -size : size`);
            # narrowing conversions stay plain casts so that CBMC's conversion check still reports value changes
            pair = (self.ct(sub), self.ct(n))
            if pair == ('uint64_t', 'int64_t'):
                return 'U2S_i64(%s)' % self.expr(sub)
            if pair == ('uint32_t', 'int'):
                return 'U2S_i32(%s)' % self.expr(sub)
            # signed -> unsigned of the same width: modular, well defined in every C++ (e.g. `uint64_t += int64_t`)
            if pair == ('int64_t', 'uint64_t'):
                return 'S2U_u64(%s)' % self.expr(sub)
            if pair == ('int', 'uint32_t'):
                return 'S2U_u32(%s)' % self.expr(sub)
        if ck in self.CAST_EXPLICIT:
            return '((%s)(%s))' % (self.ct(n), self.expr(sub))
        if ck in ('IntegralToBoolean', 'FloatingToBoolean', 'PointerToBoolean'):
            return '((%s) != 0)' % self.expr(sub)
        if ck == 'NullToPointer':
            return '0'
        if ck == 'BitCast':
            return '((%s)(%s))' % (self.ct(n), self.expr(sub))
        if ck == 'ToVoid':
            return '((void)(%s))' % self.expr(sub)
        self.unsupported(n, 'castKind=%s' % ck)

    e_ImplicitCastExpr = cast
    e_CStyleCastExpr = cast
    e_CXXStaticCastExpr = cast

    def e_CXXFunctionalCastExpr(self, n):
        return self.cast(n)

    def e_BinaryOperator(self, n):
        a, b = kids(n)
        op = n['opcode']
        if op == ',':
            return '(%s, %s)' % (self.expr(a), self.expr(b))
        FOPS = {'*': 'MUL', '+': 'ADD', '-': 'SUB', '/': 'DIV'}
        FSUF = {'float': 'f', 'double': 'd', 'long double': 'ld'}
        if n['kind'] == 'BinaryOperator' and op in FOPS:
            ct = self.ct(n)
            if ct in FSUF:
                # floating arithmetic goes through F_* so that it can be verified either
                # bit-precisely or as uninterpreted functions (sound over-approximation)
                return 'F_%s_%s(%s, %s)' % (FOPS[op], FSUF[ct], self.expr(a), self.expr(b))
        ISUF = {'int64_t': 'i64', 'uint64_t': 'u64', 'int': 'i32', 'uint32_t': 'u32'}
        if n['kind'] == 'BinaryOperator' and op in ('/', '%', '*'):
            ct = self.ct(n)
            if ct in ISUF:
                lb = self.strip_casts(b)
                la = self.strip_casts(a)
                lit_b = lb.get('kind') == 'IntegerLiteral'
                lit_a = la.get('kind') == 'IntegerLiteral'
                pow2 = lit_b and int(lb['value']) > 0 and (int(lb['value']) & (int(lb['value']) - 1)) == 0
                hard = (op in ('/', '%') and not pow2) or (op == '*' and not lit_a and not lit_b)
                if hard:
                    # division / remainder by a non-power-of-two and products of two variables go
                    # through I_* so they can be verified as uninterpreted functions (SAT cannot
                    # decide equivalences of dividers / multipliers) or bit-precisely
                    nm = {'/': 'DIV', '%': 'MOD', '*': 'MUL'}[op]
                    return 'I_%s_%s(%s, %s)' % (nm, ISUF[ct], self.expr(a), self.expr(b))
        if n['kind'] == 'CompoundAssignOperator' and op[:-1] in FOPS:
            rt = n.get('computeResultType', {})
            rct = self.ty.ctype_of(rt) if rt else self.ct(n)
            lct = self.ct(a)
            if rct in FSUF:
                ea = self.expr(a)
                eb = self.expr(b)
                lhs_as = ea if lct == rct else '((%s)(%s))' % (rct, ea)
                val = 'F_%s_%s(%s, %s)' % (FOPS[op[:-1]], FSUF[rct], lhs_as, eb)
                if lct != rct:
                    f2i = {'int64_t': 'i64', 'uint64_t': 'u64', 'int': 'i32', 'uint32_t': 'u32'}.get(lct)
                    val = ('F2I_%s(%s)' % (f2i, val)) if f2i else '((%s)(%s))' % (lct, val)
                return '(%s = %s)' % (ea, val)
        return '(%s %s %s)' % (self.expr(a), op, self.expr(b))
    e_CompoundAssignOperator = e_BinaryOperator

    def strip_casts(self, n):
        while n.get('kind') in PASS_THROUGH or n.get('kind') in ('ImplicitCastExpr', 'CStyleCastExpr', 'CXXStaticCastExpr', 'CXXFunctionalCastExpr'):
            ks = kids(n)
            if not ks:
                break
            n = ks[0]
        return n

    def e_UnaryOperator(self, n):
        a = kids(n)[0]
        op = n['opcode']
        if op == '&':
            sub = self.strip(a)
            sct = self.ct(a)
            e = self.expr(a)
            at = a.get('type', {})
            aq = strip_cvref(at.get('desugaredQualType') or at.get('qualType') or '')
            if self.ty.kind(sct) == 'handle' and not aq.endswith('*'):
                return e      # address of opaque object == its handle
            return '(&%s)' % e
        if op == '*':
            sct = self.ct(a)
            e = self.expr(a)
            if not sct.endswith('*') and self.ty.kind(sct) == 'handle':
                return e
            return '(*%s)' % e
        e = self.expr(a)
        if n.get('isPostfix'):
            return '(%s%s)' % (e, op)
        return '(%s%s)' % (op, e)

    def e_ConditionalOperator(self, n):
        c, a, b = kids(n)
        return '(%s ? %s : %s)' % (self.expr(c), self.expr(a), self.expr(b))

    def e_UnaryExprOrTypeTraitExpr(self, n):
        if n.get('name') == 'sizeof':
            # the C++ object size is a platform fact: a named constant the spec supplies
            ks = kids(n)
            t = n.get('argType') or (ks[0].get('type') if ks else None)
            if t:
                m = re.match(r'^(?:const )?(?:unsigned |signed )?char ?\[(\d+)\]$', (t.get('desugaredQualType') or t.get('qualType') or '').strip())
                if m:
                    return '((uint64_t)%s)' % m.group(1)      # sizeof of a character array: its declared length
                return 'SIZEOF__%s' % sanitize(self.ty.ctype_of(t))
        self.unsupported(n)

    def e_InitListExpr(self, n):
        ct = self.ct(n)
        if self.ty.kind(ct) == 'scalar' and len(kids(n)) <= 1:
            ks = kids(n)
            return '((%s)(%s))' % (ct, self.expr(ks[0])) if ks else '((%s)0)' % ct
        if self.ty.kind(ct) == 'handle' and all(c.get('kind') in ('ImplicitValueInitExpr', 'InitListExpr', 'ArrayInitLoopExpr') or
                                                 c.get('array_filler') is not None for c in kids(n)):
            return '%s__ctor0()' % sanitize(ct)
        if self.ty.kind(ct) != 'value':
            self.unsupported(n, 'init list of non-value type ' + ct)
        parts = []
        for c in kids(n):
            if c.get('kind') == 'CXXDefaultInitExpr':
                break
            cs = self.strip(c)
            if cs.get('kind') == 'InitListExpr' and self.ty.kind(self.ct(cs)) == 'value' and self.ct(cs) != ct and \
                    not parts and self.is_base_of(self.ct(cs), ct):
                # aggregate with a base class: the base's fields come first in the flattened C struct
                for bc in kids(cs):
                    if bc.get('kind') == 'CXXDefaultInitExpr':
                        break
                    parts.append(self.expr(bc))
                continue
            parts.append(self.expr(c))
        if not parts:
            return '%s__ctor0()' % ct
        return '%s__init%d(%s)' % (ct, len(parts), ', '.join(parts))

    def is_base_of(self, base_ct, derived_ct):
        for q, rec in self.idx.records.items():
            try:
                if self.ty.oomd_type(q) != derived_ct:
                    continue
            except Unsupported:
                continue
            for b in rec.get('bases', []):
                bq = strip_cvref(b['type'].get('desugaredQualType') or b['type']['qualType'])
                try:
                    if self.ty.oomd_type(bq) == base_ct:
                        return True
                except Unsupported:
                    pass
        return False

    def e_ImplicitValueInitExpr(self, n):
        ct = self.ct(n)
        if self.ty.kind(ct) == 'scalar':
            return '((%s)0)' % ct
        return '%s__ctor0()' % ct

    def e_CXXScalarValueInitExpr(self, n):
        return '((%s)0)' % self.ct(n)

    def e_CXXDefaultInitExpr(self, n):
        # member default initialiser used in aggregate init
        fld = self.idx.node.get(n.get('field', {}).get('id')) if n.get('field') else None
        ks = kids(n)
        if ks:
            return self.expr(ks[0])
        ct = self.ct(n)
        return '%s__default()' % sanitize(ct)

    def e_CXXDefaultArgExpr(self, n):
        ks = kids(n)
        if ks:
            return self.expr(ks[0])
        ct = self.ct(n)
        return 'DEFAULT_ARG_%s' % sanitize(ct)

    # -- calls
    def callee_name(self, ref, obj_ct, arg_cts, ret_ct=None):
        rid = ref.get('id')
        name = ref.get('name', '')
        q = self.idx.qname.get(rid)
        if q and q.startswith('Oomd::SystemMaybe::'):
            q = None        # library type: named after the instantiation's C type
        if q and q.startswith('Oomd'):
            short = q[len('Oomd::'):]
            if short.startswith('Engine::'):
                short = short[len('Engine::'):]
            parts = [x for x in short.split('::') if x]       # anonymous namespaces have an empty name
            cls = '::'.join(q.split('::')[:-1])
            base = '_'.join(sanitize(p) for p in parts[:-1])
            nm = self.opname(parts[-1], len(arg_cts) + (1 if obj_ct else 0))
            cn = (base + '__' + nm) if base else nm
            if self.idx.is_overloaded(cls, parts[-1]):
                cn += '__' + '_'.join(sanitize(a) for a in arg_cts)
            return cn
        nm = self.opname(name, len(arg_cts) + (1 if obj_ct else 0))
        if obj_ct:
            return '%s__%s' % (sanitize(obj_ct), nm)
        return 'ext__' + nm

    def opname(self, name, arity):
        if name.startswith('operator'):
            op = name[len('operator'):].strip()
            if op in OPNAMES:
                on = OPNAMES[op]
                if op == '*' and arity == 1:
                    on = 'deref'
                if op == '-' and arity == 1:
                    on = 'neg'
                if op == '&' and arity == 1:
                    on = 'addr'
                return 'op_' + on
            return 'op_conv_' + sanitize(op)
        return sanitize(name)

    def arg(self, a, by_ptr=False):
        e = self.expr(a)
        return ('&' + e) if by_ptr else e

    def obj_arg(self, obj, mutating):
        oct_ = self.ct(obj)
        e = self.expr(obj)
        k = self.ty.kind(oct_)
        if oct_.endswith(' *'):
            base = oct_[:-2]
            so = self.strip_all(obj)
            while so.get('kind') == 'ImplicitCastExpr':
                so = self.strip_all(kids(so)[0])
            real_ptr = so.get('kind') == 'DeclRefExpr' and \
                (so.get('referencedDecl', {}).get('type', {}).get('qualType', '').rstrip().endswith('*'))
            if real_ptr and self.ty.kind(base) == 'value' and not self.ty.is_oomd_struct(base) and not mutating:
                return '(*%s)' % e, base      # a C++ pointer variable to a library value type; non-mutating receivers are by value
            return e, base
        if self.ty.is_oomd_struct(oct_) and self.strip(obj).get('valueCategory') == 'lvalue':
            return '&' + e, oct_        # methods of struct-modelled classes take the object by pointer
        if k == 'value' and mutating:
            return '&' + e, oct_
        return e, oct_

    def e_CXXMemberCallExpr(self, n):
        ks = kids(n)
        callee = ks[0]
        args = ks[1:]
        cal = self.strip(callee)
        if cal.get('kind') != 'MemberExpr':
            self.unsupported(n, 'callee ' + cal.get('kind'))
        obj = kids(cal)[0]
        mname = cal['name']
        if is_log_type(obj.get('type')):
            return self.log_expr(n)
        so0 = self.strip(obj)
        if so0.get('kind') == 'DeclRefExpr' and so0.get('referencedDecl', {}).get('id') in self.u.lock_of and mname in ('unlock', 'lock'):
            m, nm = self.u.lock_of[so0['referencedDecl']['id']]
            if mname == 'unlock':
                return '(mutex_unlock(%s), %s__owns = 0)' % (m, nm)
            return '(mutex_lock(%s), %s__owns = 1)' % (m, nm)
        ot = obj.get('type', {})
        if strip_cvref(ot.get('desugaredQualType') or ot.get('qualType') or '').startswith('std::reference_wrapper<') and (
                mname == 'get' or mname.startswith('operator ')):
            if self.ct(obj).endswith(' *'):
                return '(*%s)' % self.expr(obj)
            return self.expr(obj)
        if 'shared_ptr' in strip_cvref(ot.get('desugaredQualType') or ot.get('qualType') or '').split('<')[0] \
                and self.ct(obj).startswith('vec_') and mname in ('get', 'operator->', 'operator*'):
            return self.expr(obj)
        if mname == 'reset' and self.ct(obj).startswith('uptr_') and len([a for a in args if a.get('kind') != 'CXXDefaultArgExpr']) <= 1 \
                and self.strip(obj).get('kind') == 'DeclRefExpr':
            # unique_ptr::reset(p) on a local: the variable now owns p (the replaced object's destructor is not modelled)
            real = [a for a in args if a.get('kind') != 'CXXDefaultArgExpr']
            return '(%s = (%s)(%s))' % (self.expr(obj), self.ct(obj), self.expr(real[0]) if real else '0')
        rid = cal.get('referencedMemberDecl')
        inlined = self.u.try_inline_method(self, rid, obj, args, n)
        if inlined is not None:
            return inlined
        arg_cts = [self.ct(a) for a in args if a.get('kind') != 'CXXDefaultArgExpr']
        fsn = self.cfg.get('full_sig_names')
        if fsn and re.search(fsn, self.idx.qname.get(rid) or ''):
            # callee named after its FULL parameter list (defaulted ones included), so that spelling a default out
            # or leaving it to the default argument is the same C function
            arg_cts = [self.ct(a) for a in args]
        so = self.strip(obj)
        if so.get('kind') == 'CXXOperatorCallExpr' and self.ct(obj).endswith(' *') and \
                self.ty.is_oomd_struct(self.ct(obj)[:-2]):
            oks = kids(so)
            ocal = self.strip(oks[0])
            while ocal.get('kind') == 'ImplicitCastExpr':
                ocal = self.strip(kids(ocal)[0])
            if ocal.get('referencedDecl', {}).get('name') == 'operator->' and self.ct(oks[1]).startswith('uptr_'):
                # method called on ANOTHER instance of a class that is a struct in this unit (held by a
                # unique_ptr): a boundary call on that instance's handle, NAME__h
                ref = {'id': cal.get('referencedMemberDecl'), 'name': mname}
                cn = self.callee_name(ref, self.ct(obj)[:-2], arg_cts) + '__h'
                al = [self.expr(oks[1])] + [self.call_arg(a, ref, i) for i, a in enumerate(args)
                                             if a.get('kind') != 'CXXDefaultArgExpr']
                return '%s(%s)' % (cn, ', '.join(al))
        if so.get('kind') == 'CXXThisExpr':
            oct_ = self.ct(obj)
            oe = 'self'
            # calling own method: pass self pointer
            octn = oct_[:-2] if oct_.endswith(' *') else oct_
        else:
            mut = mname in MUTATING_METHODS or (
                mname.startswith('operator') and mname[8:].strip() in MUTATING_OPS)
            oe, octn = self.obj_arg(obj, mut)
        ref = {'id': rid, 'name': mname}
        cn = self.callee_name(ref, octn, arg_cts)
        if cn == self.cname and not getattr(self, 'is_lambda', False):
            cn += '__rec'       # recursive call: verified against the function's own contract (declared as NAME__rec in the spec)
        al = [oe] + [x for x in (self.call_arg(a, ref, i) for i, a in enumerate(args)) if x is not None]
        return self.ref_result(n, rid, '%s(%s)' % (cn, ', '.join(al)))

    def ref_result(self, n, rid, call):
        """An oomd function returning `T&` of a value-kind T is a C function returning `T *`
        (the reference is kept as a reference, so aliasing is modelled)."""
        if n.get('valueCategory') == 'lvalue' and rid in self.idx.qname:
            try:
                ct = self.ct(n)
            except Unsupported:
                return call
            if self.ty.is_oomd_struct(ct) or self.idx.qname.get(rid) in self.cfg.get('scalar_ref_returns', []):
                return '(*%s)' % call
        return call

    def default_arg(self, ref, i):
        """text of the i-th parameter's default argument, from any declaration of the callee in the index"""
        d = self.idx.node.get(ref.get('id'))
        seen = 0
        while d is not None and seen < 5:
            ps = [c for c in kids(d) if c.get('kind') == 'ParmVarDecl']
            if i < len(ps):
                init = kids(ps[i])
                if init:
                    return self.expr(init[0])
            d = self.idx.node.get(d.get('previousDecl')) if d.get('previousDecl') else None
            seen += 1
        return None

    def call_arg(self, a, ref, i):
        if a.get('kind') == 'CXXDefaultArgExpr':
            # defaults are spelled out only for callees extracted in this unit (their C definition has
            # every parameter); boundary stubs model "called with the default" and take no such parameter
            q = self.idx.qname.get(ref.get('id'))
            if q in [f['qname'] for f in self.cfg.get('functions', [])] or \
                    (q and self.cfg.get('default_args') and re.search(self.cfg['default_args'], q)):
                return self.default_arg(ref, i)
            return None
        # by-reference out parameter of scalar/value type -> pass address
        decl = self.idx.node.get(ref.get('id'))
        if decl is not None:
            ps = [c for c in kids(decl) if c.get('kind') == 'ParmVarDecl']
            if i < len(ps):
                pt = ps[i].get('type', {}).get('qualType', '')
                if pt.endswith('&') and not pt.endswith('&&') and not pt.startswith('const '):
                    ct = self.ty.ctype_of(ps[i].get('type'))
                    if self.ty.kind(ct) in ('scalar', 'value'):
                        return '&' + self.expr(a)
        return self.expr(a)

    def e_CallExpr(self, n):
        ks = kids(n)
        callee = self.strip(ks[0])
        while callee.get('kind') == 'ImplicitCastExpr':
            callee = self.strip(kids(callee)[0])
        args = ks[1:]
        if callee.get('kind') == 'DeclRefExpr':
            ref = callee['referencedDecl']
            name = ref.get('name', '')
            if name in ('move', 'forward', 'ref', 'cref', 'addressof') and len(args) == 1 \
                    and ref.get('id') not in self.idx.qname:
                a0 = self.strip_all(args[0])
                if name == 'move' and self.cfg.get('model_moves') and a0.get('kind') == 'DeclRefExpr' \
                        and a0.get('referencedDecl', {}).get('kind') in ('VarDecl', 'ParmVarDecl') \
                        and self.ct(args[0]) in self.cfg.get('model_moves'):
                    # the moved-from object stays valid but its value is unspecified afterwards
                    return 'MOVE__%s(&%s)' % (sanitize(self.ct(args[0])), self.expr(args[0]))
                return self.expr(args[0])
            if name in ('all_of', 'any_of', 'none_of') and len(args) == 3 and ref.get('id') not in self.idx.qname:
                lam = self.strip_all(args[2])
                itct = self.ct(args[0])
                if lam.get('kind') == 'LambdaExpr' and itct.split('_')[0] in ('vecit', 'deqit'):
                    # std::all_of / any_of / none_of over a vector with a closure: the algorithm's definition ([alg.all.of] etc.),
                    # written out as the loop it is - the closure is applied in order and the walk stops at the first decisive
                    # element.  The loop gets an ordinary loop-contract slot.
                    lname = self.u.lift_lambda(self, lam)
                    extra = []
                    for x in lam.get('_call_extra', []):
                        extra.append(x[1:] if x.startswith('&') and getattr(self, 'is_lambda', False) else x)
                    self.tmp_no = getattr(self, 'tmp_no', 0) + 1
                    it, r = '__alg_it%d' % self.tmp_no, '__alg_r%d' % self.tmp_no
                    S_ = sanitize(itct)
                    el = self.ty.elem.get(itct)
                    deref = ('(*%s__ref(%s))' % (S_, it)) if (el and self.ty.is_oomd_struct(el)) else '%s__op_deref(%s)' % (S_, it)
                    call = '%s(%s)' % (lname, ', '.join(extra + [deref]))
                    stop, init, fin = {'all_of': ('!%s' % call, '1', '0'), 'any_of': (call, '0', '1'), 'none_of': (call, '1', '0')}[name]
                    return ('({ _Bool %s = %s; %s %s = %s; %s __alg_end%d = %s; for (; !%s__op_eq(%s, __alg_end%d); %s__op_inc(&%s))\n%s\n'
                            '{ if (%s) { %s = %s; break; } } %s; })' % (
                                r, init, itct, it, self.expr(args[0]), itct, self.tmp_no, self.expr(args[1]), S_, it, self.tmp_no, S_, it,
                                self.loop_macro(), stop, r, fin, r))
            if name == 'make_shared' and ref.get('id') not in self.idx.qname:
                rct = self.ct(n)
                if rct.startswith('vec_'):
                    return self.expr(args[0]) if args else '%s__ctor0()' % rct
            if name == 'systemError' and args:
                # Oomd::systemError(code, message parts...): the message text is not modelled
                self.dropped.append('error message text of SYSTEM_ERROR at line %s' % self.loc(n))
                return 'systemError__%s(%s)' % (sanitize(self.ct(args[0])), self.expr(args[0]))
            arg_cts = [self.ct(a) for a in args]
            cn = self.callee_name(ref, None, arg_cts)
            if cn.startswith('ext__') and self.ty:
                rct = self.ct(n) if n.get('type', {}).get('qualType') != 'void' else 'void'
                if name in RET_TYPED or (not args and name in ('max', 'min', 'lowest', 'epsilon', 'infinity')):
                    cn += '__' + sanitize(rct)
                if name in ARG_TYPED and arg_cts:
                    cn += '__' + '_'.join(sanitize(a) for a in arg_cts)
            al = [x for x in (self.call_arg(a, ref, i) for i, a in enumerate(args)) if x is not None]
            return self.ref_result(n, ref.get('id'), '%s(%s)' % (cn, ', '.join(al)))
        if callee.get('kind') == 'MemberExpr':
            # static member function called through object, or function pointer member
            self.unsupported(n, 'call through member')
        self.unsupported(n, 'callee kind ' + callee.get('kind'))

    def e_CXXOperatorCallExpr(self, n):
        ks = kids(n)
        callee = self.strip(ks[0])
        while callee.get('kind') == 'ImplicitCastExpr':
            callee = self.strip(kids(callee)[0])
        args = ks[1:]
        ref = callee.get('referencedDecl', {})
        name = ref.get('name', '')
        op = name[len('operator'):].strip()
        if is_log_type(n.get('type')) or (args and is_log_type(args[0].get('type')) and op == '<<'):
            kept = self.stream_write(n) if self.cfg.get('keep_streams') else None
            if kept is not None:
                return kept
            return self.log_expr(n)
        a0 = args[0]
        ct0 = self.ct(a0)
        k0 = self.ty.kind(ct0)
        t0 = a0.get('type', {})
        if op in ('*', '->') and len(args) == 1 and ct0.startswith('vec_') and \
                'shared_ptr' in strip_cvref(t0.get('desugaredQualType') or t0.get('qualType') or '').split('<')[0]:
            return self.expr(a0)
        if op == '()' and ref.get('id') is not None:
            self._lambda_spec = ref.get('id')      # the operator() instantiation this call refers to (generic lambdas)
            lam = self.lambda_call(n, a0, args[1:])
            if lam is not None:
                return lam
        if op == '=' and len(args) == 2:
            ct1 = self.ct(args[1])
            s1 = self.strip(args[1])
            if ct1 == ct0 and not (k0 == 'handle' and self.strip(a0).get('valueCategory') != 'lvalue'):
                return '(%s = %s)' % (self.expr(a0), self.expr(args[1]))
            if k0 == 'handle' and ct0 in ('json_t',):
                return '%s__op_assign__%s(%s, %s)' % (sanitize(ct0), sanitize(ct1), self.expr(a0), self.expr(args[1]))
            return '%s__op_assign__%s(&%s, %s)' % (
                sanitize(ct0), sanitize(ct1), self.expr(a0), self.expr(args[1]))
        on = self.opname(name, len(args))
        el = self.ty.elem.get(ct0)
        if el and self.ty.is_oomd_struct(el) and (
                (op in ('*', '->') and len(args) == 1 and ct0.split('_')[0] in ('vecit', 'deqit', 'vecrit', 'mapit')) or
                (op == '[]' and ct0.split('_')[0] in ('vec', 'deq'))):
            # element of struct type: a reference into the container (so that writes through it are kept)
            if op == '[]':
                return '(*%s__ref_at(%s, %s))' % (sanitize(ct0), self.expr(a0), self.expr(args[1]))
            return '(*%s__ref(%s))' % (sanitize(ct0), self.expr(a0))
        if k0 == 'scalar' and op in ('++', '--'):
            e0 = self.expr(a0)      # std::atomic<T> modelled as T (sequential semantics within the critical section)
            return '(%s%s)' % (e0, op) if len(args) == 2 else '(%s%s)' % (op, e0)
        if op == '*' and len(args) == 1 and ct0.startswith('uptr_') and el and self.ty.is_oomd_struct(el):
            return '(*%s__op_arrow(%s))' % (sanitize(ct0), self.expr(a0))
        if op == '[]' and re.match(r'^arr\d+_', ct0) and len(args) == 2:
            return '(*%s__at_ref(&%s, %s))' % (sanitize(ct0), self.expr(a0), self.expr(args[1]))
        if op == '[]' and (ct0.startswith('umap_') or ct0 == 'json_t') and len(args) == 2:
            # map operator[]: inserts when absent and yields an lvalue
            return '(*%s__at_ref(%s, %s))' % (sanitize(ct0), self.expr(a0), self.expr(args[1]))
        if el and self.ty.is_oomd_struct(el) and ct0.startswith('opt_') and op in ('*', '->') and len(args) == 1 \
                and self.strip(a0).get('valueCategory') == 'lvalue':
            return '(*%s__ptr(&%s))' % (sanitize(ct0), self.expr(a0))     # lvalue access to the contained struct
        mut = op in MUTATING_OPS and not (op == '[]' and ct0.startswith('vec_'))
        rid = ref.get('id')
        q = self.idx.qname.get(rid)
        if q and q.startswith('Oomd') and not q.startswith('Oomd::SystemMaybe::'):
            cn = self.callee_name(ref, None, [self.ct(a) for a in args[1:]])
            # member operator: first arg is the object
            e0 = self.expr(a0)
            return '%s(%s)' % (cn, ', '.join([e0] + [self.expr(a) for a in args[1:]]))
        e0 = self.expr(a0)
        if mut and k0 == 'value':
            e0 = '&' + e0
        cn = '%s__%s' % (sanitize(ct0), on)
        rest = []
        for a in args[1:]:
            cta = self.ct(a)
            if cta != ct0 or op in ('[]',):
                cn += '__' + sanitize(cta)
            rest.append(self.expr(a))
        if op in ('++', '--') and len(args) == 2:
            cn = '%s__%s_post' % (sanitize(ct0), on)
            rest = []
        return '%s(%s)' % (cn, ', '.join([e0] + rest))

    def e_CXXConstructExpr(self, n):
        ct = self.ct(n)
        args = [a for a in kids(n) if a.get('kind') != 'CXXDefaultArgExpr']
        if is_log_type(n.get('type')):
            return self.log_expr(n)
        k = self.ty.kind(ct)
        if len(args) == 0:
            if k == 'scalar':
                return '((%s)0)' % ct
            return '%s__ctor0()' % sanitize(ct)
        if len(args) == 1 and self.strip(args[0]).get('kind') == 'CXXStdInitializerListExpr' and ct.startswith('vec_'):
            self.expr(args[0])
            els = self._initlist
            return '%s__from_list%d(%s)' % (sanitize(ct), len(els), ', '.join(els))
        nt = n.get('type', {})
        if 'reference_wrapper' in ((nt.get('desugaredQualType') or '') + (nt.get('qualType') or '')) \
                and ct.endswith(' *') and len(args) == 1:
            if self.ct(args[0]) == ct:
                return self.expr(args[0])
            return '(&%s)' % self.expr(args[0])
        if len(args) == 1:
            act = self.ct(args[0])
            if act == ct:
                if ct.startswith('vec_') and self.cfg.get('explicit_vec_copy') and args[0].get('valueCategory') == 'lvalue':
                    # a deep copy that the unit's spec distinguishes from the original (in-place mutation follows)
                    return '%s__copy(%s)' % (sanitize(ct), self.expr(args[0]))
                return self.expr(args[0])      # copy / move construction
            a0 = self.strip(args[0])
            while a0.get('kind') == 'ImplicitCastExpr' and a0.get('castKind') in ('ArrayToPointerDecay', 'NoOp'):
                a0 = self.strip(kids(a0)[0])
            if ct == 'str_t' and a0.get('kind') == 'StringLiteral':
                return self.expr(a0)
        acts = [self.ct(a) for a in args]
        return '%s__from__%s(%s)' % (sanitize(ct), '_'.join(sanitize(a) for a in acts),
                                     ', '.join(self.expr(a) for a in args))
    e_CXXTemporaryObjectExpr = e_CXXConstructExpr

    def e_LambdaExpr(self, n):
        return self.lambda_value(n, self.u.lift_lambda(self, n))

    def lambda_value(self, lam, name):
        """a closure used as a value (handed to a callee).  With config lambda_bind the captured variables
        travel with it: lambda_bind__NAME(captures...) is defined by the unit's spec (ghost capture record)."""
        caps = [x for x in lam.get('_call_extra', []) if x != 'self']
        if self.cfg.get('lambda_bind') and caps:
            fixed = [(x[1:] if x.startswith('&') and getattr(self, 'is_lambda', False) else x) for x in caps]
            return 'lambda_bind__%s(%s)' % (name, ', '.join(fixed))
        return name

    def e_UserDefinedLiteral(self, n):
        ct = self.ct(n)
        lit = None

        def find(x):
            nonlocal lit
            if x.get('kind') in ('IntegerLiteral', 'FloatingLiteral') and lit is None:
                lit = x
            for c in kids(x):
                find(c)
        find(n)
        if lit is not None and lit['kind'] == 'IntegerLiteral':
            return '%s__from__int64_t(%sL)' % (sanitize(ct), lit['value'])
        # template literal operator (e.g. 1s): take the digits from the source token
        b = n.get('range', {}).get('begin', {})
        b = b.get('expansionLoc', b)
        off, ln = b.get('offset'), b.get('tokLen')
        try:
            tok = open(os.path.join(self.u.repo, self.u.cfg['tu']), 'rb').read()[off:off + ln].decode()
        except Exception:
            tok = ''
        m = re.match(r'^(\d+)[a-z]+$', tok)
        if not m:
            self.unsupported(n, 'user-defined literal %r' % tok)
        return '%s__from__int64_t(%sL)' % (sanitize(ct), m.group(1))

    def e_CXXThrowExpr(self, n):
        self.unsupported(n, '(throw as expression)')

    def e_CXXNewExpr(self, n):
        ct = self.ct(n)
        ks = kids(n)
        return '%s__new(%s)' % (sanitize(ct), ', '.join(self.expr(a) for a in ks))

    def e_ArraySubscriptExpr(self, n):
        a, b = kids(n)
        sa = self.strip_all(a)
        while sa.get('kind') == 'ImplicitCastExpr':
            sa = self.strip_all(kids(sa)[0])
        if sa.get('kind') == 'CXXMemberCallExpr':
            cal = self.strip(kids(sa)[0])
            if cal.get('kind') == 'MemberExpr' and cal.get('name') in ('c_str', 'data') and self.ct(kids(cal)[0]) == 'str_t':
                # s.c_str()[i]: the i-th character, i == size() being the terminator
                return 'str_t__char_at(%s, %s)' % (self.expr(kids(cal)[0]), self.expr(b))
        try:
            if self.ct(a) == 'str_t':
                return 'str_t__char_at(%s, %s)' % (self.expr(a), self.expr(b))      # character of a char-array member
        except Unsupported:
            pass
        return '%s[%s]' % (self.expr(a), self.expr(b))

    def e_CXXStdInitializerListExpr(self, n):
        # {a, b, ...}: the elements, for a container constructor
        x = n
        while kids(x) and x.get('kind') != 'InitListExpr':
            x = kids(x)[0]
        if x.get('kind') != 'InitListExpr':
            self.unsupported(n)
        self._initlist = [self.expr(c) for c in kids(x)]
        return 'INITLIST'

    def e_PredefinedExpr(self, n):
        return self.u.strlit('__func__')

    # -- logging
    def stream_write(self, n):
        """config keep_streams: `sink << a << b` where sink is a plain std::ostream (a parameter, std::cerr) is the
        function's observable output: ostream_t__put__<type>(sink, value), manipulators become ostream_t__<name>(sink).
        LogStream / ostringstream expressions stay dropped."""
        def plain_ostream(x):
            t = x.get('type', {})
            tt = (t.get('desugaredQualType') or '') + ' ' + (t.get('qualType') or '')
            return ('basic_ostream' in tt or 'std::ostream' in tt) and 'LogStream' not in tt and 'stringstream' not in tt

        def build(x):
            x = self.strip_all(x)
            if x.get('kind') == 'CXXOperatorCallExpr':
                ks = kids(x)
                cal = self.strip_all(ks[0])
                while cal.get('kind') == 'ImplicitCastExpr':
                    cal = self.strip_all(kids(cal)[0])
                nm = cal.get('referencedDecl', {}).get('name', '')
                if nm == 'operator<<' and len(ks) == 3:
                    left = build(ks[1])
                    if left is None:
                        return None
                    rhs = self.strip_all(ks[2])
                    while rhs.get('kind') == 'ImplicitCastExpr':
                        rhs = self.strip_all(kids(rhs)[0])
                    rd = rhs.get('referencedDecl', {})
                    if rhs.get('kind') == 'DeclRefExpr' and rd.get('kind') == 'FunctionDecl' and rd.get('name') in ('flush', 'endl'):
                        return 'ostream_t__%s(%s)' % (rd['name'], left)
                    return 'ostream_t__put__%s(%s, %s)' % (sanitize(self.ct(ks[2])), left, self.expr(ks[2]))
                return None
            while x.get('kind') == 'ImplicitCastExpr':
                x = self.strip_all(kids(x)[0])
            if x.get('kind') == 'DeclRefExpr' and plain_ostream(x):
                r = x.get('referencedDecl', {})
                if r.get('kind') == 'ParmVarDecl':
                    return sanitize(r['name'])
                if r.get('name') in ('cerr', 'cout', 'clog'):
                    return 'ostream_t__std_%s' % r['name']
            return None
        return build(n)

    def log_expr(self, n):
        """An OLOG / ostream expression: dropped.  Control::DISABLE/ENABLE kept."""
        ctrl = []

        def scan(x):
            if x.get('kind') == 'DeclRefExpr':
                r = x.get('referencedDecl', {})
                if r.get('kind') == 'EnumConstantDecl' and r.get('name') in ('DISABLE', 'ENABLE') \
                        and 'Control' in (r.get('type', {}).get('qualType', '')):
                    ctrl.append(r['name'])
            for c in kids(x):
                scan(c)
        scan(n)
        self.dropped.append('log expression at line %s' % self.loc(n))
        if ctrl:
            return 'ghost_log_control(%d)' % (1 if ctrl[-1] == 'ENABLE' else 0)
        return 'LOG_VALUE'

    # -- lambdas
    def lambda_call(self, n, callee, args):
        c = self.strip(callee)
        if c.get('kind') == 'DeclRefExpr':
            rid = c['referencedDecl'].get('id')
            if rid in self.lambda_vars:
                return self.u.call_lambda(self, self.lambda_vars[rid], args, spec_id=getattr(self, '_lambda_spec', None))
        return None

    # -- statements ----------------------------------------------------------
    def stmt(self, n):
        k = n['kind']
        m = getattr(self, 's_' + k, None)
        if m is not None:
            return m(n)
        # expression statement
        root = self.strip(n)
        if root.get('kind') == 'CXXThrowExpr':
            return self.u.exc.throw_stmt(self, root)
        if root.get('kind') == 'ConditionalOperator':
            c, a, b = kids(root)
            sa, sb = self.strip(a), self.strip(b)
            if sb.get('kind') == 'CXXThrowExpr' or sa.get('kind') == 'CXXThrowExpr':
                # (cond) ? void(0) : throw e     (OCHECK_EXCEPT)
                thr, other, neg = (sb, a, True) if sb.get('kind') == 'CXXThrowExpr' else (sa, b, False)
                self.w('if (%s(%s))' % ('!' if neg else '', self.expr(c)))
                self.w('{')
                self.ind += 1
                self.u.exc.throw_stmt(self, thr)
                self.ind -= 1
                self.w('}')
                return
        if is_log_type(n.get('type')):
            kept = self.stream_write(n) if self.cfg.get('keep_streams') else None
            if kept is not None:
                self.w(kept + ';')
                return
            e = self.log_expr(n)
            if e != 'LOG_VALUE':
                self.w(e + ';')
            return
        n0 = self.strip(n)
        while n0.get('kind') in ('ExprWithCleanups', 'ParenExpr') and kids(n0):
            n0 = self.strip(kids(n0)[0])
        if n0.get('kind') == 'BinaryOperator' and n0.get('opcode') == '=' and self.cfg.get('may_throw'):
            a, b = kids(n0)
            rhs = self.expr(b)
            if self.may_throw_in(rhs):
                # `x = f()` with f throwing: the right-hand side is evaluated first, x keeps its value when f throws
                self.tmp_no = getattr(self, 'tmp_no', 0) + 1
                t = '__rhs%d' % self.tmp_no
                self.w('%s %s = %s;' % (self.ct(n0), t, rhs))
                self.propagate(rhs)
                self.w('(%s = %s);' % (self.expr(a), t))
                return
        e = self.expr(n)
        self.w(e + ';')
        self.propagate(e)

    def open_scope(self):
        self.scope_depth += 1

    def close_scope(self, fallthrough=True):
        # run guards registered in this scope (if control can fall off its end)
        lines = []
        while self.guards and self.guards[-1][0] == self.scope_depth:
            g = self.guards.pop()
            lines.append(g)
        if fallthrough:
            for g in lines:
                for l in g[1]:
                    self.w(l)
        self.scope_depth -= 1

    def emit_guards_down_to(self, depth):
        """inline scope-exit actions of all scopes deeper than `depth` (exclusive)"""
        for g in reversed(self.guards):
            if g[0] > depth:
                for l in g[1]:
                    self.w(l)

    def s_CompoundStmt(self, n):
        self.w('{')
        self.ind += 1
        self.open_scope()
        ks = kids(n)
        for c in ks:
            self.stmt(c)
        last = ks[-1]['kind'] if ks else None
        self.close_scope(fallthrough=last not in ('ReturnStmt', 'BreakStmt', 'ContinueStmt'))
        self.ind -= 1
        self.w('}')

    def s_NullStmt(self, n):
        self.w(';')

    def s_DeclStmt(self, n):
        for d in kids(n):
            dk = d['kind']
            if dk in ('UsingDecl', 'TypeAliasDecl', 'TypedefDecl', 'UsingDirectiveDecl',
                      'StaticAssertDecl', 'CXXRecordDecl', 'UsingShadowDecl'):
                continue
            if dk == 'DecompositionDecl':
                self.decomposition(d)
                continue
            if dk != 'VarDecl':
                self.unsupported(d)
            self.vardecl(d)

    def vardecl(self, d):
        name = sanitize(d['name'])
        self.u.local_ids.add(d['id'])
        tq = d.get('type', {})
        if is_log_type(tq):
            self.dropped.append('stream object %s at line %s' % (name, self.loc(d)))
            return
        init = kids(d)
        init = init[0] if init else None
        qt = tq.get('qualType', '')
        dq = tq.get('desugaredQualType', qt)
        # scope guard
        if 'ScopeGuard' in qt or 'ScopeGuard' in dq:
            return self.scope_guard(d, init)
        if d['name'] in self.cfg.get('drop_locals', []):
            self.dropped.append('local %s at line %s (listed in drop_locals: used only by opaque lambdas)' % (name, self.loc(d)))
            return
        if init is not None and self.strip_all(init).get('kind') == 'LambdaExpr':
            lam = self.strip_all(init)
            self.lambda_vars[d['id']] = lam
            if d['name'] in self.cfg.get('opaque_lambdas', []):
                lam['_cname'] = '%s__lambda_%s' % (self.cname, name)
                lam['_call_extra'] = []
                self.dropped.append('body of lambda %s at line %s: NOT extracted, treated as a boundary stub' % (name, self.loc(d)))
                return
            self.u.register_lambda(self, lam, name)
            return
        try:
            ct = self.ty.ctype_of(tq)
        except Unsupported:
            # a deduced type that clang prints with a class-local typedef (`std::pair<iterator, bool>`): the
            # initialiser's own type carries the resolved spelling
            if init is None:
                raise
            ct = self.ct(init)
        if init is not None and 'desugaredQualType' not in tq and d.get('isImplicit'):
            # `auto&&` range variable bound to a data member: clang prints the member's type as written
            # (unqualified names); the member's own declaration has the resolved spelling
            i0 = self.strip_all(init)
            if i0.get('kind') == 'MemberExpr' and i0.get('referencedMemberDecl') in self.idx.node:
                ft = self.idx.node[i0['referencedMemberDecl']].get('type')
                if ft:
                    try:
                        ct = self.ty.ctype_of(ft)
                    except Unsupported:
                        pass
        if ct == 'lock_t':
            return self.lock_guard(d, init)
        raii = self.cfg.get('raii_types', {}).get(ct)
        if raii and not (qt.endswith('&') or dq.endswith('&')):
            # a local whose destructor matters: its scope-exit action is emitted at every exit of the scope
            self.guards.append((self.scope_depth, ['%s(&%s); /* destructor of %s (declared at line %s) */' % (
                raii, name, name, self.loc(d))]))
        is_ref = qt.endswith('&') or dq.endswith('&')
        is_const = qt.startswith('const ') or dq.startswith('const ')
        if d.get('storageClass') == 'static' and not (d.get('constexpr') and init is not None):
            if self.ty.kind(ct) != 'scalar':
                self.unsupported(d, 'static local of non-scalar type')
            # function-local static: one object per program, or - thread_local - one per thread (ghost_tid selects it)
            g = '%s__%s' % (self.cname, name)
            tls = bool(d.get('tls'))
            self.u.static_locals[g] = (ct, tls)
            self.renames[d['id']] = '%s[%s]' % (g, 'ghost_tid' if tls else '0')
            self.dropped.append('initialiser of static%s local %s at line %s (the harness chooses the initial value)' % (
                ' thread_local' if tls else '', name, self.loc(d)))
            return
        if init is None:
            if self.ty.kind(ct) == 'scalar' or ct.endswith('*'):
                self.w('%s %s;' % (ct, name))
            else:
                self.w('%s %s = %s__ctor0();' % (ct, name, sanitize(ct)))
            return
        if is_ref and not qt.endswith('&&') and not is_const and self.ty.kind(ct) in ('scalar', 'value') \
                and not ct.endswith('*'):
            # mutable lvalue reference to a scalar/value object -> C pointer
            ie0 = self.expr(init)
            if name.startswith('__range') and re.match(r'^[A-Za-z_][A-Za-z_0-9]*\(', ie0):
                # range expression is a temporary / a value returned by a call: iterate over a copy
                self.w('%s %s = %s;' % (ct, name, ie0))
                return
            self.locals_ptr.add(d['id'])
            self.w('%s *%s = &%s;' % (ct, name, ie0))
            return
        ie = self.expr(init)
        self.w('%s %s = %s;' % (ct, name, ie))
        self.propagate(ie)

    def strip_all(self, n):
        while True:
            m = self.strip(n)
            if m.get('kind') in ('ImplicitCastExpr',) and m.get('castKind') in ('ConstructorConversion',):
                n = kids(m)[0]
                continue
            if m.get('kind') == 'CXXConstructExpr' and len(kids(m)) == 1 and \
                    self.strip(kids(m)[0]).get('kind') == 'LambdaExpr':
                n = kids(m)[0]
                continue
            return m

    def decomposition(self, d):
        self.unsupported(d)

    def scope_guard(self, d, init):
        # auto guard = ScopeGuardImplicit() + [&]() { body };
        lam = None

        def find(x):
            nonlocal lam
            if x.get('kind') == 'LambdaExpr' and lam is None:
                lam = x
                return
            for c in kids(x):
                find(c)
        find(init)
        if lam is None:
            self.unsupported(d, 'scope guard without lambda')
        body = [c for c in kids(lam) if c.get('kind') == 'CompoundStmt']
        if not body:
            self.unsupported(d, 'scope guard lambda without body')
        sub = FnEmitter(self.u, self.fn, self.qname, self.cname, self.cfg)
        sub.ptr_params = self.ptr_params
        sub.locals_ptr = self.locals_ptr
        sub.renames = self.renames
        sub.lambda_vars = self.lambda_vars
        sub.ind = self.ind
        sub.in_guard = True
        sub.w('/* scope-exit (declared at line %s) */' % self.loc(d))
        sub.s_CompoundStmt(body[-1])
        self.dropped.extend(sub.dropped)
        self.guards.append((self.scope_depth, [l.strip() for l in sub.out]))

    def lock_guard(self, d, init):
        c = self.strip(init)
        args = kids(c)
        if len(args) < 1:
            self.unsupported(d, 'lock guard without mutex')
        m = self.expr(args[0])
        nm = sanitize(d['name'])
        self.w('mutex_lock(%s);' % m)
        self.w('_Bool %s__owns = 1;   /* unique_lock / lock_guard %s owns the mutex */' % (nm, nm))
        self.guards.append((self.scope_depth, ['if (%s__owns) mutex_unlock(%s);' % (nm, m)]))
        self.renames[d['id']] = nm
        self.u.lock_of[d['id']] = (m, nm)

    def s_ReturnStmt(self, n):
        ks = kids(n)
        active = [g for g in self.guards]
        if ks:
            e = self.expr(ks[0])
            if getattr(self, 'ret_by_ref', False):
                e = '(&%s)' % e
            if self.may_throw_in(e):
                self.uses_ret = True
                self.w('__ret = %s;' % e)
                self.propagate(e)
                e = '__ret'
            if active or self.try_stack:
                self.w('{ __ret = %s;' % e)
                self.ind += 1
                self.emit_guards_down_to(0)
                self.w('return __ret; }')
                self.ind -= 1
                self.uses_ret = True
            else:
                self.w('return %s;' % e)
        else:
            self.emit_guards_down_to(0)
            self.w('return;')

    def s_IfStmt(self, n):
        ks = kids(n)
        i = 0
        opened = False
        if n.get('hasInit'):
            self.w('{')
            self.ind += 1
            self.open_scope()
            opened = True
            self.stmt(ks[0])
            i = 1
        if n.get('hasVar'):
            if not opened:
                self.w('{')
                self.ind += 1
                self.open_scope()
                opened = True
            self.stmt(ks[i])
            i += 1
        cond = ks[i]
        then = ks[i + 1]
        els = ks[i + 2] if len(ks) > i + 2 else None
        ce = self.expr(cond)
        if self.may_throw_in(ce):
            self.tmp_no += 1
            tv = '__cond_%d' % self.tmp_no
            self.w('_Bool %s = (%s) != 0;' % (tv, ce))
            self.propagate(ce)
            ce = tv
        self.w('if (%s)' % ce)
        self.block(then)
        if els is not None:
            self.w('else')
            self.block(els)
        if opened:
            self.close_scope()
            self.ind -= 1
            self.w('}')

    def block(self, n):
        if n['kind'] == 'CompoundStmt':
            self.s_CompoundStmt(n)
        else:
            self.w('{')
            self.ind += 1
            self.open_scope()
            self.stmt(n)
            self.close_scope(fallthrough=n['kind'] not in ('ReturnStmt', 'BreakStmt', 'ContinueStmt'))
            self.ind -= 1
            self.w('}')

    def loop_macro(self):
        self.loop_no += 1
        # the loop contract comes from the spec; -DACXX_NO_LOOP_CONTRACTS builds the same code without any (bounded
        # refutation fallback of the driver, when the changed code no longer fits the contract's variables)
        return '#ifndef ACXX_NO_LOOP_CONTRACTS\nLOOPC_%s_%d\n#endif' % (self.cname, self.loop_no)

    def s_ForStmt(self, n):
        # children: init, condvar(None), cond, inc, body  (missing ones are {} placeholders)
        raw = n.get('inner', [])
        def get(i):
            c = raw[i] if i < len(raw) else {}
            return c if isinstance(c, dict) and c.get('kind') else None
        init, condvar, cond, inc, body = get(0), get(1), get(2), get(3), get(4)
        if condvar is not None:
            self.unsupported(n, 'for with condition variable')
        self.w('{')
        self.ind += 1
        self.open_scope()
        if init is not None:
            self.stmt(init)
        lm = self.loop_macro()
        self.w('for (; %s; %s)' % (self.expr(cond) if cond else '1', self.expr(inc) if inc else ''))
        self.w(lm)
        self.loop_scope.append(self.scope_depth)
        self.block(body)
        self.loop_scope.pop()
        self.close_scope()
        self.ind -= 1
        self.w('}')

    def s_WhileStmt(self, n):
        ks = kids(n)
        cond, body = ks[0], ks[-1]
        if len(ks) == 3 and ks[0].get('kind') == 'DeclStmt':
            # while (T x = init) body   ==   while (1) { T x = init; if (!x) break; body }   (continue re-evaluates the declaration)
            decl, cond = ks[0], ks[1]
            lm = self.loop_macro()
            self.w('while (1)')
            self.w(lm)
            self.loop_scope.append(self.scope_depth)
            self.w('{')
            self.ind += 1
            self.open_scope()
            self.stmt(decl)
            self.w('if (!(%s)) break;' % self.expr(cond))
            if body['kind'] == 'CompoundStmt':
                bs = kids(body)
                for c in bs:
                    self.stmt(c)
                last = bs[-1]['kind'] if bs else None
            else:
                self.stmt(body)
                last = body['kind']
            self.close_scope(fallthrough=last not in ('ReturnStmt', 'BreakStmt', 'ContinueStmt'))
            self.ind -= 1
            self.w('}')
            self.loop_scope.pop()
            return
        if len(ks) != 2:
            self.unsupported(n, 'while with condition variable')
        lm = self.loop_macro()
        self.w('while (%s)' % self.expr(cond))
        self.w(lm)
        self.loop_scope.append(self.scope_depth)
        self.block(body)
        self.loop_scope.pop()

    def s_DoStmt(self, n):
        ks = kids(n)
        body, cond = ks[0], ks[1]
        lm = self.loop_macro()
        self.w('do')
        self.w(lm)
        self.loop_scope.append(self.scope_depth)
        self.block(body)
        self.loop_scope.pop()
        self.w('while (%s);' % self.expr(cond))

    def s_CXXForRangeStmt(self, n):
        # inner: [init?], range decl, begin decl, end decl, cond, inc, loopvar decl, body
        raw = n.get('inner', [])
        items = [c if (isinstance(c, dict) and c.get('kind')) else None for c in raw]
        init, rng, beg, end, cond, inc, lv, body = items[:8]
        self.w('{')
        self.ind += 1
        self.open_scope()
        if init is not None:
            self.stmt(init)
        self.stmt(rng)
        self.stmt(beg)
        self.stmt(end)
        lm = self.loop_macro()
        self.w('for (; %s; %s)' % (self.expr(cond), self.expr(inc)))
        self.w(lm)
        self.loop_scope.append(self.scope_depth)
        self.w('{')
        self.ind += 1
        self.open_scope()
        self.stmt(lv)
        if body['kind'] == 'CompoundStmt':
            ks = kids(body)
            for c in ks:
                self.stmt(c)
            last = ks[-1]['kind'] if ks else None
        else:
            self.stmt(body)
            last = body['kind']
        self.close_scope(fallthrough=last not in ('ReturnStmt', 'BreakStmt', 'ContinueStmt'))
        self.ind -= 1
        self.w('}')
        self.loop_scope.pop()
        self.close_scope()
        self.ind -= 1
        self.w('}')

    def s_BreakStmt(self, n):
        if self.loop_scope:
            self.emit_guards_down_to(self.loop_scope[-1])
        self.w('break;')

    def s_ContinueStmt(self, n):
        # continue leaves scopes down to the innermost *loop* (not switch)
        d = None
        for sd, is_switch in reversed(list(zip(self.loop_scope, self.loop_is_switch()))):
            if not is_switch:
                d = sd
                break
        if d is not None:
            self.emit_guards_down_to(d)
        self.w('continue;')

    def loop_is_switch(self):
        return getattr(self, '_is_switch', []) + [False] * (len(self.loop_scope) - len(getattr(self, '_is_switch', [])))

    def s_SwitchStmt(self, n):
        ks = kids(n)
        if len(ks) != 2:
            self.unsupported(n, 'switch with init/var')
        cond, body = ks
        self.w('switch (%s)' % self.expr(cond))
        self._is_switch = self.loop_is_switch()[:len(self.loop_scope)] + [True]
        self.loop_scope.append(self.scope_depth)
        self.block(body)
        self.loop_scope.pop()
        self._is_switch = self._is_switch[:len(self.loop_scope)]

    def s_CaseStmt(self, n):
        ks = kids(n)
        self.w('case %s:' % self.expr(ks[0]))
        self.ind += 1
        self.stmt(ks[-1])
        self.ind -= 1

    def s_DefaultStmt(self, n):
        self.w('default:')
        self.ind += 1
        self.stmt(kids(n)[0])
        self.ind -= 1

    def s_LabelStmt(self, n):
        self.w('%s:;' % sanitize(n['name']))
        self.stmt(kids(n)[0])

    def s_GotoStmt(self, n):
        tgt = self.idx.node.get(n.get('targetLabelDeclId'))
        name = None
        if tgt is not None:
            name = tgt.get('name')
        if name is None:
            name = self.labels.get(n.get('targetLabelDeclId'))
        if name is None:
            self.unsupported(n, 'goto to unknown label')
        if any(g for g in self.guards):
            self.unsupported(n, 'goto across scope guards')
        self.w('goto %s;' % sanitize(name))

    def s_CXXTryStmt(self, n):
        return self.u.exc.try_stmt(self, n)

    def s_CXXThrowExpr(self, n):
        return self.u.exc.throw_stmt(self, n)

    # -- whole function
    def emit_function(self):
        fn = self.fn
        params = [c for c in kids(fn) if c.get('kind') == 'ParmVarDecl']
        body = [c for c in kids(fn) if c.get('kind') in ('CompoundStmt', 'CXXTryStmt')]
        if not body:
            raise Unsupported('%s has no body' % self.qname)
        ftype = fn['type']['qualType']
        # return type: text before the first '(' at depth 0
        # 'RET (PARAMS) quals': the parameter list is the last balanced (...) group
        rt = None
        j = ftype.rfind(')')
        depth = 0
        for i in range(j, -1, -1):
            ch = ftype[i]
            if ch == ')':
                depth += 1
            elif ch == '(':
                depth -= 1
                if depth == 0:
                    rt = ftype[:i].strip()
                    break
        if fn['kind'] in ('CXXConstructorDecl', 'CXXDestructorDecl'):
            self.ret_ct = 'void'
        else:
            rt_node = {'qualType': rt}
            if rt.strip() in ('auto', 'decltype(auto)'):
                # deduced return type: the type of the first return statement's operand
                found = []

                def find_ret(x):
                    if x.get('kind') == 'ReturnStmt' and not found:
                        ks = kids(x)
                        found.append(self.ct(ks[0]) if ks else 'void')
                    if x.get('kind') != 'LambdaExpr' or x is fn:
                        for c in kids(x):
                            find_ret(c)
                for c in body:
                    find_ret(c)
                self.ret_ct = found[0] if found else 'void'
                rt = ''
            else:
                self.ret_ct = self.ty.ctype(self.u.desugar_ret(fn, rt))
            self.ret_by_ref = False
            if rt.rstrip().endswith('&') and not rt.rstrip().endswith('&&') and \
                    (self.ty.is_oomd_struct(self.ret_ct) or self.qname in self.cfg.get('scalar_ref_returns', [])):
                self.ret_ct = self.ret_ct + ' *'
                self.ret_by_ref = True
        ps = []
        first = fn
        while first.get('previousDecl') and self.idx.node.get(first['previousDecl']) is not None:
            first = self.idx.node[first['previousDecl']]
        is_method = fn['kind'] in ('CXXMethodDecl', 'CXXConstructorDecl', 'CXXDestructorDecl') \
            and fn.get('storageClass') != 'static' and first.get('storageClass') != 'static' \
            and not getattr(self, 'is_lambda', False)
        if is_method:
            ps.append('%s *self' % self.u.self_struct_name(self.qname))
        for p in params:
            self.u.local_ids.add(p['id'])
            pname = sanitize(p.get('name') or ('__unnamed%d' % len(ps)))
            tq = p['type']
            qt = tq.get('qualType', '')
            ct = self.ty.ctype_of(tq)
            if (qt.endswith('&') and not qt.endswith('&&') and not qt.startswith('const ')
                    and self.ty.kind(ct) in ('scalar', 'value') and not ct.endswith('*')):
                self.ptr_params.add(p['id'])
                ps.append('%s *%s' % (ct, pname))
            else:
                ps.append('%s %s' % (ct, pname))
        self.sig = '%s %s(%s)' % (self.ret_ct, self.cname, ', '.join(ps) if ps else 'void')
        # constructor member initialisers
        self.ind = 1
        if fn['kind'] == 'CXXConstructorDecl':
            for c in kids(fn):
                if c.get('kind') == 'CXXCtorInitializer':
                    self.ctor_init(c)
        b = body[-1]
        self.labels = {}

        def find_labels(x):
            if x.get('kind') == 'LabelStmt':
                self.labels[x.get('declId')] = x.get('name')
            for c in kids(x):
                find_labels(c)
        find_labels(b)
        self.uses_ret = False
        save = self.out
        self.out = []
        if b['kind'] == 'CXXTryStmt':
            self.stmt(b)
        else:
            self.open_scope()
            ks = kids(b)
            for c in ks:
                self.stmt(c)
            last = ks[-1]['kind'] if ks else None
            self.close_scope(fallthrough=last != 'ReturnStmt')
        bodylines = self.out
        self.out = save
        if self.uses_ret and self.ret_ct != 'void':
            self.w('%s __ret;' % self.ret_ct)
        self.out.extend(bodylines)
        return self.sig, self.out

    def ctor_init(self, c):
        any_ = c.get('anyInit') or c.get('baseInit')
        ks = kids(c)
        if c.get('anyInit'):
            fname = sanitize(c['anyInit']['name'])
            self.u.note_self_field(self, c['anyInit']['name'], c)
            if ks:
                self.w('self->%s = %s;' % (fname, self.expr(ks[0])))
        elif c.get('baseInit'):
            self.dropped.append('base-class initialiser %s' % c['baseInit'].get('qualType'))
        else:
            self.unsupported(c)


RET_TYPED = {'duration_cast', 'make_optional', 'make_unique', 'get', 'make_pair', 'make_tuple',
             'time_point_cast', 'static_pointer_cast'}
ARG_TYPED = {'duration_cast', 'min', 'max', 'make_optional', 'abs', 'ceil', 'floor', 'sort',
             'to_string', 'make_pair', 'make_tuple', 'get', 'isnan', 'round', 'fabs',
             'nth_element', 'find', 'find_if', 'remove_if', 'copy_if', 'any_of', 'all_of'}


# ----------------------------------------------------------------------------
# exceptions (ghost_exc model)
# ----------------------------------------------------------------------------

class ExcModel:
    """throw e            -> ghost_exc = EXC_<kind>; leave function (scope guards run)
       call to may-throw  -> followed by `if (ghost_exc) <leave>` (names in cfg['may_throw'])
       try/catch          -> the try block's leave target is the handler"""

    def __init__(self, unit):
        self.u = unit

    def kind_of(self, em, n):
        ks = kids(n)
        if not ks:
            return 'EXC_RETHROW'
        t = ks[0].get('type', {}).get('qualType', '')
        t = strip_cvref(t).replace('std::', '').replace('Oomd::', '')
        return 'EXC_' + sanitize(t)

    def throw_stmt(self, em, n):
        k = self.kind_of(em, n)
        em.uses_exc = True
        self.u.exc_kinds.add(k)
        self.leave(em, 'ghost_exc = %s;' % k)

    def leave(self, em, first):
        if em.try_stack:
            lbl, depth = em.try_stack[-1]
            em.w('{ %s' % first)
            em.ind += 1
            em.emit_guards_down_to(depth)
            em.w('goto %s; }' % lbl)
            em.ind -= 1
        else:
            em.w('{ %s' % first)
            em.ind += 1
            em.emit_guards_down_to(0)
            if em.ret_ct == 'void':
                em.w('return; }')
            else:
                em.uses_ret = True
                em.w('return __ret; }')
            em.ind -= 1

    def after_call(self, em):
        self.leave(em, '/* propagate */')

    def try_stmt(self, em, n):
        ks = kids(n)
        body = ks[0]
        handlers = ks[1:]
        em.tmp_no += 1
        lbl = '__catch_%d' % em.tmp_no
        end = '__endtry_%d' % em.tmp_no
        em.try_stack.append((lbl, em.scope_depth))
        em.block(body)
        em.try_stack.pop()
        em.w('goto %s;' % end)
        em.w('%s:;' % lbl)
        # handlers tried in order
        first = True
        for h in handlers:
            hk = kids(h)
            var = hk[0] if hk and hk[0].get('kind') == 'VarDecl' else None
            hb = hk[-1]
            if var is None and len(hk) == 1:
                cond = '1'   # catch (...)
            else:
                t = strip_cvref(var.get('type', {}).get('qualType', '')) if var else ''
                t = t.replace('std::', '').replace('Oomd::', '')
                cond = 'exc_matches(ghost_exc, EXC_%s)' % sanitize(t)
                self.u.exc_kinds.add('EXC_' + sanitize(t))
            em.w('%sif (%s)' % ('' if first else 'else ', cond))
            em.w('{')
            em.ind += 1
            if var is not None and var.get('name'):
                em.u.local_ids.add(var['id'])
                em.w('exc_t %s = ghost_exc;' % sanitize(var['name']))
            em.w('ghost_exc_caught = ghost_exc; ghost_exc = 0;')
            em.block(hb)
            em.ind -= 1
            em.w('}')
            first = False
        em.w('else')
        em.w('{')
        em.ind += 1
        self.leave(em, '/* not caught here */')
        em.ind -= 1
        em.w('}')
        em.w('%s:;' % end)


# ----------------------------------------------------------------------------
# unit driver
# ----------------------------------------------------------------------------

class Unit:
    def __init__(self, cfg, repo, workdir):
        self.cfg = cfg
        self.repo = repo
        self.workdir = workdir
        self.strlits = {}
        self.self_fields = {}
        self.local_ids = set()
        self.exc_kinds = set()
        self.exc = ExcModel(self)
        self.lambdas = []
        self.lock_of = {}
        self.lifted = []     # (sig, lines, manifest)
        self.globals = {}
        self.static_locals = {}
        os.makedirs(workdir, exist_ok=True)
        self.tus = {}
        self.index = None
        self.types = None

    # -- loading
    def load(self, tu):
        dump = os.path.join(self.workdir, sanitize(tu) + '.ast.json')
        # config ast_filter: a substring that matches 'Oomd' AND the file-local functions under contract (one dump, so
        # that node ids agree); only namespace Oomd and the configured top-level functions are indexed from it
        clang_dump(self.repo, tu, dump, filt=self.cfg.get('ast_filter', 'Oomd'))
        docs = load_docs(dump)
        os.remove(dump)
        if self.cfg.get('ast_filter'):
            want = {f['qname'] for f in self.cfg['functions'] if '::' not in f['qname']}
            docs = [d for d in docs if (d.get('kind') == 'NamespaceDecl' and d.get('name') == 'Oomd') or
                    (d.get('kind') == 'FunctionDecl' and d.get('name') in want)]
        # extra_ast_filters: further dumps of the same TU for file-local declarations (anonymous namespace) that no single
        # filter string covers together with namespace Oomd.  Node ids of different clang runs do not agree, so only
        # declarations that are looked up BY NAME cross the dumps (functions called, enum and struct types).
        for xf in self.cfg.get('extra_ast_filters', []):
            d2 = os.path.join(self.workdir, sanitize(tu) + '.' + sanitize(xf) + '.ast.json')
            clang_dump(self.repo, tu, d2, filt=xf)
            more = load_docs(d2)
            os.remove(d2)
            have = {(d.get('kind'), d.get('name'), (d.get('loc') or {}).get('offset')) for d in docs}
            want = {f['qname'].split('::')[-1] for f in self.cfg['functions']} | set(self.cfg.get('extra_ast_names', []))
            for d in more:
                if d.get('kind') in ('FunctionDecl', 'FunctionTemplateDecl', 'EnumDecl') and d.get('name') in want and \
                        (d.get('kind'), d.get('name'), (d.get('loc') or {}).get('offset')) not in have:
                    docs.append(d)
        self.index = Index(docs)
        self.types = Types(self.cfg, self.index)
        for fn in self.cfg['functions']:
            cls = '::'.join(fn['qname'].split('::')[:-1])
            if cls in self.index.records or (cls + '<spec>') in self.index.records:
                self.types.value_structs.add(cls)

    def strlit(self, text):
        if text == '':
            return 'STR_EMPTY'
        if text not in self.strlits:
            import zlib
            nm = 'STR_' + sanitize(text)[:48]
            if nm in self.strlits.values():
                nm += '_%04x' % (zlib.crc32(text.encode()) & 0xffff)
            self.strlits[text] = nm
        return self.strlits[text]

    def note_self_field(self, em, name, node):
        cls = '::'.join(em.qname.split('::')[:-1])
        self.self_fields.setdefault(cls, set()).add(name)

    def self_struct_name(self, qname):
        cls = '::'.join(qname.split('::')[:-1])
        return self.types.oomd_type(cls)

    def desugar_ret(self, fn, rt):
        # the JSON gives only the sugared function type; map typedef-ish return types by hand
        m = self.cfg.get('ret_types', {})
        if rt in m:
            return m[rt]
        return self.resolve_alias(rt)

    ALIASES = {
        'Engine::PluginRet': 'Oomd::Engine::PluginRet', 'PluginRet': 'Oomd::Engine::PluginRet',
        'uint32_t': 'unsigned int', 'int64_t': 'long', 'uint64_t': 'unsigned long',
        'std::string': 'std::basic_string<char>', 'size_t': 'unsigned long',
        'ConstCgroupContextRef': 'Oomd::CgroupContext',
        'OomdContext::ConstCgroupContextRef': 'Oomd::CgroupContext',
        'ssize_t': 'long', 'pid_t': 'int',
    }

    def resolve_alias(self, t):
        t0 = strip_cvref(t)
        m = re.match(r'^decltype\((.*)::(\w+)\)$', t0)
        if m:
            cls, fld = m.group(1), m.group(2)
            for q, rec in self.index.records.items():
                if q.endswith(cls) or q.endswith('::' + cls):
                    for c in kids(rec):
                        if c.get('kind') == 'FieldDecl' and c.get('name') == fld:
                            ft = c['type']
                            return strip_cvref(ft.get('desugaredQualType') or ft.get('qualType'))
            raise Unsupported('cannot resolve %s' % t0)
        if t0 in self.ALIASES:
            return self.ALIASES[t0]
        name, args = tmpl(t0)
        if args is not None:
            return '%s<%s>' % (self.resolve_alias(name) if name in self.ALIASES else name,
                               ', '.join(self.resolve_alias(a) for a in args))
        if t0 in SCALARS or t0.startswith('std::') or t0.startswith('Oomd::'):
            return t0
        # try to qualify with Oomd:: / Oomd::Engine::
        for pre in ('Oomd::', 'Oomd::Engine::', 'Oomd::Fs::'):
            if pre + t0 in self.index.records or pre + t0 in self.index.enums:
                return pre + t0
        return t0

    def file_scope_string(self, name):
        """`static constexpr auto kName = "text";` at file scope (outside namespace Oomd, hence not
        in the AST dump): the literal is read from the translation unit's source text."""
        try:
            src = open(os.path.join(self.repo, self.cfg['tu'])).read()
        except Exception:
            return None
        m = re.search(r'^\s*static\s+(?:constexpr\s+auto|auto\s+constexpr|const\s+char\s*\*\s*(?:const)?|constexpr\s+const\s+char\s*\*)\s*%s\s*=\s*"((?:[^"\\]|\\.)*)"\s*;' % re.escape(name), src, re.M)
        if not m:
            return None
        return self.strlit(m.group(1))

    def global_var(self, rid, r):
        node = self.index.node.get(rid)
        if node is not None:
            x = node
            ks = kids(x)
            while ks:
                x = ks[0]
                if x.get('kind') == 'StringLiteral':
                    v = x['value']
                    return self.strlit(json.loads(v) if v.startswith('"') else v)
                if x.get('kind') == 'IntegerLiteral' and len(kids(node)) == 1:
                    pass
                ks = kids(x)
        q = self.index.qname[rid]
        nm = 'g__' + sanitize(q[len('Oomd::'):] if q.startswith('Oomd::') else q)
        self.globals[nm] = r
        return nm

    def try_inline_method(self, em, rid, obj, args, n):
        return None

    # -- lambdas
    def register_lambda(self, em, lam, name):
        lam['_cname'] = '%s__lambda_%s' % (em.cname, name)
        lam['_owner'] = em
        self.lift(em, lam)

    def name_lambdas_by_use(self, em):
        """config lambda_names=by_use: a lambda is named after what it is handed to (callee, variable, return),
        so that reordering independent statements does not rename the functions under contract"""
        if getattr(em, '_lam_named', False):
            return
        em._lam_named = True
        seen = {}

        def callee_name(call):
            def find(x, depth=0):
                if x.get('kind') in ('DeclRefExpr',):
                    return x.get('referencedDecl', {}).get('name')
                if x.get('kind') == 'MemberExpr':
                    return x.get('name')
                for c in kids(x)[:1]:
                    r = find(c, depth + 1)
                    if r:
                        return r
                return None
            ks = kids(call)
            return find(ks[0]) if ks else None

        def walk(x, stack):
            if x.get('kind') == 'LambdaExpr' and x is not em.fn:
                use = None
                for a in reversed(stack):
                    k = a.get('kind')
                    if k in ('CallExpr', 'CXXMemberCallExpr', 'CXXOperatorCallExpr'):
                        use = callee_name(a)
                    elif k == 'VarDecl':
                        use = a.get('name')
                    elif k == 'ReturnStmt':
                        use = 'ret'
                    if use:
                        break
                use = sanitize(use or 'anon')
                seen[use] = seen.get(use, 0) + 1
                x['_use_name'] = use if seen[use] == 1 else '%s_%d' % (use, seen[use])
                return      # nested lambdas are named when their parent is lifted
            for c in kids(x):
                walk(c, stack + [x])
        walk(em.fn, [])

    def lift_lambda(self, em, lam):
        if '_cname' not in lam:
            em.tmp_no += 1
            if self.cfg.get('lambda_names') == 'by_use':
                self.name_lambdas_by_use(em)
            if lam.get('_use_name'):
                lam['_cname'] = '%s__lambda_%s' % (em.cname, lam['_use_name'])
            else:
                lam['_cname'] = '%s__lambda_%d' % (em.cname, em.tmp_no)
            self.lift(em, lam)
        return lam['_cname']

    def lift(self, em, lam, spec=None):
        """Emit the lambda's operator() as a C function.  Captured variables become
        extra leading pointer parameters (by-reference capture) or value parameters."""
        rec = [c for c in kids(lam) if c.get('kind') == 'CXXRecordDecl']
        op = None
        caps = []
        specs = []
        for c in kids(rec[0]) if rec else []:
            if c.get('kind') == 'CXXMethodDecl' and c.get('name') == 'operator()':
                op = c
            if c.get('kind') == 'FieldDecl':
                caps.append(c)
            if c.get('kind') == 'FunctionTemplateDecl':
                for cc in kids(c):
                    if cc.get('kind') == 'CXXMethodDecl' and cc.get('name') == 'operator()' and \
                            any(x.get('kind') == 'CompoundStmt' for x in kids(cc)):
                        op = cc
                        if 'auto' not in re.split(r'\W+', cc.get('type', {}).get('qualType', '')):
                            specs.append(cc)          # an instantiated body of a generic lambda (`auto` parameters)
        if op is None:
            raise Unsupported('%s: lambda without operator() at line %s' % (em.qname, em.loc(lam)))
        if len(specs) > 1 and spec is None:
            # generic lambda instantiated for several argument types: one C function per instantiation, chosen at the
            # call site by the instantiation the call refers to
            lam['_spec_cnames'] = {}
            base = lam['_cname']
            for k, sp in enumerate(specs):
                lam['_cname'] = '%s__inst%d' % (base, k + 1)
                lam['_spec_cnames'][sp['id']] = lam['_cname']
                lam.setdefault('_spec_nodes', {})[sp['id']] = sp
                self.lift(em, lam, spec=sp)
            lam['_cname'] = base
            return
        if spec is not None:
            op = spec
        sub = FnEmitter(self, op, em.qname, lam['_cname'], em.cfg)
        sub.is_lambda = True
        # captured variables: find DeclRefExprs in body that refer to enclosing locals
        captured = []

        def scan(x):
            if x.get('kind') == 'DeclRefExpr':
                r = x.get('referencedDecl', {})
                if r.get('kind') in ('VarDecl', 'ParmVarDecl') and r.get('id') in self.local_ids \
                        and r.get('id') not in [c['id'] for c in captured]:
                    captured.append(r)
            for c in kids(x):
                scan(c)
        uses_this = [False]

        def scan_this(x):
            if x.get('kind') == 'CXXThisExpr':
                uses_this[0] = True
            for c in kids(x):
                scan_this(c)
        body = [c for c in kids(op) if c.get('kind') == 'CompoundStmt'][0]
        own = set()

        def own_decls(x):
            if x.get('kind') in ('VarDecl', 'ParmVarDecl'):
                own.add(x['id'])
            for c in kids(x):
                own_decls(c)
        own_decls(op)
        scan(body)
        scan_this(body)

        def scan_lams(x):
            if x.get('kind') == 'DeclRefExpr':
                rid = x.get('referencedDecl', {}).get('id')
                other = em.lambda_vars.get(rid)
                if other is not None and other is not lam:
                    for c in other.get('_captured', []):
                        if c['id'] not in [k['id'] for k in captured]:
                            captured.append(c)
                    if other.get('_uses_this'):
                        uses_this[0] = True
            for c in kids(x):
                scan_lams(c)
        scan_lams(body)
        captured = [c for c in captured if c['id'] not in own]
        lam['_captured'] = captured
        lam['_uses_this'] = uses_this[0]
        sub.lambda_vars = em.lambda_vars
        extra = []
        call_extra = []
        if uses_this[0]:
            extra.append('%s *self' % self.self_struct_name(em.qname))
            call_extra.append('self')
        for c in captured:
            ct = self.types.ctype_of(c.get('type'))
            nm = em.renames.get(c['id'], sanitize(c['name']))
            if c['id'] in em.lambda_vars:
                continue
            if self.types.kind(ct) in ('scalar', 'value') and not ct.endswith('*'):
                sub.ptr_params.add(c['id'])
                extra.append('%s *%s' % (ct, nm))
                if c['id'] in em.ptr_params or c['id'] in em.locals_ptr:
                    call_extra.append(nm)
                else:
                    call_extra.append('&' + nm)
            else:
                extra.append('%s %s' % (ct, nm))
                call_extra.append(nm)
        lam['_call_extra'] = call_extra
        sub.qname = em.qname
        saved_local = set(self.local_ids)
        sig, lines = sub.emit_function()
        # splice extra params
        i = sig.index('(')
        inner = sig[i + 1:-1]
        plist = extra + ([] if inner == 'void' else [inner])
        # drop the lambda's own implicit self
        sig = sig[:i] + '(' + (', '.join(plist) if plist else 'void') + ')'
        self.lifted.append((sig, lines, sub.dropped, lam['_cname'], em.loc(lam)))
        em.dropped.extend(sub.dropped)

    def call_lambda(self, em, lam, args, spec_id=None):
        cname = lam.get('_spec_cnames', {}).get(spec_id, lam['_cname'])
        if lam.get('_spec_cnames') and spec_id not in lam['_spec_cnames']:
            raise Unsupported('call of a generic lambda without a known instantiation')
        extra = []
        for x in lam['_call_extra']:
            # inside another lifted lambda a by-reference capture is already a pointer parameter
            if x.startswith('&') and getattr(em, 'is_lambda', False):
                extra.append(x[1:])
            else:
                extra.append(x)
        al = []
        sp = lam.get('_spec_nodes', {}).get(spec_id)
        ps = [c for c in kids(sp) if c.get('kind') == 'ParmVarDecl'] if sp else []
        for i, a in enumerate(args):
            e = em.expr(a)
            if i < len(ps):
                pt = ps[i].get('type', {}).get('qualType', '')
                if pt.endswith('&') and not pt.endswith('&&') and not pt.startswith('const '):
                    ct = self.types.ctype_of(ps[i].get('type'))
                    if self.types.kind(ct) in ('scalar', 'value'):
                        e = '&' + e
            al.append(e)
        return '%s(%s)' % (cname, ', '.join(extra + al))

    # -- function lookup
    def find_function(self, qname, pick=None):
        cands = self.index.functions.get(qname, [])
        if not cands:
            # template instantiation: look under '<spec>' records by walking all functions
            raise Unsupported('function %s not found in AST (have e.g. %s)' % (
                qname, [k for k in self.index.functions if k.split('::')[-1] == qname.split('::')[-1]][:5]))
        if pick == 'inst':
            # the instantiated body of a template member: the candidate without dependent constructs
            inst = [c for c in cands if c.get('_inst')]
            if len(inst) != 1:
                raise Unsupported('function %s: %d instantiated bodies among %d' % (qname, len(inst), len(cands)))
            return inst[0]
        if isinstance(pick, dict) and 'param' in pick:
            # overload / explicit specialization selected by the text of its first parameter's type
            sel = []
            for c in cands:
                ps = [x for x in kids(c) if x.get('kind') == 'ParmVarDecl']
                t = ps[0].get('type', {}) if ps else {}
                if pick['param'] in (t.get('qualType', '') + ' ' + t.get('desugaredQualType', '')):
                    sel.append(c)
            if len(sel) != 1:
                raise Unsupported('function %s: %d bodies with a first parameter matching %r' % (qname, len(sel), pick['param']))
            return sel[0]
        if pick is not None:
            return cands[pick]
        if len(cands) > 1:
            raise Unsupported('function %s is ambiguous (%d bodies)' % (qname, len(cands)))
        return cands[0]

    # -- C++20 defaulted comparisons ([class.eq], [over.match.oper]): language-defined bodies, synthesised
    #    D1: `bool operator==(const T&) const = default;`  -> memberwise ==, bases then members in declaration order
    #    D2: no operator!= declared while operator== is    -> a != b is rewritten as !(a == b)
    def synth_defaulted(self, q, f):
        cls = '::'.join(q.split('::')[:-1])
        op = q.split('::')[-1]
        rec = self.index.records.get(cls)
        if rec is None or op not in ('operator==', 'operator!='):
            return None
        decls = [c for c in kids(rec) if c.get('kind') == 'CXXMethodDecl']
        eqs = [c for c in decls if c.get('name') == 'operator==']
        cname = f.get('cname') or self.def_cname(q)
        sct = self.self_struct_name(q)
        if op == 'operator==':
            d = [c for c in eqs if c.get('explicitlyDefaulted') == 'default']
            if len(d) != 1:
                return None
            lines = ['{']
            for fd in self.struct_fields(cls):
                nm = sanitize(fd['name'])
                ct = self.types.ctype_of(fd['type'])
                self.self_fields.setdefault(cls, set()).add(fd['name'])
                k = self.types.kind(ct)
                if k in ('scalar', 'handle'):
                    lines.append('  if (!(self->%s == other.%s)) return 0;' % (nm, nm))
                else:
                    lines.append('  if (!%s__op_eq(self->%s, other.%s)) return 0;' % (sanitize(ct), nm, nm))
            lines += ['  return 1;', '}']
            decl = d[0]
            note = 'SYNTHESISED body of the defaulted operator== ([class.eq]: memberwise ==, declaration order)'
        else:
            if [c for c in decls if c.get('name') == 'operator!='] or not eqs:
                return None
            eqc = self.def_cname(cls + '::operator==')
            lines = ['{', '  return !%s(self, other);' % eqc, '}']
            decl = eqs[0]
            note = 'SYNTHESISED: no operator!= is declared; a != b is the rewritten candidate !(a == b) ([over.match.oper])'
        sha = ''
        bo, eo = self.source_range(decl)
        file_ = decl.get('loc', {}).get('file') or decl.get('_file')
        if bo is not None and eo is not None and file_:
            try:
                sha = hashlib.sha256(open(file_, 'rb').read()[bo:eo + 1]).hexdigest()
            except Exception:
                sha = ''
        return {'qname': q, 'cname': cname, 'sig': '_Bool %s(%s *self, %s other)' % (cname, sct, sct), 'lines': lines,
                'dropped': [note], 'sha256': sha, 'line': decl.get('loc', {}).get('line', 0), 'loops': 0}

    def def_cname(self, q):
        short = q[len('Oomd::'):] if q.startswith('Oomd::') else q
        if short.startswith('Engine::'):
            short = short[len('Engine::'):]
        parts = [x for x in short.split('::') if x]
        base = '_'.join(sanitize(p) for p in parts[:-1])
        em = FnEmitter(self, {'kind': 'none'}, q, '', self.cfg)
        nm = em.opname(parts[-1], 2)
        return (base + '__' + nm) if base else nm

    def source_range(self, fn):
        r = fn.get('range', {})
        b = r.get('begin', {})
        e = r.get('end', {})
        bo = b.get('offset', b.get('expansionLoc', {}).get('offset'))
        eo = e.get('offset', e.get('expansionLoc', {}).get('offset'))
        return bo, eo

    def run(self):
        from acxx import Library
        self.load(self.cfg['tu'])
        src = open(os.path.join(self.repo, self.cfg['tu']), 'rb').read()
        results = []
        for f in self.cfg['functions']:
            q = f['qname']
            try:
                fn = self.find_function(q, f.get('pick'))
            except Unsupported:
                syn = self.synth_defaulted(q, f)
                if syn is None:
                    raise
                results.append(syn)
                continue
            cname = f.get('cname') or self.def_cname(q)
            em = FnEmitter(self, fn, q, cname, self.cfg)
            sig, lines = em.emit_function()
            bo, eo = self.source_range(fn)
            file_ = fn.get('loc', {}).get('file') or fn.get('_file') or os.path.join(self.repo, self.cfg['tu'])
            sha = ''
            line0 = em.loc(fn)
            if bo is not None and eo is not None:
                try:
                    data = open(fn.get('loc', {}).get('file') or fn.get('_file') or os.path.join(self.repo, self.cfg['tu']), 'rb').read()
                    sha = hashlib.sha256(data[bo:eo + 1]).hexdigest()
                except Exception:
                    sha = ''
            if f.get('lambdas_only'):
                em.dropped.append('BODY OF %s NOT EMITTED: only its lifted lambdas are under contract' % q)
                lines = None
            results.append({'qname': q, 'cname': cname, 'sig': sig, 'lines': lines,
                            'dropped': em.dropped, 'sha256': sha, 'line': line0,
                            'loops': em.loop_no})
        lib = Library(self)
        return self.assemble(results, lib)

    # -- output assembly
    def struct_fields(self, q):
        rec = self.index.records.get(q + '<spec>') or self.index.records.get(q)     # a class template: its instantiation
        if rec is None:
            raise Unsupported('no record definition for %s' % q)
        fields = []
        for b in rec.get('bases', []):
            bq = strip_cvref(b['type'].get('desugaredQualType') or b['type']['qualType'])
            if bq in self.index.records:
                fields.extend(self.struct_fields(bq))
        for c in kids(rec):
            if c.get('kind') == 'FieldDecl':
                fields.append(c)
        return fields

    def assemble(self, results, lib):
        ty = self.types
        out = []
        man = ['/* GENERATED by cxx2c from %s — do not edit.' % self.cfg['tu']]
        for r in results:
            man.append(' * %s -> %s  (line %s, sha256 %s, %d loops)' % (
                r['qname'], r['cname'], r['line'], r['sha256'][:16], r['loops']))
            for d in r['dropped']:
                man.append(' *     dropped: %s' % d)
        man.append(' */')
        out.extend(man)
        out.append('#include "acxx.h"')
        for inc in self.cfg.get('prelude', []):
            out.append('#include "%s"   /* C views of system types named in cfg types */' % inc)
        # 1. types: structs for value_structs (only fields that are used or mappable)
        struct_defs = {}
        deps = {}
        pending = [q for q in sorted(ty.value_structs)]
        done = set()
        while pending:
            q = pending.pop(0)
            if q in done:
                continue
            done.add(q)
            try:
                ct = ty.oomd_type(q)
            except Unsupported:
                continue
            if ty.kinds.get(ct) != 'value':
                continue
            try:
                fields = self.struct_fields(q)
            except Unsupported:
                continue
            lines = ['typedef struct %s {' % ct]
            dep = set()
            used = self.self_fields.get(q)
            for fdecl in fields:
                fname = sanitize(fdecl['name'])
                if used is not None and fdecl['name'] not in used and q not in self.cfg.get('full_structs', []):
                    lines.append('  /* field %s not accessed by extracted code: omitted */' % fname)
                    continue
                try:
                    fct = ty.ctype_of(fdecl['type'])
                except Unsupported as e:
                    lines.append('  /* field %s omitted: %s */' % (fname, e))
                    continue
                dep.add(fct.rstrip(' *'))
                lines.append('  %s %s;' % (fct, fname))
            if len([l for l in lines if not l.strip().startswith('/*')]) == 1:
                lines.append('  char __empty;')
            lines.append('} %s;' % ct)
            struct_defs[ct] = lines
            deps[ct] = dep
        # 2. order all used ctypes
        emitted = set(lib.BUILTIN)
        order = []

        def visit(ct, stack=()):
            ct = ct.rstrip(' *') if ct.endswith('*') else ct
            if ct in emitted or ct in stack:
                return
            for d in deps.get(ct, ()):
                visit(d, stack + (ct,))
            e = ty.elem.get(ct)
            if e:
                visit(e, stack + (ct,))
            for d in lib.type_deps(ct):
                visit(d, stack + (ct,))
            emitted.add(ct)
            order.append(ct)
        changed = True
        while changed:
            before = len(ty.used)
            for ct in list(ty.used):
                visit(ct)
            changed = len(ty.used) != before
        for ct in order:
            if ct in struct_defs:
                out.extend(struct_defs[ct])
            elif ct in ty.enum_ctypes:
                out.extend(self.enum_def(ct, ty.enum_ctypes[ct]))
            else:
                out.extend(lib.type_def(ct))
        # string literals
        if self.strlits:
            out.append('/* string literals (interned) */')
            import zlib
            for text, nm in self.strlits.items():
                out.append('#define %s ((str_t)(%d)) /* %s */' % (
                    nm, 1000000 + (zlib.crc32(text.encode()) & 0xffffff), json.dumps(text)))
        # string constants the unit's contracts name but the extracted code (no longer) contains: distinct interned
        # values, so that a renamed literal fails the contract that names the documented one instead of breaking the build
        try:
            cdir0 = os.path.dirname(os.path.abspath(self.cfg['_cfg_path']))
            stext = open(os.path.join(cdir0, self.cfg['spec'])).read()
            for inc in self.cfg.get('spec_includes', []):
                try:
                    stext += open(os.path.join(cdir0, inc)).read()
                except OSError:
                    pass
            import zlib as _z
            known = set(self.strlits.values())
            defined_in_spec = set(re.findall(r'^#define\s+(STR_\w+)', stext, re.M))
            for nm in sorted(set(re.findall(r'\bSTR_\w+\b', stext)) - known - defined_in_spec - {'STR_EMPTY'}):
                out.append('#define %s ((str_t)(%d)) /* named by the contracts only: no such literal in the extracted code */' % (
                    nm, 20000000 + (_z.crc32(nm.encode()) & 0xffffff)))
        except OSError:
            pass
        if self.exc_kinds:
            pass
        if self.static_locals:
            out.append('/* function-local statics: [ghost_tid] selects the calling thread\'s copy of a thread_local one */')
            out.append('#ifndef ACXX_NTHREADS\n#define ACXX_NTHREADS 2\n#endif')
            out.append('unsigned ghost_tid;')
            for g, (ct, tls) in sorted(self.static_locals.items()):
                out.append('%s %s[%s];' % (ct, g, 'ACXX_NTHREADS' if tls else '1'))
        out.append('#include "%s"' % self.cfg['spec'])
        body = []
        for sig, lines, dropped, cname, line in self.lifted:
            body.append('/* lambda at line %s */' % line)
            body.append('%s;' % sig)
        for r in results:
            if r['lines'] is None:
                continue
            body.append('%s;' % r['sig'])
        for sig, lines, dropped, cname, line in self.lifted:
            body.append('%s' % sig)
            body.append('{')
            body.extend(lines)
            body.append('}')
        for r in results:
            if r['lines'] is None:
                continue
            body.append('/* %s */' % r['qname'])
            body.append(r['sig'])
            body.append('{')
            body.extend(r['lines'])
            body.append('}')
        text = '\n'.join(body)
        self.struct_funcs = self.gen_struct_funcs(struct_defs)
        out.append('/* library functions referenced by the extracted code */')
        cdir = os.path.dirname(os.path.abspath(self.cfg['_cfg_path']))
        spec_text = open(os.path.join(cdir, self.cfg['spec'])).read()
        for inc in self.cfg.get('spec_includes', []):
            try:
                spec_text += '\n' + open(os.path.join(cdir, inc)).read()
            except OSError:
                pass
        for inc in re.findall(r'#include "([^"]+)"', spec_text):
            ip = os.path.join(cdir, inc)
            if os.path.exists(ip) and inc not in self.cfg.get('spec_includes', []):
                spec_text += '\n' + open(ip).read()
        out.extend(lib.functions_for(text, spec_text))
        out.extend(body)
        if self.cfg.get('harness'):
            out.append('#include "%s"' % self.cfg['harness'])
        return '\n'.join(out) + '\n', results

    def gen_struct_funcs(self, struct_defs):
        """X__ctor0 (default member initialisers) and X__init<k> (aggregate init of the
        first k fields) for every generated struct, from the FieldDecl initialisers."""
        ty = self.types
        f = {}
        for q in sorted(ty.value_structs):
            ct = ty.oomd_type(q)
            if ct not in struct_defs:
                continue
            present = [l.split()[-1].rstrip(';') for l in struct_defs[ct]
                       if l.startswith('  ') and not l.strip().startswith('/*')]
            fields = self.struct_fields(q)
            em = FnEmitter(self, {'kind': 'none'}, q + '::<init>', ct + '__ctor0', self.cfg)
            lines = []
            flist = []
            for fd in fields:
                fname = sanitize(fd['name'])
                if fname not in present:
                    continue
                fct = ty.ctype_of(fd['type'])
                flist.append((fname, fct))
                ini = kids(fd)
                if ini:
                    try:
                        lines.append('o.%s = %s;' % (fname, em.expr(ini[0])))
                    except Unsupported as e:
                        lines.append('/* initialiser of %s not translated: %s (left nondet) */' % (fname, e))
                elif ty.kind(fct) == 'value':
                    lines.append('o.%s = %s__ctor0();' % (fname, sanitize(fct)))
                elif ty.kind(fct) == 'handle':
                    lines.append('o.%s = %s__ctor0();' % (fname, sanitize(fct)))
                else:
                    lines.append('/* %s: no initialiser (indeterminate) */' % fname)
            f[ct + '__ctor0'] = 'static inline %s %s__ctor0(void) { %s o; %s return o; }' % (
                ct, ct, ct, ' '.join(lines))
            for k in range(1, len(flist) + 1):
                ps = ', '.join('%s a%d' % (flist[i][1], i) for i in range(k))
                asg = ' '.join('o.%s = a%d;' % (flist[i][0], i) for i in range(k))
                f['%s__init%d' % (ct, k)] = 'static inline %s %s__init%d(%s) { %s o = %s__ctor0(); %s return o; }' % (
                    ct, ct, k, ps, ct, ct, asg)
        return f

    def enum_def(self, ct, q):
        e = self.index.enums[q]
        lines = ['typedef int %s;' % ct, 'enum {']
        val = -1
        for c in kids(e):
            if c.get('kind') != 'EnumConstantDecl':
                continue
            v = None
            for x in kids(c):
                vv = self.const_value(x)
                if vv is not None:
                    v = vv
            val = v if v is not None else val + 1
            lines.append('  %s__%s = %d,' % (ct, c['name'], val))
        lines.append('};')
        return lines

    def const_value(self, x):
        if x.get('kind') == 'ConstantExpr' and 'value' in x:
            return int(x['value'])
        if x.get('kind') == 'IntegerLiteral':
            return int(x['value'])
        for c in kids(x):
            v = self.const_value(c)
            if v is not None:
                return v
        return None


def main():
    import argparse
    ap = argparse.ArgumentParser()
    ap.add_argument('cfg')
    ap.add_argument('--repo', default='/repo')
    ap.add_argument('--out', required=True)
    ap.add_argument('--work', default=None)
    a = ap.parse_args()
    cfg = json.load(open(a.cfg))
    cfg['_cfg_path'] = a.cfg
    sys.path.insert(0, os.path.dirname(os.path.abspath(__file__)))
    u = Unit(cfg, a.repo, a.work or os.path.dirname(os.path.abspath(a.out)))
    try:
        text, results = u.run()
    except Unsupported as e:
        sys.stderr.write('cxx2c: UNSUPPORTED: %s\n' % e)
        sys.exit(2)
    open(a.out, 'w').write(text)
    meta = [{k: r[k] for k in ('qname', 'cname', 'sha256', 'line', 'loops', 'dropped')} for r in results]
    json.dump(meta, open(a.out + '.meta.json', 'w'), indent=1)


if __name__ == '__main__':
    main()
