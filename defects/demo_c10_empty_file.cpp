// Defect: Fs::readMemcurrentAt / readSwapCurrentAt / readPidsCurrentAt / readControllersAt index (*lines)[0]
// without checking that the file had a line: an empty control file (e.g. read while the cgroup is being torn
// down) is undefined behaviour (here: a crash) instead of "statistic unavailable".
#include <sys/wait.h>
#include <unistd.h>
#include <iostream>
#include "oomd/util/Fixture.h"
#include "oomd/util/Fs.h"
using namespace Oomd;
int main() {
  using F = Fixture;
  auto tmp = F::mkdtempChecked();
  auto cg = F::makeDir("cg", {F::makeFile("memory.current", ""), F::makeFile("memory.swap.current", ""), F::makeFile("pids.current", ""), F::makeFile("cgroup.controllers", "")});
  cg.second.materialize(tmp, cg.first);
  int bad = 0;
  for (int which = 0; which < 4; ++which) {
    pid_t c = fork();
    if (c == 0) {
      auto dir = Fs::DirFd::open(tmp + "/cg");
      if (!dir) _exit(3);
      bool ok;
      switch (which) {
        case 0: ok = (bool)Fs::readMemcurrentAt(*dir); break;
        case 1: ok = (bool)Fs::readSwapCurrentAt(*dir); break;
        case 2: ok = (bool)Fs::readPidsCurrentAt(*dir); break;
        default: ok = (bool)Fs::readControllersAt(*dir); break;
      }
      _exit(ok ? 1 : 0);    // an empty file must be reported as an error (unavailable), exit 0
    }
    int st; waitpid(c, &st, 0);
    const char* names[] = {"memory.current", "memory.swap.current", "pids.current", "cgroup.controllers"};
    if (WIFSIGNALED(st)) { std::cout << "VIOLATION: empty " << names[which] << " crashed the reader (signal " << WTERMSIG(st) << ")\n"; bad = 1; }
    else if (WEXITSTATUS(st) != 0) { std::cout << "VIOLATION: empty " << names[which] << " not reported as unavailable (status " << WEXITSTATUS(st) << ")\n"; bad = 1; }
  }
  F::rmrChecked(tmp);
  return bad;
}
