// Defect (C11/C12/C04): Ruleset::registerRunnableRulesetForCgroupPath builds the per-cgroup instance of a cgroup-scoped
// ruleset by re-creating every action plugin and calling init() with the template's arguments PLUS a defaulted `cgroup`
// argument - and ignores init()'s result.  A plugin that does not declare `cgroup` (systemd_restart) rejects the argument
// map ("Unknown arg"), so its clone runs half-initialised: depending on hash order `dry` and `service` keep their defaults
// (dry=false, service=""), i.e. a ruleset configured as a dry run restarts for real / an accepted configuration is not
// honoured.  The demo compiles such a ruleset through the real parser/compiler, lets the engine create the instance for a
// matching cgroup, and inspects the clone.
#ifndef DEMO_TMP
#define DEMO_TMP "/tmp/oomd_demo"
#endif
#include <sys/stat.h>
#include <fstream>
#include <iostream>
#include "oomd/OomdContext.h"
#include "oomd/PluginConstructionContext.h"
#include "oomd/config/ConfigCompiler.h"
#include "oomd/config/JsonConfigParser.h"
#include "oomd/engine/Engine.h"
#include "oomd/engine/Ruleset.h"
#include "oomd/plugins/systemd/BaseSystemdPlugin.h"
#include "oomd/plugins/systemd/SystemdRestart.h"
using namespace Oomd;
int main() {
  const std::string root = DEMO_TMP "/cgroupfs";
  ::mkdir(root.c_str(), 0755); ::mkdir((root + "/job1").c_str(), 0755);
  std::ofstream(root + "/job1/cgroup.controllers") << "memory\n";
  const std::string cfg = R"({"rulesets":[{"name":"r","cgroup":"job*",
    "detectors":[["dg",{"name":"exists","args":{"cgroup":"job1"}}]],
    "actions":[{"name":"systemd_restart","args":{"service":"demo.service","dry":"true","post_action_delay":"0"}}]}]})";
  Config2::JsonConfigParser parser;
  auto ir = parser.parse(cfg);
  PluginConstructionContext cctx(root);
  auto engine = Config2::compile(*ir, cctx);
  if (!engine) { std::cout << "config rejected (expected: accepted)\n"; return 2; }
  OomdContext ctx;
  engine->prerun(ctx);
  engine->runOnce(ctx);            // creates the per-cgroup instance for job1
  auto& base = engine->rulesets_.at(0).ruleset;
  if (base->runnable_rulesets_.empty()) { std::cout << "no per-cgroup instance was created\n"; return 2; }
  int bad = 0;
  for (auto& kv : base->runnable_rulesets_) {
    if (!kv.second) { std::cout << "instance for " << kv.first << " is null\n"; continue; }
    auto* clone = dynamic_cast<SystemdRestart<BaseSystemdPlugin>*>(kv.second->action_group_.at(0).get());
    if (!clone) { std::cout << "unexpected action type\n"; return 2; }
    std::cout << "instance " << kv.first << ": service='" << clone->service_ << "' dry=" << clone->dry_ << "\n";
    if (clone->service_ != "demo.service" || !clone->dry_) {
      std::cout << "VIOLATION: the per-cgroup instance runs a systemd_restart whose init() was REJECTED (unknown arg cgroup): configured service=demo.service dry=true\n";
      bad++;
    }
  }
  return bad ? 1 : 0;
}
