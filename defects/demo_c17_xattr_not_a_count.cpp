// Defect (C17): the kill accounting reads the pre-existing oomd_ooms / oomd_kill xattrs with an unguarded std::stoi.
// A value that is not an int - "abc", or the integer 4294967296 - makes stoi throw std::invalid_argument /
// std::out_of_range out of reportKillInitiationToXattr / reportKillCompletionToXattr.  Nothing between the kill plugin
// and the main loop catches it: the daemon terminates in the middle of a kill (after SIGKILLs were sent, before the
// oomd.kills statistic and the kmsg record).  user.oomd_ooms / user.oomd_kill are writable by the cgroup's owner.
#include <iostream>
#include <map>
#include <string>
#include "oomd/plugins/BaseKillPlugin.h"
namespace Oomd {
class Probe : public BaseKillPlugin {
 public:
  std::map<std::string, std::string> xa;
  std::vector<OomdContext::ConstCgroupContextRef> rankForKilling(OomdContext&, const std::vector<OomdContext::ConstCgroupContextRef>& v) override { return v; }
  void ologKillTarget(OomdContext&, const CgroupContext&, const std::vector<OomdContext::ConstCgroupContextRef>&) override {}
  std::string getxattr(const std::string& path, const std::string& attr) override { return xa[attr]; }
  bool setxattr(const std::string& path, const std::string& attr, const std::string& val) override { xa[attr] = val; return true; }
  void start(const std::string& p) { reportKillInitiationToXattr(p); }
  void done(const std::string& p, int n) { reportKillCompletionToXattr(p, n); }
};
}
static int run(const char* what, const std::string& ooms, const std::string& kill) {
  Oomd::Probe p;
  p.xa["user.oomd_ooms"] = ooms;
  p.xa["user.oomd_kill"] = kill;
  try {
    p.start("/sys/fs/cgroup/victim");
    p.done("/sys/fs/cgroup/victim", 3);
  } catch (const std::exception& e) {
    std::cout << "VIOLATION: " << what << ": exception escaped the kill accounting (would terminate the daemon mid-kill): " << e.what() << "\n";
    return 1;
  }
  std::cout << what << ": user.oomd_ooms=" << p.xa["user.oomd_ooms"] << " user.oomd_kill=" << p.xa["user.oomd_kill"]
            << " trusted.oomd_ooms=" << p.xa["trusted.oomd_ooms"] << " trusted.oomd_kill=" << p.xa["trusted.oomd_kill"] << "\n";
  if (p.xa["trusted.oomd_ooms"] != "1" || p.xa["trusted.oomd_kill"] != "3") { std::cout << "VIOLATION: trusted counters wrong\n"; return 1; }
  return 0;
}
int main() {
  int bad = 0;
  bad += run("pre-existing counts 5 / 7", "5", "7");                       // control: 6 / 10
  bad += run("user.oomd_ooms is not a number", "abc", "7");
  bad += run("user.oomd_kill is an integer beyond int", "5", "4294967296");
  return bad ? 1 : 0;
}
