// Demonstrates two defects of Ruleset (ruleset-level `cgroup`) on the real code:
//  (1) per-cgroup instances receive prerun() only on the tick they are created, not on every tick;
//  (2) discarding an instance erases the map element and then increments the erased iterator
//      (use-after-free: run under valgrind, or observe the crash).
// usage: demo <mode>   mode = prerun | discard
#include <filesystem>
#include <fstream>
#include <iostream>
#include <map>
#include "oomd/PluginRegistry.h"
#include "oomd/config/ConfigCompiler.h"
#include "oomd/config/ConfigTypes.h"
#include "oomd/engine/BasePlugin.h"
#include "oomd/engine/Engine.h"
using namespace Oomd;
static int g_preruns = 0, g_runs = 0;
namespace Oomd {
class DemoProbe : public Engine::BasePlugin {
 public:
  int init(const Engine::PluginArgs&, const PluginConstructionContext&) override { return 0; }
  void prerun(OomdContext&) override { ++g_preruns; }
  Engine::PluginRet run(OomdContext&) override { ++g_runs; return Engine::PluginRet::STOP; }
  static DemoProbe* create() { return new DemoProbe(); }
};
REGISTER_PLUGIN(DemoProbe, DemoProbe::create);
} // namespace Oomd
int main(int argc, char** argv) {
  std::string mode = argc > 1 ? argv[1] : "prerun";
  namespace fs = std::filesystem;
  auto root = fs::temp_directory_path() / ("oomd_demo_c11_" + std::to_string(getpid()));
  fs::create_directories(root / "a");
  fs::create_directories(root / "b");
  Config2::IR::Root ir;
  Config2::IR::Detector det; det.name = "DemoProbe";
  Config2::IR::Action act; act.name = "DemoProbe";
  Config2::IR::DetectorGroup dg{"g", {det}};
  Config2::IR::Ruleset rs;
  rs.name = "r"; rs.dgs = {dg}; rs.acts = {act}; rs.cgroup = "*";
  ir.rulesets.push_back(rs);
  auto engine = Config2::compile(ir, PluginConstructionContext(root.string()));
  if (!engine) { std::cerr << "compile failed\n"; return 2; }
  OomdContext ctx;
  int rc = 0;
  // tick 1: instances for a and b are created
  engine->prerun(ctx); engine->runOnce(ctx);
  int after1 = g_preruns;
  // tick 2: every live instance must get prerun again (its detector keeps its sliding state in prerun)
  engine->prerun(ctx); engine->runOnce(ctx);
  int tick2 = g_preruns - after1;
  std::cout << "preruns reaching plugins on tick 2: " << tick2 << " (template has 2 plugins, each of the 2 instances has 2)\n";
  if (mode == "prerun") {
    // the 2 instances x (1 detector + 1 action) must have been prerun on tick 2
    if (tick2 < 4) { std::cout << "VIOLATION: per-cgroup instances did not receive prerun on tick 2\n"; rc = 1; }
  } else {
    fs::remove_all(root / "b");     // cgroup b disappears: its instance must be discarded without error
    engine->prerun(ctx); engine->runOnce(ctx);
    engine->prerun(ctx); engine->runOnce(ctx);
    std::cout << "survived discarding an instance\n";
  }
  fs::remove_all(root);
  return rc;
}
