// Defect (C10): Oomd::updateContext reads vmstat.at("pswpout") on every tick after the first.  On a kernel whose
// /proc/vmstat has no pswpout line (built without swap) std::out_of_range leaves updateContext; nothing up to
// main() catches it, so the daemon terminates on its second tick.
// Run inside a mount namespace that hides the key:
//   grep -v '^pswp' /proc/vmstat > vmstat_noswap
//   unshare -m sh -c 'mount --bind vmstat_noswap /proc/vmstat && ./demo'
#include <iostream>
#include "oomd/Oomd.h"
#include "oomd/config/ConfigTypes.h"
#include "oomd/engine/Engine.h"
using namespace Oomd;
int main() {
  auto ir = std::make_unique<Config2::IR::Root>();
  std::unique_ptr<Engine::Engine> engine;   // updateContext only stores a callback to it
  ::Oomd::Oomd oomd(std::move(ir), std::move(engine), 5, "/sys/fs/cgroup", "", {}, {});
  try {
    oomd.updateContext();      // tick 1
    oomd.updateContext();      // tick 2: compares with the previous tick's vmstat
    std::cout << "two ticks survived\n";
    return 0;
  } catch (const std::exception& e) {
    std::cout << "VIOLATION: exception escapes the tick: " << e.what() << "\n";
    return 1;
  }
}
