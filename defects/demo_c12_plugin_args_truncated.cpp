// Defect (C12, C04): JsonConfigParser's parsePlugin() stops at the first argument whose JSON value is not a string,
// number or bool (array, object, null) with `return ret;` - it hands back the plugin WITH THE ARGUMENTS COLLECTED SO FAR
// (members come in key order) instead of rejecting it.  The configuration is accepted, and that argument plus every
// argument after it is silently dropped: here `dry` (given, in the wrong JSON type) and `recursive` vanish, so a kill
// action the operator marked dry is instantiated wet.
#include <iostream>
#include "oomd/PluginConstructionContext.h"
#include "oomd/config/ConfigCompiler.h"
#include "oomd/config/JsonConfigParser.h"
#include "oomd/engine/Engine.h"
using namespace Oomd;
int main() {
  const std::string cfg = R"({"rulesets":[{"name":"r",
    "detectors":[["dg",{"name":"exists","args":{"cgroup":"job1"}}]],
    "actions":[{"name":"kill_by_memory_size_or_growth","args":{"cgroup":"job1","dry":["true"],"recursive":"true"}}]}]})";
  Config2::JsonConfigParser parser;
  std::unique_ptr<Config2::IR::Root> ir;
  try { ir = parser.parse(cfg); } catch (const std::exception& e) { std::cout << "rejected by the parser: " << e.what() << "\n"; return 0; }
  if (!ir) { std::cout << "rejected by the parser\n"; return 0; }
  const auto& act = ir->rulesets.at(0).acts.at(0);
  std::cout << "parsed action '" << act.name << "' with " << act.args.size() << " of 3 arguments:";
  for (auto& kv : act.args) std::cout << " " << kv.first << "=" << kv.second;
  std::cout << "\n";
  PluginConstructionContext cctx("/sys/fs/cgroup");
  auto engine = Config2::compile(*ir, cctx);
  if (!engine) { std::cout << "rejected by the compiler\n"; return 0; }
  std::cout << "VIOLATION: the configuration was ACCEPTED although argument `dry` has no valid reading; it was compiled with "
            << act.args.size() << " of the 3 given arguments (dry and recursive dropped: the action is wet)\n";
  return 1;
}
