// Defect: BaseKillPlugin::tryToKillPids passes every number from cgroup.procs to kill(2) unchecked.
// A "0" line (a process outside oomd's pid namespace) becomes kill(0, SIGKILL): oomd's own process group.
#include <signal.h>
#include <iostream>
#include <vector>
#include "oomd/plugins/BaseKillPlugin.h"
static std::vector<pid_t> g_killed;
extern "C" int kill(pid_t pid, int sig) { g_killed.push_back(pid); return 0; }   // interposed: record instead of signalling
namespace Oomd {
class Probe : public BaseKillPlugin {
 public:
  std::vector<OomdContext::ConstCgroupContextRef> rankForKilling(OomdContext&, const std::vector<OomdContext::ConstCgroupContextRef>& v) override { return v; }
  void ologKillTarget(OomdContext&, const CgroupContext&, const std::vector<OomdContext::ConstCgroupContextRef>&) override {}
  int go(const std::vector<int>& p) { return tryToKillPids(p); }
};
}
int main() {
  Oomd::Probe p;
  p.go({1234, 0, -1});
  bool bad = false;
  for (auto pid : g_killed) { std::cout << "kill(" << pid << ", SIGKILL)\n"; if (pid <= 0) bad = true; }
  if (bad) { std::cout << "VIOLATION: kill(2) called with a non-positive pid\n"; return 1; }
  return 0;
}
