// Defect (C12): Main.cpp's parseConfig() calls JsonConfigParser::parse() without a handler.  parse() throws
// std::runtime_error for malformed JSON text and jsoncpp's Json::LogicError for a value of the wrong JSON type, so
// `oomd --check-config <file>` (and daemon start-up) with such a file dies in std::terminate (SIGABRT, core dump)
// instead of rejecting the configuration with an error result.  The demo runs the real binary.
#ifndef DEMO_TMP
#define DEMO_TMP "/tmp/oomd_demo"   /* scratch directory; replay/replay.py passes -DDEMO_TMP=... */
#endif
#ifndef OOMD_BIN
#define OOMD_BIN "/repo/_build/oomd"
#endif
#include <sys/wait.h>
#include <unistd.h>
#include <fcntl.h>
#include <fstream>
#include <iostream>
#include <string>
#include <vector>
int main() {
  const std::vector<std::pair<std::string, std::string>> bad = {
      {"truncated.json", "{"},
      {"ruleset_not_object.json", "{\"rulesets\":[5]}"},
      {"name_not_string.json", "{\"rulesets\":[{\"name\":[\"x\"]}]}"}};
  int violations = 0;
  for (const auto& [name, text] : bad) {
    const std::string path = std::string(DEMO_TMP) + "/" + name;
    std::ofstream(path) << text;
    pid_t pid = fork();
    if (pid == 0) {
      int devnull = open("/dev/null", O_WRONLY);
      dup2(devnull, 1); dup2(devnull, 2);
      execl(OOMD_BIN, OOMD_BIN, "--check-config", path.c_str(), (char*)nullptr);
      _exit(127);
    }
    int st = 0;
    waitpid(pid, &st, 0);
    if (WIFSIGNALED(st)) {
      std::cout << "VIOLATION: oomd --check-config " << name << " was killed by signal " << WTERMSIG(st)
                << " (uncaught exception) instead of rejecting the file\n";
      violations++;
    } else {
      std::cout << name << ": rejected with exit status " << WEXITSTATUS(st) << "\n";
      if (WEXITSTATUS(st) == 0 || WEXITSTATUS(st) == 127) { std::cout << "unexpected status\n"; return 2; }
    }
  }
  return violations ? 1 : 0;
}
