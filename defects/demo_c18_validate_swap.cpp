// Defect: Senpai::validateSwap returns `util >= swap_threshold_`, i.e. with swap validation on, Senpai reclaims
// only while swap utilisation is AT OR ABOVE the threshold and refuses while it is below - the opposite of the
// documented guard ("validate that the effective swap usage is below the defined threshold").
#include <iostream>
#include "oomd/OomdContext.h"
#include "oomd/plugins/Senpai.h"
#include "oomd/util/TestHelper.h"
#include "oomd/util/Fixture.h"
using namespace Oomd;
int main() {
  // build a cgroup dir with swap max 1000, swap current = usage
  auto run = [](int64_t swap_current) {
    using F = Fixture;
    auto tmp = F::mkdtempChecked();
    auto cg = F::makeDir("cg", {F::makeFile("memory.swap.current", std::to_string(swap_current) + "\n"), F::makeFile("memory.swap.max", "1000\n")});
    cg.second.materialize(tmp, cg.first);
    OomdContext ctx;
    SystemContext sys; sys.swaptotal = 1000; sys.swapused = 0; sys.swappiness = 60;
    ctx.setSystemContext(sys);
    auto c = ctx.addToCacheAndGet(CgroupPath(tmp, "cg"));
    Senpai s;
    s.swap_threshold_ = 0.8;
    auto r = s.validateSwap(c->get());
    bool ok = r && *r;
    F::rmrChecked(tmp);
    return ok;
  };
  bool low = run(100);    // 10% utilisation: below the 80% threshold -> reclaim must be allowed
  bool high = run(900);   // 90% utilisation: above the threshold -> reclaim must be refused
  std::cout << "allowed at 10%: " << low << ", allowed at 90%: " << high << "\n";
  if (!low || high) { std::cout << "VIOLATION: swap guard inverted\n"; return 1; }
  return 0;
}
