// Defect (C04): systemd_restart with dry=true issues no D-Bus call but still increments the oomd.restarts counter.
#ifndef DEMO_TMP
#define DEMO_TMP "/tmp/oomd_demo"   /* scratch directory; replay/replay.py passes -DDEMO_TMP=... */
#endif
#include <iostream>
#include "oomd/OomdContext.h"
#include "oomd/PluginConstructionContext.h"
#include "oomd/Stats.h"
#include "oomd/plugins/systemd/SystemdRestart.h"
using namespace Oomd;
int main() {
  auto stats = Stats::get_for_unittest(DEMO_TMP "/stats.sock");    // not the singleton...
  (void)stats;
  if (!Stats::init(DEMO_TMP "/stats_singleton.sock")) { std::cout << "cannot init stats\n"; return 2; }
  SystemdRestart<> plugin;
  Engine::PluginArgs args;
  args["service"] = "some.service"; args["dry"] = "true"; args["post_action_delay"] = "0";
  PluginConstructionContext cctx("/sys/fs/cgroup");
  if (plugin.init(std::move(args), cctx) != 0) { std::cout << "init failed\n"; return 2; }
  auto before = Oomd::getStats();
  OomdContext ctx;
  auto ret = plugin.run(ctx);
  auto after = Oomd::getStats();
  int b = before.count("oomd.restarts") ? before["oomd.restarts"] : 0, a = after.count("oomd.restarts") ? after["oomd.restarts"] : 0;
  std::cout << "dry run returned " << (ret == Engine::PluginRet::STOP ? "STOP" : "other") << "; oomd.restarts " << b << " -> " << a << "\n";
  if (a != b) { std::cout << "VIOLATION: a dry run increased the restart counter\n"; return 1; }
  return 0;
}
