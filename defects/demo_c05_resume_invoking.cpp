// Defect: Ruleset::runOnceImpl resumes a suspended action chain without setInvokingRuleset(this) when no
// detector group fires on the resume tick, so a kill plugin's own post_action_delay is silently ignored.
#include <iostream>
#include "oomd/PluginRegistry.h"
#include "oomd/config/ConfigCompiler.h"
#include "oomd/config/ConfigTypes.h"
#include "oomd/engine/BasePlugin.h"
#include "oomd/engine/Engine.h"
using namespace Oomd;
static int g_tick = 0; static bool g_seen_on_resume = false, g_resumed = false;
namespace Oomd {
class DemoDet : public Engine::BasePlugin {
 public:
  int init(const Engine::PluginArgs&, const PluginConstructionContext&) override { return 0; }
  Engine::PluginRet run(OomdContext&) override { return g_tick == 1 ? Engine::PluginRet::CONTINUE : Engine::PluginRet::STOP; }
  static DemoDet* create() { return new DemoDet(); }
};
class DemoAct : public Engine::BasePlugin {
 public:
  int init(const Engine::PluginArgs&, const PluginConstructionContext&) override { return 0; }
  Engine::PluginRet run(OomdContext& ctx) override {
    if (g_tick == 1) return Engine::PluginRet::ASYNC_PAUSED;      // e.g. waiting for a prekill hook
    g_resumed = true;
    g_seen_on_resume = ctx.getInvokingRuleset().has_value();      // what BaseKillPlugin::run needs for its own delay
    return Engine::PluginRet::STOP;
  }
  static DemoAct* create() { return new DemoAct(); }
};
REGISTER_PLUGIN(DemoDet, DemoDet::create);
REGISTER_PLUGIN(DemoAct, DemoAct::create);
} // namespace Oomd
int main() {
  Config2::IR::Root ir;
  Config2::IR::Detector det; det.name = "DemoDet";
  Config2::IR::Action act; act.name = "DemoAct";
  Config2::IR::Ruleset rs; rs.name = "r"; rs.dgs = {Config2::IR::DetectorGroup{"g", {det}}}; rs.acts = {act};
  ir.rulesets.push_back(rs);
  auto engine = Config2::compile(ir, PluginConstructionContext("/sys/fs/cgroup"));
  if (!engine) return 2;
  OomdContext ctx;
  for (g_tick = 1; g_tick <= 2; ++g_tick) { engine->prerun(ctx); engine->runOnce(ctx); }
  std::cout << "resumed=" << g_resumed << " invoking ruleset visible on resume=" << g_seen_on_resume << "\n";
  if (!g_resumed) return 2;
  if (!g_seen_on_resume) { std::cout << "VIOLATION: resumed action cannot reach its ruleset (own post_action_delay lost)\n"; return 1; }
  return 0;
}
