// Defect (C15/C10): on a file system that does not fill dirent::d_type (DT_UNKNOWN: XFS without ftype, some network
// and FUSE file systems) Fs::readDirFromDIR falls back to lstat and then (a) pushes DIRECTORIES into `files` instead
// of `dirs`, and (b) tests `st_mode & S_IFREG`, which is also true for symlinks (S_IFLNK = S_IFREG|S_IFCHR).
// oomd then sees no child cgroups at all.  The demo interposes readdir() to blank d_type, as such a file system would.
#ifndef DEMO_TMP
#define DEMO_TMP "/tmp/oomd_demo"   /* scratch directory; replay/replay.py passes -DDEMO_TMP=... */
#endif
#include <dirent.h>
#include <dlfcn.h>
#include <sys/stat.h>
#include <unistd.h>
#include <algorithm>
#include <fstream>
#include <iostream>
#include "oomd/util/Fs.h"
static bool g_blank = false;
extern "C" struct dirent* readdir(DIR* d) {
  using fn = struct dirent* (*)(DIR*);
  static fn real = (fn)dlsym(RTLD_NEXT, "readdir");
  struct dirent* e = real(d);
  if (e && g_blank) e->d_type = DT_UNKNOWN;
  return e;
}
extern "C" struct dirent64* readdir64(DIR* d) {
  using fn = struct dirent64* (*)(DIR*);
  static fn real = (fn)dlsym(RTLD_NEXT, "readdir64");
  struct dirent64* e = real(d);
  if (e && g_blank) e->d_type = DT_UNKNOWN;
  return e;
}
using namespace Oomd;
static void show(const char* what, const Fs::DirEnts& de) {
  auto dirs = de.dirs, files = de.files; std::sort(dirs.begin(), dirs.end()); std::sort(files.begin(), files.end());
  std::cout << what << ": dirs={"; for (auto& s : dirs) std::cout << s << " "; std::cout << "} files={"; for (auto& s : files) std::cout << s << " "; std::cout << "}\n";
}
int main() {
  const std::string root = DEMO_TMP "/tree";
  ::mkdir(root.c_str(), 0755); ::mkdir((root + "/child.slice").c_str(), 0755);
  { std::ofstream(root + "/memory.current") << "1\n"; }
  ::unlink((root + "/alink").c_str()); if (::symlink("memory.current", (root + "/alink").c_str())) {}
  auto with = Fs::readDir(root, Fs::DE_FILE | Fs::DE_DIR);
  g_blank = true;
  auto without = Fs::readDir(root, Fs::DE_FILE | Fs::DE_DIR);
  if (!with || !without) { std::cout << "readDir failed\n"; return 2; }
  show("with d_type   ", *with); show("without d_type", *without);
  auto norm = [](Fs::DirEnts de) { std::sort(de.dirs.begin(), de.dirs.end()); std::sort(de.files.begin(), de.files.end()); return de; };
  auto a = norm(*with), b = norm(*without);
  if (a.dirs != b.dirs || a.files != b.files) { std::cout << "VIOLATION: the listing depends on d_type support\n"; return 1; }
  return 0;
}
