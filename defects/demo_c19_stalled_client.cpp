// Defect: Stats::processMsg returns early when read() fails (e.g. a client that connects and stalls past
// SO_RCVTIMEO) WITHOUT decrementing thread_count_; ~Stats then waits 5 s for the count to reach 0 and aborts
// the daemon through OCHECK(false).  Expected: shutting the service down always completes.
#include <sys/socket.h>
#include <sys/un.h>
#include <sys/wait.h>
#include <unistd.h>
#include <cstring>
#include <iostream>
#include "oomd/Stats.h"
int main() {
  std::string path = "/tmp/oomd_demo_c19_" + std::to_string(getpid()) + ".sock";
  pid_t child = fork();
  if (child == 0) {
    {
      auto stats = Oomd::Stats::get_for_unittest(path);
      if (!stats) _exit(3);
      int fd = ::socket(AF_UNIX, SOCK_STREAM, 0);
      sockaddr_un a{}; a.sun_family = AF_UNIX; std::strcpy(a.sun_path, path.c_str());
      if (::connect(fd, (sockaddr*)&a, sizeof(a)) < 0) _exit(4);
      ::sleep(3);          // stall: the server's 2 s receive timeout fires, read() returns -1
      ::close(fd);
    }                      // ~Stats
    _exit(0);
  }
  int st = 0; waitpid(child, &st, 0);
  if (WIFSIGNALED(st)) { std::cout << "VIOLATION: shutting down the stats service aborted the process (signal " << WTERMSIG(st) << ")\n"; return 1; }
  std::cout << "shutdown completed, exit status " << WEXITSTATUS(st) << "\n";
  return WEXITSTATUS(st) == 0 ? 0 : 2;
}
