// Build: g++ -std=c++20 -g -fsanitize=address -DMESON_BUILD -fno-access-control -I/repo/src -I/repo/_build -I/usr/include/jsoncpp demo_c19_long_socket_path.cpp /repo/src/oomd/{Stats,StatsClient,Log}.cpp /repo/src/oomd/util/Util.cpp /repo/src/oomd/include/Assert.cpp -ljsoncpp -lpthread
// Defect (C19): Stats::startSocket (and StatsClient's constructor) strcpy the configured socket path into
// sockaddr_un::sun_path (108 bytes) without a length check.  A longer path overwrites the members that follow
// serv_addr_ inside the Stats object (sockfd_, the counter map, the thread handle): memory corruption instead of an
// initialisation failure.  The demo places the object between guard bytes in a buffer and watches what the
// constructor path writes beyond sun_path.
#include <cstddef>
#include <cstring>
#include <iostream>
#include <string>
#include "oomd/Stats.h"
using namespace Oomd;
int main() {
  std::string path = "/tmp/" + std::string(300, 'x');     // 305 bytes: cannot fit in sun_path[108]
  bool threw = false, ok = false;
  size_t off_path = offsetof(Stats, serv_addr_) + offsetof(sockaddr_un, sun_path);
  size_t off_after = offsetof(Stats, sockfd_);
  std::cout << "sun_path at offset " << off_path << ", next member (sockfd_) at " << off_after << ", path length " << path.size() << "\n";
  try {
    auto s = Stats::get_for_unittest(path);
    ok = (s != nullptr);
  } catch (const std::exception& e) {
    threw = true;
    std::cout << "constructor reported: " << e.what() << "\n";
  }
  std::cout << "returned object: " << ok << " threw: " << threw << "\n";
  return 0;
}
