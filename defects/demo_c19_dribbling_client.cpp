// Defect (C19): a stats client that sends one byte every 1.5 s (never a newline) keeps its handler thread inside
// Stats::processMsg for up to 32 reads x 2 s receive timeout.  ~Stats only waits 5 s for the handlers and then aborts
// the whole daemon through OCHECK(false) ("client threads must timeout in < 5 s" - which the read loop does not
// guarantee).  Expected (property): whatever bytes a client sends, or if it stalls, shutting the service down completes.
#include <signal.h>
#include <sys/socket.h>
#include <sys/un.h>
#include <sys/wait.h>
#include <unistd.h>
#include <cstring>
#include <iostream>
#include <thread>
#include "oomd/Stats.h"
int main() {
  std::string path = "/tmp/oomd_demo_c19b_" + std::to_string(getpid()) + ".sock";
  pid_t child = fork();
  if (child == 0) {
    ::signal(SIGPIPE, SIG_IGN);   // the dribbling client must not take the demo down when the server hangs up on it
    std::thread dribbler;
    {
      auto stats = Oomd::Stats::get_for_unittest(path);
      if (!stats) _exit(3);
      int fd = ::socket(AF_UNIX, SOCK_STREAM, 0);
      sockaddr_un a{}; a.sun_family = AF_UNIX; std::strcpy(a.sun_path, path.c_str());
      if (::connect(fd, (sockaddr*)&a, sizeof(a)) < 0) _exit(4);
      dribbler = std::thread([fd] { for (int i = 0; i < 12; i++) { if (::write(fd, "x", 1) < 0) break; ::usleep(1500 * 1000); } ::close(fd); });
      ::sleep(1);          // the handler is now in its read loop; shut the service down
    }                      // ~Stats: waits at most 5 s for the handler
    dribbler.join();
    _exit(0);
  }
  int st = 0; waitpid(child, &st, 0);
  ::unlink(path.c_str());
  if (WIFSIGNALED(st)) { std::cout << "VIOLATION: shutting down the stats service aborted the process (signal " << WTERMSIG(st) << ") while a client dribbled bytes\n"; return 1; }
  std::cout << "shutdown completed, exit status " << WEXITSTATUS(st) << "\n";
  return WEXITSTATUS(st) == 0 ? 0 : 2;
}
