// Defect (C20): Log::debugLog adds buf.size() to curSize AFTER buf was moved into the queue, i.e. adds 0.
// The 1 MiB backlog cap is therefore never reached: with a sink that is blocked, every line is accepted and
// memory grows without bound; nothing is ever counted as dropped.
#include <atomic>
#include <chrono>
#include <condition_variable>
#include <iostream>
#include <mutex>
#include <streambuf>
#include <thread>
#include "oomd/Log.h"
using namespace Oomd;
struct BlockingBuf : std::streambuf {
  std::mutex m; std::condition_variable cv; bool open = false; std::string got;
  std::streamsize xsputn(const char* s, std::streamsize n) override {
    std::unique_lock<std::mutex> l(m); cv.wait(l, [&] { return open; }); got.append(s, n); return n; }
  int overflow(int c) override { char ch = (char)c; xsputn(&ch, 1); return c; }
  void release() { { std::lock_guard<std::mutex> l(m); open = true; } cv.notify_all(); }
};
int main() {
  BlockingBuf buf; std::ostream sink(&buf);
  const size_t kLine = 1024, kLines = 5 * 1024;   // 5 MiB of log lines against a 1 MiB cap
  {
    auto log = Log::get_for_unittest(-1, sink, /*inl=*/false);
    // one line to get the flusher stuck in the sink, then give it time to take the queue
    log->debugLog(std::string(kLine, 'a') );
    std::this_thread::sleep_for(std::chrono::milliseconds(200));
    for (size_t i = 0; i < kLines; i++) log->debugLog(std::string(kLine - 1, 'x') + "\n");
    std::this_thread::sleep_for(std::chrono::milliseconds(100));
    buf.release();
  }   // ~Log joins the flusher: everything still queued is written now
  size_t dropped_report = buf.got.find("messages dropped") != std::string::npos;
  std::cout << "bytes that were queued behind the blocked sink and later written: " << buf.got.size() << ", drop report present: " << dropped_report << "\n";
  // cap: at most 1 MiB may sit in the queue being filled (+ the one line the flusher already took)
  if (buf.got.size() > (1u << 20) + 2 * kLine + 64) { std::cout << "VIOLATION: backlog exceeded the 1 MiB cap and no line was dropped\n"; return 1; }
  return 0;
}
