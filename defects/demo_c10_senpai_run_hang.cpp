// Defect (C10/C18): in Senpai::run a resolved cgroup whose id is unavailable this tick (fstat of its directory fd
// failed) hits `if (!id_opt) continue;` WITHOUT advancing the iterator: the loop spins forever and the daemon's main
// loop never returns.  The demo fails fstat() (EIO) for directory fds, as a failing/stale file system would.
#ifndef DEMO_TMP
#define DEMO_TMP "/tmp/oomd_demo"   /* scratch directory; replay/replay.py passes -DDEMO_TMP=... */
#endif
#include <dlfcn.h>
#include <signal.h>
#include <sys/stat.h>
#include <unistd.h>
#include <cerrno>
#include <fstream>
#include <iostream>
#include "oomd/OomdContext.h"
#include "oomd/PluginConstructionContext.h"
#include "oomd/plugins/Senpai.h"
static bool g_fail = false;
extern "C" int fstat(int fd, struct stat* st) {
  using fn = int (*)(int, struct stat*);
  static fn real = (fn)dlsym(RTLD_NEXT, "fstat");
  int rc = real(fd, st);
  if (rc == 0 && g_fail && S_ISDIR(st->st_mode)) { errno = EIO; return -1; }
  return rc;
}
extern "C" int fstat64(int fd, struct stat64* st) {
  using fn = int (*)(int, struct stat64*);
  static fn real = (fn)dlsym(RTLD_NEXT, "fstat64");
  int rc = real(fd, st);
  if (rc == 0 && g_fail && S_ISDIR(st->st_mode)) { errno = EIO; return -1; }
  return rc;
}
static void on_alarm(int) { const char m[] = "VIOLATION: Senpai::run did not return within 3 s (infinite loop on a cgroup without id)\n"; if (write(1, m, sizeof(m) - 1)) {} _exit(1); }
using namespace Oomd;
int main() {
  const std::string root = DEMO_TMP "/cgroupfs";
  ::mkdir(root.c_str(), 0755); ::mkdir((root + "/a.slice").c_str(), 0755);
  for (auto f : {"cgroup.controllers", "memory.current", "memory.high", "memory.max", "memory.min", "memory.stat", "memory.pressure"})
    std::ofstream(root + "/a.slice/" + f) << (std::string(f) == "memory.pressure" ? "some avg10=0.00 avg60=0.00 avg300=0.00 total=0\nfull avg10=0.00 avg60=0.00 avg300=0.00 total=0\n" : "0\n");
  Senpai plugin;
  Engine::PluginArgs args; args["cgroup"] = "a.slice";
  PluginConstructionContext cctx(root);
  if (plugin.init(std::move(args), cctx) != 0) { std::cout << "init failed\n"; return 2; }
  OomdContext ctx;
  signal(SIGALRM, on_alarm);
  g_fail = true;          // from now on the cgroup's id cannot be read
  alarm(3);
  plugin.run(ctx);
  alarm(0);
  std::cout << "Senpai::run returned\n";
  return 0;
}
