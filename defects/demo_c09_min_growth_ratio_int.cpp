// Defect (C09): KillMemoryGrowth::init parses the fractional `min_growth_ratio` with parseUnsignedInt (std::stoi),
// so the documented default-style value "1.25" (or "1.9") is silently truncated to 1.
#include <iostream>
#include "oomd/PluginConstructionContext.h"
#include "oomd/plugins/KillMemoryGrowth.h"
using namespace Oomd;
int main() {
  KillMemoryGrowth<> plugin;
  Engine::PluginArgs args;
  args["cgroup"] = "workload.slice";
  args["min_growth_ratio"] = "1.9";
  PluginConstructionContext ctx("/sys/fs/cgroup");
  int rc = plugin.init(std::move(args), ctx);
  std::cout << "init rc=" << rc << " min_growth_ratio_=" << plugin.min_growth_ratio_ << " (want 1.9)\n";
  if (rc != 0 || plugin.min_growth_ratio_ != 1.9f) { std::cout << "VIOLATION: ratio does not act at the configured value\n"; return 1; }
  return 0;
}
