// Defect (C10): CgroupContext::getPgScanCumulative throws std::runtime_error when memory.stat has no `pgscan`
// key.  kill_by_pg_scan calls pg_scan_rate() from prerun on every tick; nothing up to main() catches, so a cgroup
// whose memory.stat lacks the key terminates the daemon instead of being reported as unavailable.
#ifndef DEMO_TMP
#define DEMO_TMP "/tmp/oomd_demo"   /* scratch directory; replay/replay.py passes -DDEMO_TMP=... */
#endif
#include <sys/stat.h>
#include <fstream>
#include <iostream>
#include "oomd/CgroupContext.h"
#include "oomd/OomdContext.h"
using namespace Oomd;
int main() {
  const std::string root = DEMO_TMP "/cgroupfs";
  ::mkdir(root.c_str(), 0755); ::mkdir((root + "/a.slice").c_str(), 0755);
  { std::ofstream(root + "/a.slice/memory.stat") << "anon 4096\nfile 8192\n"; }     // no pgscan line
  { std::ofstream(root + "/a.slice/cgroup.controllers") << "memory\n"; }
  OomdContext ctx;
  auto cg = ctx.addToCacheAndGet(CgroupPath(root, "a.slice"));
  if (!cg) { std::cout << "cannot open test cgroup\n"; return 2; }
  try {
    auto v = cg->get().pg_scan_cumulative();
    std::cout << "pg_scan_cumulative is " << (v ? "a value" : "unavailable (nullopt)") << "\n";
    return v ? 1 : 0;
  } catch (const std::exception& e) {
    std::cout << "VIOLATION: exception instead of 'unavailable': " << e.what() << "\n";
    return 1;
  }
}
