// Defect (C12): Util::parseSize accumulates `uint64_t size += v` with v a double straight from std::stold.  Numbers that
// are not sizes - "nan", "inf", "1e30", or totals of 8 EiB and more - are not rejected: the float->integer conversion is
// undefined behaviour and the config is accepted with a garbage (often negative or zero) byte count.
#include <cstdint>
#include <iostream>
#include "oomd/util/Util.h"
int main() {
  int bad = 0;
  for (const char* in : {"nan", "inf", "1e30", "9000000t", "16e18"}) {
    int64_t out = 12345;
    int rc = Oomd::Util::parseSize(in, &out);
    std::cout << "parseSize(\"" << in << "\") rc=" << rc << " out=" << out << "\n";
    if (rc == 0) bad++;       // none of these is a representable, meaningful size: must be rejected
  }
  if (bad) { std::cout << "VIOLATION: " << bad << " non-sizes accepted\n"; return 1; }
  return 0;
}
