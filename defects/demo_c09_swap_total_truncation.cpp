// Defect (C09): KillSwapUsage::init keeps SwapTotal / MemTotal in `auto x = 0` (an int).  With SwapTotal >= 2 GiB
// the byte count is truncated, so a percentage threshold ("50%") and the protection bias (swapRatio_) are
// computed from a wrong total.  Here SwapTotal = 6 GiB, MemTotal = 12 GiB: 50% must be 3 GiB, ratio 0.5.
#ifndef DEMO_TMP
#define DEMO_TMP "/tmp/oomd_demo"   /* scratch directory; replay/replay.py passes -DDEMO_TMP=... */
#endif
#include <cstdio>
#include <fstream>
#include <iostream>
#include "oomd/PluginConstructionContext.h"
#include "oomd/plugins/KillSwapUsage.h"
using namespace Oomd;
int main() {
  const char* path = DEMO_TMP "/meminfo";
  { std::ofstream f(path); f << "MemTotal:       12582912 kB\nMemFree:         1000000 kB\nSwapTotal:       6291456 kB\nSwapFree:        6291456 kB\n"; }
  KillSwapUsage<> plugin;
  Engine::PluginArgs args;
  args["cgroup"] = "workload.slice";
  args["threshold"] = "50%";
  args["biased_swap_kill"] = "true";
  args["meminfo_location"] = path;
  PluginConstructionContext ctx("/sys/fs/cgroup");
  int rc = plugin.init(std::move(args), ctx);
  const int64_t want = 3LL << 30;
  std::cout << "init rc=" << rc << " threshold_=" << plugin.threshold_ << " (want " << want << ") swapRatio_=" << plugin.swapRatio_ << " (want 0.5)\n";
  if (rc != 0 || plugin.threshold_ != want || plugin.swapRatio_ != 0.5f) { std::cout << "VIOLATION: threshold/ratio do not act at the configured value\n"; return 1; }
  return 0;
}
