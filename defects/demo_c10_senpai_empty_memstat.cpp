// Defect (C10): Senpai::getReclaimableBytes THROWS std::runtime_error("Invalid memory.stat cgroup file") when the
// cgroup's memory.stat is readable but lacks active_file / inactive_file (e.g. the file is empty).  Nothing between
// Senpai::run and the daemon's main loop catches it, so one cgroup with an empty memory.stat terminates oomd.
// The anon keys two lines further down are handled as an error value (EINVAL); the file keys must be too.
#ifndef DEMO_TMP
#define DEMO_TMP "/tmp/oomd_demo"   /* scratch directory; replay/replay.py passes -DDEMO_TMP=... */
#endif
#include <sys/stat.h>
#include <fstream>
#include <iostream>
#include "oomd/OomdContext.h"
#include "oomd/PluginConstructionContext.h"
#include "oomd/plugins/Senpai.h"
using namespace Oomd;
int main() {
  const std::string root = DEMO_TMP "/cgroupfs";
  const std::string cg = root + "/a.slice/";
  ::mkdir(root.c_str(), 0755); ::mkdir((root + "/a.slice").c_str(), 0755);
  const char* psi = "some avg10=0.00 avg60=0.00 avg300=0.00 total=0\nfull avg10=0.00 avg60=0.00 avg300=0.00 total=0\n";
  std::ofstream(cg + "cgroup.controllers") << "memory io\n";
  std::ofstream(cg + "memory.current") << "104857600\n";
  std::ofstream(cg + "memory.high") << "max\n";
  std::ofstream(cg + "memory.max") << "max\n";
  std::ofstream(cg + "memory.min") << "0\n";
  std::ofstream(cg + "memory.pressure") << psi;
  std::ofstream(cg + "io.pressure") << psi;
  std::ofstream(cg + "memory.reclaim") << "";
  std::ofstream(cg + "memory.stat") << "";          // the fault: memory.stat exists and is EMPTY
  Senpai plugin;
  Engine::PluginArgs args;
  args["cgroup"] = "a.slice"; args["immediate_backoff"] = "true"; args["interval"] = "0";
  PluginConstructionContext cctx(root);
  if (plugin.init(std::move(args), cctx) != 0) { std::cout << "init failed\n"; return 2; }
  OomdContext ctx;
  try {
    for (int tick = 0; tick < 4; tick++) {
      ctx.refresh();
      plugin.run(ctx);
    }
  } catch (const std::exception& e) {
    std::cout << "VIOLATION: exception escaped Senpai::run (would terminate the daemon's main loop): " << e.what() << "\n";
    return 1;
  }
  std::cout << "4 ticks with an empty memory.stat: no exception\n";
  return 0;
}
