// Known finding (C20): "lines not yet written never exceed 1 MiB in total".  The cap is applied to the queue
// being filled only (curSize is reset when the flusher swaps queues), so while the flusher is stuck writing one
// full queue the other one fills up to the cap as well: about 2 MiB of unwritten lines are held.
#include <chrono>
#include <condition_variable>
#include <iostream>
#include <mutex>
#include <streambuf>
#include <thread>
#include "oomd/Log.h"
using namespace Oomd;
struct BudgetBuf : std::streambuf {      // lets `budget` bytes through, then blocks the writer
  std::mutex m; std::condition_variable cv; size_t budget = 0; size_t got = 0; bool open = false;
  std::streamsize xsputn(const char* s, std::streamsize n) override {
    std::unique_lock<std::mutex> l(m);
    cv.wait(l, [&] { return open || budget >= (size_t)n; });
    if (!open) budget -= n;
    got += n; return n; }
  int overflow(int c) override { char ch = (char)c; xsputn(&ch, 1); return c; }
  void give(size_t b) { { std::lock_guard<std::mutex> l(m); budget += b; } cv.notify_all(); }
  void release() { { std::lock_guard<std::mutex> l(m); open = true; } cv.notify_all(); }
};
static size_t unwritten(Log& log) {
  std::lock_guard<std::mutex> l(log.state_.lock);
  size_t n = 0;
  for (auto& q : log.state_.queues) for (auto& s : q) n += s.size();
  return n;
}
int main() {
  BudgetBuf buf; std::ostream sink(&buf);
  const std::string l0 = "first line\n";
  const size_t kLine = 1024, kLines = 1500;           // 1.5 MiB offered each time, cap is 1 MiB
  size_t peak = 0;
  {
    auto log = Log::get_for_unittest(-1, sink, /*inl=*/false);
    log->debugLog(std::string(l0));                                   // flusher takes {l0}, blocks in the sink
    std::this_thread::sleep_for(std::chrono::milliseconds(200));
    for (size_t i = 0; i < kLines; i++) log->debugLog(std::string(kLine - 1, 'b') + "\n");   // fills queue B to the cap
    buf.give(l0.size());                                              // l0 passes; flusher swaps, takes B, blocks on its first line
    std::this_thread::sleep_for(std::chrono::milliseconds(300));
    for (size_t i = 0; i < kLines; i++) log->debugLog(std::string(kLine - 1, 'a') + "\n");   // fills queue A to the cap as well
    peak = unwritten(*log);
    buf.release();
  }
  std::cout << "unwritten bytes held while the sink was blocked: " << peak << " (cap 1048576)\n";
  if (peak > (1u << 20)) { std::cout << "FINDING REPRODUCED: unwritten backlog exceeds the 1 MiB cap (bounded by 2 x cap)\n"; return 1; }
  return 0;
}
