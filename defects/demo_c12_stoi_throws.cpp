// Defect (C12): a ruleset whose post_action_delay / prekill_hook_timeout is not a number makes
// Config2::compileDropIn (and Config2::compile) throw std::invalid_argument out of std::stoi instead of rejecting the
// config.  Nothing between FsDropInService::handleDropInAdd and the inotify watcher thread catches it, so dropping a
// malformed file into the drop-in directory terminates the running daemon.
#include <iostream>
#include "oomd/PluginConstructionContext.h"
#include "oomd/config/ConfigCompiler.h"
#include "oomd/config/ConfigTypes.h"
using namespace Oomd;
static Config2::IR::Root makeRoot(const std::string& delay) {
  Config2::IR::Detector d; d.name = "exists"; d.args["cgroup"] = "workload.slice"; d.args["negate"] = "true";
  Config2::IR::DetectorGroup dg; dg.name = "dg"; dg.detectors.push_back(d);
  Config2::IR::Action a; a.name = "continue";
  Config2::IR::Ruleset rs; rs.name = "rs"; rs.dgs.push_back(dg); rs.acts.push_back(a); rs.post_action_delay = delay;
  Config2::IR::Root r; r.rulesets.push_back(rs); return r;
}
int main() {
  PluginConstructionContext ctx("/sys/fs/cgroup");
  auto base = makeRoot("10");
  auto dropin = makeRoot("ten");     // not a number
  try {
    auto unit = Config2::compileDropIn(base, dropin, ctx);
    std::cout << "compileDropIn returned " << (unit.has_value() ? "a unit" : "nullopt (rejected cleanly)") << "\n";
    return unit.has_value() ? 1 : 0;
  } catch (const std::exception& e) {
    std::cout << "VIOLATION: compileDropIn threw " << e.what() << " (uncaught on the drop-in watcher thread => std::terminate)\n";
    return 1;
  }
}
