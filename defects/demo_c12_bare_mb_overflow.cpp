// Defect: Util::parseSizeOrPercent turns a bare number of megabytes into bytes with `v << 20` without a range
// check: "9000000000000" (9e12 MB) wraps to a small/negative byte count instead of being rejected.
#include <iostream>
#include "oomd/util/Util.h"
int main() {
  int64_t v = 0;
  int rc = Oomd::Util::parseSizeOrPercent("9000000000000", &v, 100);
  std::cout << "rc=" << rc << " v=" << v << "\n";
  // exact value 9e12 * 2^20 does not fit in int64: must be rejected, never silently wrapped
  if (rc == 0) { std::cout << "VIOLATION: overflowing size accepted as " << v << " bytes\n"; return 1; }
  return 0;
}
