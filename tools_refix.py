#!/usr/bin/env python3
"""Regression test of the repaired defects: revert each `fix:` commit of /repo in the working tree (one at a time),
run the property's quick check, expect exit 1 with a VIOLATION line; record whether the native replay confirmed it
(line without the no-failing-input-found suffix).  Restores the tree and rebuilds /repo/_build at the end."""
import json, re, subprocess, sys, os
os.environ['VERIF_EVIDENCE_DIR'] = os.path.join(os.path.dirname(os.path.abspath(__file__)), 'build', 'evidence_scratch')   # never overwrite committed evidence with runs on a patched tree
V = os.path.dirname(os.path.abspath(__file__))
def sh(c, **k):
    return subprocess.run(c, shell=True, text=True, stdout=subprocess.PIPE, stderr=subprocess.STDOUT, **k)
if sh('git -C /repo status --porcelain --untracked-files=no').stdout.strip():
    sys.exit('/repo is not clean')
fixed = json.load(open(V + '/known_findings.json'))['fixed']
rp = V + '/defects/REFIX_RESULTS.json'
res = json.load(open(rp)) if os.path.exists(rp) else {}
for line in fixed:
    m = re.match(r'fixed: property=(C\d\d) ([0-9a-f]{7}) (.*)', line)
    if not m:
        continue
    pid, sha, what = m.groups()
    if len(sys.argv) > 1 and sha not in sys.argv[1:]:
        continue
    r = sh('git -C /repo show %s | git -C /repo apply -R' % sha)
    if r.returncode != 0:
        res[sha] = {'property': pid, 'verdict': 'cannot revert (later commits touch the same lines)'}
        print(sha, pid, res[sha]['verdict'], flush=True)
        sh('git -C /repo checkout -- .')
        continue
    try:
        out = sh('./check %s' % pid, cwd=V)
    finally:
        sh('git -C /repo checkout -- .')
    vl = re.findall(r'^VIOLATION property=%s .*$' % pid, out.stdout, re.M)
    confirmed = [l for l in vl if 'no-failing-input-found' not in l]
    res[sha] = {'property': pid, 'exit': out.returncode, 'violation_lines': len(vl), 'natively_confirmed': len(confirmed),
                'obligations': sorted(set(re.findall(r'failed obligation \(([^)]*)\): (\S+)', out.stdout)))[:5], 'what': what[:120]}
    print(sha, pid, 'exit', out.returncode, 'violations', len(vl), 'natively confirmed', len(confirmed), flush=True)
    json.dump(res, open(V + '/defects/REFIX_RESULTS.json', 'w'), indent=1)
sh('ninja -C /repo/_build')
