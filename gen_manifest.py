#!/usr/bin/env python3
"""Regenerates MANIFEST.json from contracts/*.json (claimed properties) and na.json."""
import json, os, glob
V = os.path.dirname(os.path.abspath(__file__))
props = [json.loads(l) for l in open(os.path.join(V, 'properties.jsonl'))]
claimed = {}
for f in sorted(glob.glob(os.path.join(V, 'contracts', '*.json'))):
    c = json.load(open(f))
    for p in c.get('properties', []):
        claimed.setdefault(p, []).append(c)
notes = json.load(open(os.path.join(V, 'claims.json')))
checks = []
na = []
for p in props:
    pid = p['id']
    if pid in claimed and pid in notes['claims']:
        n = notes['claims'][pid]
        fns = sorted(set(fn['qname'].replace('Oomd::', '') for c in claimed[pid] for fn in c['functions']))
        checks.append({
            'property_id': pid,
            'quick_cmd': './check %s --tier quick' % pid,
            'thorough_cmd': './check %s --tier thorough' % pid,
            'evidence_file': 'evidence/%s.json' % pid,
            'replay_cmd_template': './check %s --replay {path}' % pid,
            'engine': 'cxx2c+cbmc-contracts',
            'level_claimed': {'category': 'proof', 'text': n['text'], 'design_ref': n.get('design_ref', 'DESIGN.md §3 ' + pid)},
            'level_note': n['note'] + ' Functions under contract: ' + ', '.join(fns) + '.',
            'technique': n.get('technique', 'CBMC function contracts (goto-instrument --dfcc) on C mechanically extracted from the C++ each run; loop contracts; ghost state'),
        })
    else:
        na.append({'property_id': pid, 'reason': notes['not_applicable'].get(pid, 'not yet under contract in this revision of /verif; no check is claimed')})
m = {
    'version': 1,
    'setup_cmd': 'python3 -c "import json" && goto-cc --version >/dev/null && clang++ --version >/dev/null',
    'hooks': {'guard': 'OOMD_VERIF', 'enable': 'none needed: extraction reads the unmodified sources; replay uses -fno-access-control and harness-defined libc symbols',
              'baseline_off_cmd': 'meson test -C /repo/_build', 'source_commits': [], 'add_only': True},
    'engines': [{'name': 'cxx2c+cbmc-contracts', 'path': 'check', 'serves_properties': [c['property_id'] for c in checks],
                 'kind_free_text': 'contract-based deductive verification: clang JSON AST -> C extraction of the real functions on every run, CBMC 6.11 code contracts enforced per function with goto-instrument --dfcc'}],
    'checks': checks,
    'not_applicable': na,
    'notes': 'See DESIGN.md. exit 0 = all obligations discharged; exit 1 = VIOLATION line; exit 2 = undecided (extraction abort, timeout, vacuity), never reported as a violation.',
}
json.dump(m, open(os.path.join(V, 'MANIFEST.json'), 'w'), indent=1)
print('claimed:', [c['property_id'] for c in checks], 'n/a:', [x['property_id'] for x in na])
